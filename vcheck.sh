#!/bin/bash
# vcheck.sh <PROP> --tier quick|thorough [extra mc flags]   |   vcheck.sh <PROP> --replay <file>   |   vcheck.sh --build-only
# Re-instruments /repo's current working tree, rebuilds the harness against it and runs the check.
export GOFLAGS=-mod=mod GOPROXY=off GOSUMDB=off GOTOOLCHAIN=local
V=/verif
REPO=${VERIF_REPO:-/repo}
if [ ! -x $V/build/bin/vinstr ] || [ ! -d $V/build/deps/scheduler ]; then
  if [ "$1" != "--build-only" ]; then (cd $V && ./setup.sh >/dev/null 2>&1) || { echo "ENGINE-ERROR setup failed"; exit 2; }; fi
fi
scratch=$(mktemp -d /var/tmp/vcheck.XXXXXX)
trap 'rm -rf "$scratch"' EXIT
$V/build/bin/vinstr -src $REPO -dst $scratch/rpc -overlay $scratch/overlay.json -stats $scratch/stats.json -inject $V/harness/inject/rpc_hooks.go.txt || exit 2
if [ "$REPO" != "/repo" ]; then
  # the harness module replaces github.com/hslam/rpc by /repo: map the scratch tree onto it
  python3 - "$scratch/overlay.json" "$REPO" <<'PY'
import json,sys,os
p,repo=sys.argv[1],sys.argv[2]
o=json.load(open(p))
r={}
for k,v in o["Replace"].items():
    r["/repo/"+os.path.basename(k)]=v
# files of /repo that do not exist in the other tree must disappear
for f in os.listdir("/repo"):
    if f.endswith(".go") and not f.endswith("_test.go") and "/repo/"+f not in r:
        r["/repo/"+f]=""
json.dump({"Replace":r},open(p,"w"))
PY
fi
(cd $V/harness && go build -overlay $scratch/overlay.json -o $scratch/mc . 2>$scratch/build.log) || { echo "ENGINE-ERROR build of the instrumented tree failed"; head -30 $scratch/build.log; exit 2; }
if [ "$1" = "--build-only" ]; then exit 0; fi
PROP=$1; shift
if [ "$1" = "--replay" ]; then
  $scratch/mc replay "$2"; exit $?
fi
TIER=quick
if [ "$1" = "--tier" ]; then TIER=$2; shift 2; fi
SELF=""
if [ "$PROP" = "C12" ] && [ "$TIER" = "thorough" ]; then
  # instrumentation self-check: the repository's own tests against the instrumented build, shim in pass-through mode
  # (the tests bind fixed ports: serialised with any other run of the suite on this machine by a lock file)
  cp $REPO/go.mod $scratch/self.mod; cp $REPO/go.sum $scratch/self.sum
  printf '\nrequire verif/shim v0.0.0\n\nreplace verif/shim => %s/shim\n' "$V" >> $scratch/self.mod
  (cd /repo && flock -w 1800 /tmp/rpc-test.lock timeout 600 go test -modfile=$scratch/self.mod -overlay $scratch/overlay.json -vet=off -count=1 -json . 2>/dev/null) | python3 -c "
import sys,json
p=set();f=set()
for l in sys.stdin:
    try: e=json.loads(l)
    except: continue
    if e.get('Test') and '/' not in e['Test']:
        if e['Action']=='pass': p.add(e['Test'])
        if e['Action']=='fail': f.add(e['Test'])
json.dump({'instrumented_suite_pass':len(p),'instrumented_suite_fail':sorted(f)},open('$scratch/selfcheck.json','w'))
print('instrumentation self-check: %d repository tests pass on the instrumented build (pass-through mode), %d fail %s' % (len(p),len(f),sorted(f)))
"
  SELF="-selfcheck $scratch/selfcheck.json"
fi
if [ "$PROP" = "C12" ] || [ "$PROP" = "C03" ] || [ "$PROP" = "C14" ]; then
  # (C12: options change nothing; C03: the server goes away with a call outstanding; C14: ErrDial while it is down)
  # real networks, both tiers (free-running, uninstrumented build of the same tree): tcp, unix, http, ws, inproc x TLS x header
  # encoders x body codecs x poll x buffer sizes; every configuration in its own subprocess
  cp /repo/go.sum $V/real/go.sum 2>/dev/null
  python3 - "$REPO" "$scratch/plain-overlay.json" <<'PY'
import json,sys,os
repo,out=sys.argv[1],sys.argv[2]
r={}
if repo!="/repo":
    for f in os.listdir(repo):
        if f.endswith(".go") and not f.endswith("_test.go"): r["/repo/"+f]=os.path.join(repo,f)
    for f in os.listdir("/repo"):
        if f.endswith(".go") and not f.endswith("_test.go") and "/repo/"+f not in r: r["/repo/"+f]=""
json.dump({"Replace":r},open(out,"w"))
PY
  if (cd $V/real && go build -overlay $scratch/plain-overlay.json -o $scratch/mcreal . 2>$scratch/real-build.log); then
    mkdir -p $scratch/realdir
    $scratch/mcreal run -jobs 8 -out $scratch/real.json -dir $scratch/realdir -seed ${VERIF_SEED:-0} | tail -40
    SELF="$SELF -real $scratch/real.json"
  else
    echo "WARNING real-network runner did not build"; head -5 $scratch/real-build.log
  fi
fi
if [ "$PROP" = "C03" ] && [ "$TIER" = "thorough" ]; then
  # environment conformance: every operation sequence up to length 4 on the harness message pipe and on real
  # TCP / UNIX socket pairs under the real socket.NewMessages framing must give the same observations
  $scratch/mc conform -out $scratch/conform.json && SELF="$SELF -conform $scratch/conform.json"
fi
OUT=$V
if [ "$REPO" != "/repo" ]; then OUT=${VERIF_OUT:-$scratch/out}; mkdir -p $OUT/evidence $OUT/replays; fi
$scratch/mc check -prop $PROP -tier $TIER -evidence $OUT/evidence/$PROP.json -replays $OUT/replays -known $V/known_findings.json -instr-stats $scratch/stats.json $SELF "$@"
rc=$?
if [ $rc -eq 3 ]; then
  # the coordinator was stopped by its watchdog (an execution stuck outside the controlled scheduler: an engine
  # problem, never a verdict; the stacks are in /var/tmp/mc-watchdog-*.txt): the whole check is run once more
  echo "NOTE the check was stopped by the engine's watchdog and is run again"
  $scratch/mc check -prop $PROP -tier $TIER -evidence $OUT/evidence/$PROP.json -replays $OUT/replays -known $V/known_findings.json -instr-stats $scratch/stats.json $SELF "$@"
  rc=$?
  [ $rc -eq 3 ] && { echo "ENGINE-ERROR the check was stopped by the engine's watchdog twice"; rc=2; }
fi
exit $rc
