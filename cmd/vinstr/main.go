// vinstr rewrites the non-test Go files of one package directory so that every synchronisation
// operation goes through the verif/shim packages (see DESIGN.md §3.1).
//
//	vinstr -src DIR -dst DIR [-overlay FILE] [-copyall] [-stats FILE]
//
// With -overlay an overlay JSON for `go build -overlay` mapping SRC/x.go -> DST/x.go is written.
// With -copyall every other regular file of SRC (go.mod, go.sum, ...) is copied to DST as well.
// Constructs that cannot be instrumented make vinstr exit with status 2 and an
// "ENGINE-ERROR unsupported construct" line instead of leaving an operation outside the scheduler.
package main

import (
	"bytes"
	"encoding/json"
	"flag"
	"fmt"
	"go/ast"
	"go/format"
	"go/parser"
	"go/token"
	"go/types"
	"io"
	"os"
	"path/filepath"
	"sort"
	"strconv"
	"strings"
)

var importMap = map[string]string{
	"sync":        "verif/shim/vsync",
	"sync/atomic": "verif/shim/vatomic",
	"time":        "verif/shim/vtime",
	"math/rand":   "verif/shim/vrand",
}

type fakeImporter struct{}

func (fakeImporter) Import(path string) (*types.Package, error) {
	name := path[strings.LastIndex(path, "/")+1:]
	p := types.NewPackage(path, name)
	p.MarkComplete()
	return p, nil
}

// file:line of range statements -> key type string (maps) / "chan"
var mapRanges = map[string]string{}
var chanRanges = map[string]bool{}
var stats = map[string]int{}

func fail(fset *token.FileSet, pos token.Pos, what string) {
	fmt.Printf("ENGINE-ERROR unsupported construct %s: %s\n", fset.Position(pos), what)
	os.Exit(2)
}

// syntactic fallback for range expressions the lenient type check cannot type (anything that
// depends on an imported package): name -> key type of a map declaration / names declared with
// a non-map type.  A name declared both ways is ambiguous and fails loudly.
var mapDecl = map[string]string{}
var nonMapDecl = map[string]bool{}

func exprString(fset *token.FileSet, e ast.Expr) string {
	var b bytes.Buffer
	format.Node(&b, fset, e)
	return b.String()
}

func collectDecls(fset *token.FileSet, f *ast.File) {
	note := func(names []*ast.Ident, t ast.Expr) {
		if t == nil {
			return
		}
		for _, n := range names {
			if mt, ok := t.(*ast.MapType); ok {
				mapDecl[n.Name] = exprString(fset, mt.Key)
			} else {
				nonMapDecl[n.Name] = true
			}
		}
	}
	mapOf := func(e ast.Expr) *ast.MapType {
		switch v := e.(type) {
		case *ast.CallExpr:
			if id, ok := v.Fun.(*ast.Ident); ok && id.Name == "make" && len(v.Args) > 0 {
				if mt, ok := v.Args[0].(*ast.MapType); ok {
					return mt
				}
			}
		case *ast.CompositeLit:
			if mt, ok := v.Type.(*ast.MapType); ok {
				return mt
			}
		}
		return nil
	}
	ast.Inspect(f, func(n ast.Node) bool {
		switch x := n.(type) {
		case *ast.Field:
			note(x.Names, x.Type)
		case *ast.ValueSpec:
			note(x.Names, x.Type)
			for i, v := range x.Values {
				if i < len(x.Names) && x.Type == nil {
					if mt := mapOf(v); mt != nil {
						mapDecl[x.Names[i].Name] = exprString(fset, mt.Key)
					}
				}
			}
		case *ast.AssignStmt:
			if x.Tok == token.DEFINE {
				for i, v := range x.Rhs {
					if i < len(x.Lhs) {
						if id, ok := x.Lhs[i].(*ast.Ident); ok {
							if mt := mapOf(v); mt != nil {
								mapDecl[id.Name] = exprString(fset, mt.Key)
							}
						}
					}
				}
			}
		}
		return true
	})
}

var typedRanges = map[string]bool{}

// typedIndex: position ("file:line:col" of the indexed expression) -> is it a map (for index
// expressions and arguments of delete that the lenient type check could type)
var typedIndex = map[string]bool{}

func posKey(fset *token.FileSet, p token.Pos) string {
	q := fset.Position(p)
	return fmt.Sprintf("%s:%d:%d", filepath.Base(q.Filename), q.Line, q.Column)
}

func typeCheck(srcDir string, names []string) {
	fset := token.NewFileSet()
	var files []*ast.File
	for _, n := range names {
		f, err := parser.ParseFile(fset, filepath.Join(srcDir, n), nil, 0)
		if err != nil {
			continue
		}
		files = append(files, f)
		collectDecls(fset, f)
	}
	if len(files) == 0 {
		return
	}
	info := &types.Info{Types: map[ast.Expr]types.TypeAndValue{}}
	conf := types.Config{Importer: fakeImporter{}, Error: func(error) {}}
	pkg, _ := conf.Check(files[0].Name.Name, fset, files, info)
	for _, f := range files {
		ast.Inspect(f, func(n ast.Node) bool {
			if ix, ok := n.(*ast.IndexExpr); ok {
				if tv, ok := info.Types[ix.X]; ok && tv.Type != nil && tv.Type != types.Typ[types.Invalid] {
					_, isMap := tv.Type.Underlying().(*types.Map)
					typedIndex[posKey(fset, ix.X.Pos())] = isMap
				}
			}
			if rs, ok := n.(*ast.RangeStmt); ok {
				if tv, ok := info.Types[rs.X]; ok && tv.Type != nil && tv.Type != types.Typ[types.Invalid] {
					pos := fset.Position(rs.Pos())
					key := fmt.Sprintf("%s:%d", filepath.Base(pos.Filename), pos.Line)
					typedRanges[key] = true
					switch mt := tv.Type.Underlying().(type) {
					case *types.Map:
						mapRanges[key] = types.TypeString(mt.Key(), func(p *types.Package) string {
							if p == pkg {
								return ""
							}
							return p.Name()
						})
					case *types.Chan:
						chanRanges[key] = true
					}
				}
			}
			return true
		})
	}
}

func main() {
	src := flag.String("src", "", "source package directory")
	dst := flag.String("dst", "", "destination directory")
	overlay := flag.String("overlay", "", "overlay JSON to write")
	copyall := flag.Bool("copyall", false, "copy other files too")
	statsFile := flag.String("stats", "", "write rewrite counts as JSON")
	inject := flag.String("inject", "", "extra source file added to the package through the overlay (as zz_verif_hooks.go)")
	flag.Parse()
	if *src == "" || *dst == "" {
		fmt.Println("usage: vinstr -src DIR -dst DIR")
		os.Exit(2)
	}
	srcDir, _ := filepath.Abs(*src)
	dstDir, _ := filepath.Abs(*dst)
	os.MkdirAll(dstDir, 0755)
	ents, err := os.ReadDir(srcDir)
	if err != nil {
		fmt.Println("ENGINE-ERROR", err)
		os.Exit(2)
	}
	var names []string
	for _, e := range ents {
		n := e.Name()
		if !e.IsDir() && strings.HasSuffix(n, ".go") && !strings.HasSuffix(n, "_test.go") {
			names = append(names, n)
		}
	}
	sort.Strings(names)
	detectLoopVarSemantics(srcDir)
	typeCheck(srcDir, names)
	rep := map[string]string{}
	for _, n := range names {
		out, err := rewrite(filepath.Join(srcDir, n))
		if err != nil {
			fmt.Printf("ENGINE-ERROR %s: %v\n", n, err)
			os.Exit(2)
		}
		if err := os.WriteFile(filepath.Join(dstDir, n), out, 0644); err != nil {
			fmt.Println("ENGINE-ERROR", err)
			os.Exit(2)
		}
		rep[filepath.Join(srcDir, n)] = filepath.Join(dstDir, n)
	}
	if *copyall {
		for _, e := range ents {
			n := e.Name()
			if e.IsDir() || strings.HasSuffix(n, ".go") {
				continue
			}
			in, err := os.Open(filepath.Join(srcDir, n))
			if err != nil {
				continue
			}
			o, _ := os.Create(filepath.Join(dstDir, n))
			io.Copy(o, in)
			o.Close()
			in.Close()
		}
	}
	if *inject != "" {
		b, err := os.ReadFile(*inject)
		if err != nil {
			fmt.Println("ENGINE-ERROR", err)
			os.Exit(2)
		}
		os.WriteFile(filepath.Join(dstDir, "zz_verif_hooks.go"), b, 0644)
		rep[filepath.Join(srcDir, "zz_verif_hooks.go")] = filepath.Join(dstDir, "zz_verif_hooks.go")
	}
	if *overlay != "" {
		b, _ := json.MarshalIndent(map[string]interface{}{"Replace": rep}, "", " ")
		os.WriteFile(*overlay, b, 0644)
	}
	stats["files"] = len(names)
	if *statsFile != "" {
		b, _ := json.Marshal(stats)
		os.WriteFile(*statsFile, b, 0644)
	}
}

type rw struct {
	fset   *token.FileSet
	tmp    int
	needVS bool
}

func rewrite(path string) ([]byte, error) {
	fset := token.NewFileSet()
	f, err := parser.ParseFile(fset, path, nil, parser.ParseComments)
	if err != nil {
		return nil, err
	}
	// drop comments except build constraints / package doc to keep the printer simple
	var keep []*ast.CommentGroup
	for _, cg := range f.Comments {
		if cg.End() < f.Package {
			keep = append(keep, cg)
		}
	}
	f.Comments = keep
	f.Doc = nil
	r := &rw{fset: fset}
	runtimeName := ""
	for _, im := range f.Imports {
		p, _ := strconv.Unquote(im.Path.Value)
		if p == "runtime" {
			runtimeName = "runtime"
			if im.Name != nil {
				runtimeName = im.Name.Name
			}
		}
		if np, ok := importMap[p]; ok {
			if im.Name == nil {
				base := p[strings.LastIndex(p, "/")+1:]
				im.Name = ast.NewIdent(base)
			}
			im.Path.Value = strconv.Quote(np)
			stats["imports"]++
		}
	}
	for _, d := range f.Decls {
		if fd, ok := d.(*ast.FuncDecl); ok && fd.Body != nil {
			r.block(fd.Body)
		}
		if gd, ok := d.(*ast.GenDecl); ok {
			r.exprs(gd)
		}
	}
	// runtime.Gosched() -> __vs.Yield()
	gosched := 0
	if runtimeName != "" {
		ast.Inspect(f, func(n ast.Node) bool {
			if ce, ok := n.(*ast.CallExpr); ok {
				if se, ok := ce.Fun.(*ast.SelectorExpr); ok {
					if id, ok := se.X.(*ast.Ident); ok && id.Name == runtimeName && se.Sel.Name == "Gosched" {
						ce.Fun = vs("Yield")
						r.needVS = true
						gosched++
						stats["gosched"]++
					}
				}
			}
			return true
		})
		// is runtime still used?
		used := false
		ast.Inspect(f, func(n ast.Node) bool {
			if se, ok := n.(*ast.SelectorExpr); ok {
				if id, ok := se.X.(*ast.Ident); ok && id.Name == runtimeName {
					used = true
				}
			}
			return true
		})
		if !used {
			for _, im := range f.Imports {
				if p, _ := strconv.Unquote(im.Path.Value); p == "runtime" {
					im.Name = ast.NewIdent("_")
				}
			}
		}
	}
	if r.needVS {
		spec := &ast.ImportSpec{Name: ast.NewIdent("__vs"), Path: &ast.BasicLit{Kind: token.STRING, Value: strconv.Quote("verif/shim/vsync")}}
		gd := &ast.GenDecl{Tok: token.IMPORT, Specs: []ast.Spec{spec}}
		f.Decls = append([]ast.Decl{gd}, f.Decls...)
	}
	var buf bytes.Buffer
	if err := format.Node(&buf, fset, f); err != nil {
		return nil, err
	}
	return buf.Bytes(), nil
}

func (r *rw) id(p string) *ast.Ident { r.tmp++; return ast.NewIdent(fmt.Sprintf("__%s%d", p, r.tmp)) }

func vs(name string) ast.Expr {
	return &ast.SelectorExpr{X: ast.NewIdent("__vs"), Sel: ast.NewIdent(name)}
}
func call(f ast.Expr, args ...ast.Expr) *ast.CallExpr { return &ast.CallExpr{Fun: f, Args: args} }

// exprs instruments function literals nested in n and the builtin close.
func (r *rw) exprs(n ast.Node) {
	if n == nil {
		return
	}
	ast.Inspect(n, func(n ast.Node) bool {
		if fl, ok := n.(*ast.FuncLit); ok {
			r.block(fl.Body)
			return false
		}
		if ce, ok := n.(*ast.CallExpr); ok {
			if id, ok := ce.Fun.(*ast.Ident); ok && id.Name == "close" && id.Obj == nil && len(ce.Args) == 1 {
				r.needVS = true
				ce.Fun = vs("Close")
				stats["close"]++
			}
			// make(chan T) / make(chan T, 0): an unbuffered channel (see vsync.MakeSync)
			if id, ok := ce.Fun.(*ast.Ident); ok && id.Name == "make" && id.Obj == nil && len(ce.Args) >= 1 {
				if ct, ok := ce.Args[0].(*ast.ChanType); ok {
					zero := len(ce.Args) == 1
					if len(ce.Args) == 2 {
						if bl, ok := ce.Args[1].(*ast.BasicLit); ok && bl.Value == "0" {
							zero = true
						}
					}
					if zero {
						r.needVS = true
						stats["makesync"]++
						nid := ast.NewIdent("vsn")
						inner := &ast.CallExpr{Fun: ast.NewIdent("make"), Args: []ast.Expr{ct, nid}}
						fl := &ast.FuncLit{
							Type: &ast.FuncType{Params: &ast.FieldList{List: []*ast.Field{{Names: []*ast.Ident{nid}, Type: ast.NewIdent("int")}}}, Results: &ast.FieldList{List: []*ast.Field{{Type: &ast.InterfaceType{Methods: &ast.FieldList{}}}}}},
							Body: &ast.BlockStmt{List: []ast.Stmt{&ast.ReturnStmt{Results: []ast.Expr{inner}}}},
						}
						// func() chan T { return __vs.MakeSync(func(vsn int) interface{} { return make(chan T, vsn) }).(chan T) }()
						outer := &ast.FuncLit{
							Type: &ast.FuncType{Params: &ast.FieldList{}, Results: &ast.FieldList{List: []*ast.Field{{Type: ct}}}},
							Body: &ast.BlockStmt{List: []ast.Stmt{&ast.ReturnStmt{Results: []ast.Expr{&ast.TypeAssertExpr{X: call(vs("MakeSync"), fl), Type: ct}}}}},
						}
						ce.Fun = outer
						ce.Args = nil
						return false
					}
				}
			}
			// runtime.SetFinalizer: finalizers run as controlled threads (see vsync.SetFinalizer)
			if se, ok := ce.Fun.(*ast.SelectorExpr); ok && se.Sel.Name == "SetFinalizer" {
				if pk, ok := se.X.(*ast.Ident); ok && pk.Name == "runtime" && pk.Obj == nil {
					r.needVS = true
					stats["setfinalizer"]++
					ce.Fun = vs("SetFinalizer")
				}
			}
		}
		return true
	})
}

func (r *rw) block(b *ast.BlockStmt) {
	if b == nil {
		return
	}
	b.List = r.stmts(b.List)
}

func (r *rw) stmts(in []ast.Stmt) []ast.Stmt {
	var out []ast.Stmt
	for _, s := range in {
		out = append(out, r.mapAccesses(s)...)
		if fw := r.fieldWrite(s); fw != nil {
			out = append(out, fw...)
			continue
		}
		out = append(out, r.stmt(s)...)
	}
	return out
}

// isMapExpr: is e (the base of an index expression, the first argument of delete, the operand
// of a range) a map?  The type check decides where it could type e; otherwise the name of the
// variable or field decides (declared as a map somewhere in the package and never as anything else).
func (r *rw) isMapExpr(e ast.Expr) bool {
	if m, ok := typedIndex[posKey(r.fset, e.Pos())]; ok {
		return m
	}
	name := ""
	switch x := e.(type) {
	case *ast.Ident:
		name = x.Name
	case *ast.SelectorExpr:
		name = x.Sel.Name
	}
	_, isMap := mapDecl[name]
	return isMap && !nonMapDecl[name]
}

// pureExpr: an identifier or a selector chain rooted in one (evaluating it once more has no effect)
func pureExpr(e ast.Expr) bool {
	switch x := e.(type) {
	case *ast.Ident:
		return true
	case *ast.SelectorExpr:
		return pureExpr(x.X)
	case *ast.ParenExpr:
		return pureExpr(x.X)
	}
	return false
}

// mapAccesses returns vsync.MapAccess(m, write) calls for the map reads and writes that the
// statement s performs itself (not inside nested blocks or function literals): index expressions
// on maps (on the left of an assignment or in ++/--: write; elsewhere: read), delete(m, k) (write)
// and range over a map (read).  See shim/vsync/race.go.
func (r *rw) mapAccesses(s ast.Stmt) []ast.Stmt {
	var out []ast.Stmt
	seen := map[string]bool{}
	add := func(m ast.Expr, write bool) {
		if !pureExpr(m) {
			return
		}
		k := exprString(r.fset, m) + fmt.Sprint(write)
		if seen[k] {
			return
		}
		seen[k] = true
		stats["mapaccess"]++
		r.needVS = true
		w := "false"
		if write {
			w = "true"
		}
		out = append(out, &ast.ExprStmt{X: call(vs("MapAccess"), m, ast.NewIdent(w))})
	}
	var scanExpr func(e ast.Node, lhs bool)
	scanExpr = func(e ast.Node, lhs bool) {
		if e == nil {
			return
		}
		ast.Inspect(e, func(n ast.Node) bool {
			switch x := n.(type) {
			case *ast.FuncLit:
				return false
			case *ast.IndexExpr:
				if r.isMapExpr(x.X) {
					add(x.X, lhs)
				}
				scanExpr(x.X, false)
				scanExpr(x.Index, false)
				return false
			case *ast.CallExpr:
				if id, ok := x.Fun.(*ast.Ident); ok && id.Name == "delete" && len(x.Args) == 2 && r.isMapExpr(x.Args[0]) {
					add(x.Args[0], true)
				}
			}
			return true
		})
	}
	switch x := s.(type) {
	case *ast.AssignStmt:
		for _, l := range x.Lhs {
			if ix, ok := l.(*ast.IndexExpr); ok && r.isMapExpr(ix.X) {
				add(ix.X, true)
				scanExpr(ix.Index, false)
			} else {
				scanExpr(l, false)
			}
		}
		for _, e := range x.Rhs {
			scanExpr(e, false)
		}
	case *ast.IncDecStmt:
		if ix, ok := x.X.(*ast.IndexExpr); ok && r.isMapExpr(ix.X) {
			add(ix.X, true)
		} else {
			scanExpr(x.X, false)
		}
	case *ast.ExprStmt:
		scanExpr(x.X, false)
	case *ast.ReturnStmt:
		for _, e := range x.Results {
			scanExpr(e, false)
		}
	case *ast.IfStmt:
		if x.Init != nil {
			out = append(out, r.mapAccesses(x.Init)...)
		}
		scanExpr(x.Cond, false)
	case *ast.SwitchStmt:
		if x.Init != nil {
			out = append(out, r.mapAccesses(x.Init)...)
		}
		scanExpr(x.Tag, false)
	case *ast.ForStmt:
		if x.Init != nil {
			out = append(out, r.mapAccesses(x.Init)...)
		}
		scanExpr(x.Cond, false)
	case *ast.RangeStmt:
		if r.isMapExpr(x.X) {
			add(x.X, false)
		}
	case *ast.SendStmt:
		scanExpr(x.Value, false)
	case *ast.GoStmt:
		scanExpr(x.Call, false)
	case *ast.DeferStmt:
		scanExpr(x.Call, false)
	}
	return out
}

// fieldChain reports whether e is x.f, x.f.g, ... rooted in an identifier (no calls, no indexing:
// evaluating it twice has no effect).
func fieldChain(e ast.Expr) bool {
	sel, ok := e.(*ast.SelectorExpr)
	if !ok {
		return false
	}
	for {
		switch x := sel.X.(type) {
		case *ast.Ident:
			return true
		case *ast.SelectorExpr:
			sel = x
		default:
			return false
		}
	}
}

// fieldWrite: a statement that stores into a struct field gets vsync.SharedWrite() in front of the
// store (a scheduling point only while the thread holds a read lock; see the shim).  x.f++ and
// x.f op= y are split into load, point, store so that a lost update under a shared lock is
// expressible; plain assignments get the point in front of the statement.
func (r *rw) fieldWrite(s ast.Stmt) []ast.Stmt {
	sw := &ast.ExprStmt{X: call(vs("SharedWrite"))}
	switch x := s.(type) {
	case *ast.IncDecStmt:
		if !fieldChain(x.X) {
			return nil
		}
		stats["fieldwrite"]++
		r.needVS = true
		t := r.id("fw")
		op := token.ADD
		if x.Tok == token.DEC {
			op = token.SUB
		}
		return []ast.Stmt{&ast.BlockStmt{List: []ast.Stmt{
			&ast.AssignStmt{Lhs: []ast.Expr{t}, Tok: token.DEFINE, Rhs: []ast.Expr{x.X}},
			sw,
			&ast.AssignStmt{Lhs: []ast.Expr{x.X}, Tok: token.ASSIGN, Rhs: []ast.Expr{&ast.BinaryExpr{X: t, Op: op, Y: &ast.BasicLit{Kind: token.INT, Value: "1"}}}},
		}}}
	case *ast.AssignStmt:
		any := false
		for _, l := range x.Lhs {
			if fieldChain(l) {
				any = true
			}
		}
		if !any || x.Tok == token.DEFINE {
			return nil
		}
		stats["fieldwrite"]++
		r.needVS = true
		if len(x.Lhs) == 1 && len(x.Rhs) == 1 && x.Tok != token.ASSIGN && len(recvs(x)) == 0 {
			var op token.Token
			switch x.Tok {
			case token.ADD_ASSIGN:
				op = token.ADD
			case token.SUB_ASSIGN:
				op = token.SUB
			case token.OR_ASSIGN:
				op = token.OR
			case token.AND_ASSIGN:
				op = token.AND
			case token.XOR_ASSIGN:
				op = token.XOR
			}
			if op != 0 {
				r.exprs(x)
				t := r.id("fw")
				return []ast.Stmt{&ast.BlockStmt{List: []ast.Stmt{
					&ast.AssignStmt{Lhs: []ast.Expr{t}, Tok: token.DEFINE, Rhs: []ast.Expr{x.Lhs[0]}},
					sw,
					&ast.AssignStmt{Lhs: []ast.Expr{x.Lhs[0]}, Tok: token.ASSIGN, Rhs: []ast.Expr{&ast.BinaryExpr{X: t, Op: op, Y: &ast.ParenExpr{X: x.Rhs[0]}}}},
				}}}
			}
		}
		return append([]ast.Stmt{sw}, r.stmt(s)...)
	}
	return nil
}

// recvs returns the channel expressions of receive operations directly in n (not inside
// nested function literals).
func recvs(n ast.Node) []ast.Expr {
	var cs []ast.Expr
	if n == nil {
		return nil
	}
	ast.Inspect(n, func(n ast.Node) bool {
		switch x := n.(type) {
		case *ast.FuncLit:
			return false
		case *ast.UnaryExpr:
			if x.Op == token.ARROW {
				cs = append(cs, x.X)
			}
		}
		return true
	})
	return cs
}

func (r *rw) noRecv(n ast.Node, where string) {
	if n == nil {
		return
	}
	if cs := recvs(n); len(cs) > 0 {
		fail(r.fset, cs[0].Pos(), "channel receive inside "+where)
	}
}

func (r *rw) waitRecvs(n ast.Node) []ast.Stmt {
	var pre []ast.Stmt
	for _, c := range recvs(n) {
		r.needVS = true
		stats["recv"]++
		pre = append(pre, &ast.ExprStmt{X: call(vs("WaitRecv"), c)})
	}
	return pre
}

func one(ss []ast.Stmt) ast.Stmt {
	if len(ss) == 1 {
		return ss[0]
	}
	return &ast.BlockStmt{List: ss}
}

func (r *rw) stmt(s ast.Stmt) []ast.Stmt {
	switch x := s.(type) {
	case *ast.BlockStmt:
		r.block(x)
	case *ast.IfStmt:
		var pre []ast.Stmt
		if x.Init != nil {
			r.exprs(x.Init)
			pre = r.waitRecvs(x.Init)
		}
		r.exprs(x.Cond)
		r.noRecv(x.Cond, "an if condition")
		r.block(x.Body)
		if x.Else != nil {
			if ei, ok := x.Else.(*ast.IfStmt); ok && ei.Init != nil {
				r.noRecv(ei.Init, "an else-if initialiser")
			}
			x.Else = one(r.stmt(x.Else))
			if _, ok := x.Else.(*ast.IfStmt); !ok {
				if _, ok := x.Else.(*ast.BlockStmt); !ok {
					x.Else = &ast.BlockStmt{List: []ast.Stmt{x.Else}}
				}
			}
		}
		if len(pre) > 0 {
			return []ast.Stmt{&ast.BlockStmt{List: append(pre, x)}}
		}
		return []ast.Stmt{x}
	case *ast.ForStmt:
		r.exprs(x.Init)
		r.exprs(x.Cond)
		r.exprs(x.Post)
		r.noRecv(x.Init, "a for initialiser")
		r.noRecv(x.Cond, "a for condition")
		r.noRecv(x.Post, "a for post statement")
		r.block(x.Body)
	case *ast.RangeStmt:
		r.exprs(x.X)
		r.noRecv(x.X, "a range expression")
		r.block(x.Body)
		pos := r.fset.Position(x.Pos())
		key := fmt.Sprintf("%s:%d", filepath.Base(pos.Filename), pos.Line)
		if chanRanges[key] {
			fail(r.fset, x.Pos(), "range over a channel")
		}
		if keyS, ok := mapRanges[key]; ok {
			return r.mapRange(x, keyS)
		}
		if !typedRanges[key] {
			// untyped range expression: decide by declaration names
			name := ""
			switch e := x.X.(type) {
			case *ast.Ident:
				name = e.Name
			case *ast.SelectorExpr:
				name = e.Sel.Name
			}
			if keyS, ok := mapDecl[name]; ok {
				if nonMapDecl[name] {
					fail(r.fset, x.Pos(), "range over "+name+": cannot decide whether it is a map (declared both as a map and as something else, and its type depends on an imported package)")
				}
				stats["maprange_by_name"]++
				return r.mapRange(x, keyS)
			}
		}
	case *ast.SwitchStmt:
		r.exprs(x.Init)
		r.exprs(x.Tag)
		r.noRecv(x.Init, "a switch initialiser")
		r.noRecv(x.Tag, "a switch tag")
		for _, c := range x.Body.List {
			cc := c.(*ast.CaseClause)
			for _, e := range cc.List {
				r.exprs(e)
				r.noRecv(e, "a case expression")
			}
			cc.Body = r.stmts(cc.Body)
		}
	case *ast.TypeSwitchStmt:
		r.exprs(x.Init)
		r.exprs(x.Assign)
		r.noRecv(x.Init, "a type switch")
		r.noRecv(x.Assign, "a type switch")
		for _, c := range x.Body.List {
			cc := c.(*ast.CaseClause)
			cc.Body = r.stmts(cc.Body)
		}
	case *ast.LabeledStmt:
		if _, ok := x.Stmt.(*ast.SelectStmt); ok {
			fail(r.fset, x.Pos(), "labeled select statement")
		}
		x.Stmt = one(r.stmt(x.Stmt))
	case *ast.GoStmt:
		r.needVS = true
		stats["go"]++
		ce := x.Call
		r.exprs(ce)
		r.noRecv(ce, "a go statement")
		if fl, ok := ce.Fun.(*ast.FuncLit); ok && len(ce.Args) == 0 {
			return []ast.Stmt{&ast.ExprStmt{X: call(vs("Go"), fl)}}
		}
		var pre []ast.Stmt
		fid := r.id("f")
		pre = append(pre, &ast.AssignStmt{Lhs: []ast.Expr{fid}, Tok: token.DEFINE, Rhs: []ast.Expr{ce.Fun}})
		var args []ast.Expr
		for _, a := range ce.Args {
			aid := r.id("a")
			pre = append(pre, &ast.AssignStmt{Lhs: []ast.Expr{aid}, Tok: token.DEFINE, Rhs: []ast.Expr{a}})
			args = append(args, aid)
		}
		inner := &ast.CallExpr{Fun: fid, Args: args, Ellipsis: ce.Ellipsis}
		fl := &ast.FuncLit{Type: &ast.FuncType{Params: &ast.FieldList{}}, Body: &ast.BlockStmt{List: []ast.Stmt{&ast.ExprStmt{X: inner}}}}
		pre = append(pre, &ast.ExprStmt{X: call(vs("Go"), fl)})
		return []ast.Stmt{&ast.BlockStmt{List: pre}}
	case *ast.SendStmt:
		r.needVS = true
		stats["send"]++
		r.exprs(x)
		r.noRecv(x, "a send statement")
		return []ast.Stmt{&ast.ExprStmt{X: call(vs("WaitSend"), x.Chan)}, x, &ast.ExprStmt{X: call(vs("AfterSend"), x.Chan)}}
	case *ast.SelectStmt:
		r.needVS = true
		stats["select"]++
		return r.sel(x)
	case *ast.DeclStmt:
		r.exprs(x)
		if pre := r.waitRecvs(x); len(pre) > 0 {
			// the declaration must stay in the enclosing scope
			return append(pre, x)
		}
	case *ast.ExprStmt, *ast.AssignStmt, *ast.ReturnStmt, *ast.IncDecStmt:
		r.exprs(x)
		if pre := r.waitRecvs(x); len(pre) > 0 {
			return append(pre, x)
		}
	case *ast.DeferStmt:
		r.exprs(x)
		r.noRecv(x.Call, "a defer statement")
	}
	return []ast.Stmt{s}
}

func (r *rw) mapRange(x *ast.RangeStmt, keyS string) []ast.Stmt {
	keyT, err := parser.ParseExpr(keyS)
	if err != nil {
		fail(r.fset, x.Pos(), "map key type "+keyS+" cannot be printed")
	}
	r.needVS = true
	stats["maprange"]++
	m := r.id("m")
	ki := r.id("ki")
	var kid ast.Expr = r.id("k")
	tok := token.DEFINE
	if x.Key != nil {
		if id, ok := x.Key.(*ast.Ident); !ok || id.Name != "_" {
			kid = x.Key
			tok = x.Tok
		}
	}
	// Loop variables: before Go 1.22 (the language version of the module decides) a range statement
	// with := has ONE key and ONE value variable for the whole loop, and closures made in the body
	// share them; the rewritten loop keeps that (sharedLoopVars) by declaring both in front of the
	// loop.  The value variable gets its type from an index expression (v := m[k]).
	var pre []ast.Stmt
	if sharedLoopVars && tok == token.DEFINE {
		if id, ok := kid.(*ast.Ident); ok {
			pre = append(pre, &ast.DeclStmt{Decl: &ast.GenDecl{Tok: token.VAR, Specs: []ast.Spec{&ast.ValueSpec{Names: []*ast.Ident{id}, Type: keyT}}}})
			pre = append(pre, &ast.AssignStmt{Lhs: []ast.Expr{ast.NewIdent("_")}, Tok: token.ASSIGN, Rhs: []ast.Expr{id}})
			tok = token.ASSIGN
		}
	}
	body := []ast.Stmt{
		&ast.AssignStmt{Lhs: []ast.Expr{kid}, Tok: tok, Rhs: []ast.Expr{&ast.TypeAssertExpr{X: ki, Type: keyT}}},
	}
	okid := r.id("ok")
	var vid ast.Expr = ast.NewIdent("_")
	vtok := token.ASSIGN
	if x.Value != nil {
		if id, ok := x.Value.(*ast.Ident); !ok || id.Name != "_" {
			vid = x.Value
			vtok = x.Tok
		}
	}
	if sharedLoopVars && vtok == token.DEFINE {
		if id, ok := vid.(*ast.Ident); ok {
			zeroKey := &ast.StarExpr{X: call(ast.NewIdent("new"), keyT)}
			pre = append(pre, &ast.AssignStmt{Lhs: []ast.Expr{id}, Tok: token.DEFINE, Rhs: []ast.Expr{&ast.IndexExpr{X: m, Index: zeroKey}}})
			pre = append(pre, &ast.AssignStmt{Lhs: []ast.Expr{ast.NewIdent("_")}, Tok: token.ASSIGN, Rhs: []ast.Expr{id}})
			vtok = token.ASSIGN
		}
	}
	if vtok == token.DEFINE {
		body = append(body, &ast.AssignStmt{Lhs: []ast.Expr{vid, okid}, Tok: token.DEFINE, Rhs: []ast.Expr{&ast.IndexExpr{X: m, Index: kid}}})
		if id, ok := vid.(*ast.Ident); ok {
			body = append(body, &ast.AssignStmt{Lhs: []ast.Expr{ast.NewIdent("_")}, Tok: token.ASSIGN, Rhs: []ast.Expr{id}})
		}
	} else {
		body = append(body, &ast.DeclStmt{Decl: &ast.GenDecl{Tok: token.VAR, Specs: []ast.Spec{&ast.ValueSpec{Names: []*ast.Ident{okid}, Type: ast.NewIdent("bool")}}}})
		body = append(body, &ast.AssignStmt{Lhs: []ast.Expr{vid, okid}, Tok: token.ASSIGN, Rhs: []ast.Expr{&ast.IndexExpr{X: m, Index: kid}}})
	}
	body = append(body, &ast.IfStmt{Cond: &ast.UnaryExpr{Op: token.NOT, X: okid}, Body: &ast.BlockStmt{List: []ast.Stmt{&ast.BranchStmt{Tok: token.CONTINUE}}}})
	if tok == token.DEFINE {
		if id, ok := kid.(*ast.Ident); ok {
			body = append(body, &ast.AssignStmt{Lhs: []ast.Expr{ast.NewIdent("_")}, Tok: token.ASSIGN, Rhs: []ast.Expr{id}})
		}
	}
	body = append(body, x.Body.List...)
	loop := &ast.RangeStmt{Key: ast.NewIdent("_"), Value: ki, Tok: token.DEFINE, X: call(vs("MapKeys"), m), Body: &ast.BlockStmt{List: body}}
	out := []ast.Stmt{&ast.AssignStmt{Lhs: []ast.Expr{m}, Tok: token.DEFINE, Rhs: []ast.Expr{x.X}}}
	out = append(out, pre...)
	out = append(out, loop)
	return []ast.Stmt{&ast.BlockStmt{List: out}}
}

// sharedLoopVars: the source module's language version is below 1.22 (read from its go.mod; a
// directory without go.mod is taken as old).
var sharedLoopVars = true

func detectLoopVarSemantics(srcDir string) {
	b, err := os.ReadFile(filepath.Join(srcDir, "go.mod"))
	if err != nil {
		return
	}
	for _, l := range strings.Split(string(b), "\n") {
		f := strings.Fields(l)
		if len(f) == 2 && f[0] == "go" {
			p := strings.Split(f[1], ".")
			if len(p) >= 2 {
				maj, _ := strconv.Atoi(p[0])
				min, _ := strconv.Atoi(p[1])
				sharedLoopVars = maj < 1 || (maj == 1 && min < 22)
			}
		}
	}
	stats["shared_loop_vars"] = 0
	if sharedLoopVars {
		stats["shared_loop_vars"] = 1
	}
}

// sel rewrites a select statement into
//
//	if __vs.Controlled() { c1 := ch1; ...; switch __vs.Select(hasDefault, CR(c1), CS(c2)) { case 0: <op>; body ... } }
//	else { original select }
func (r *rw) sel(x *ast.SelectStmt) []ast.Stmt {
	var pre []ast.Stmt
	var cases []ast.Expr
	hasDefault := false
	sw := &ast.SwitchStmt{Body: &ast.BlockStmt{}}
	idx := 0
	for _, c := range x.Body.List {
		cc := c.(*ast.CommClause)
		if cc.Comm != nil {
			r.exprs(cc.Comm)
		}
		cc.Body = r.stmts(cc.Body)
		if cc.Comm == nil {
			hasDefault = true
			sw.Body.List = append(sw.Body.List, &ast.CaseClause{List: nil, Body: cc.Body})
			continue
		}
		cid := r.id("c")
		var op ast.Stmt
		switch cm := cc.Comm.(type) {
		case *ast.SendStmt:
			vid := r.id("v")
			pre = append(pre, &ast.AssignStmt{Lhs: []ast.Expr{cid}, Tok: token.DEFINE, Rhs: []ast.Expr{cm.Chan}})
			pre = append(pre, &ast.AssignStmt{Lhs: []ast.Expr{vid}, Tok: token.DEFINE, Rhs: []ast.Expr{cm.Value}})
			cases = append(cases, call(vs("CS"), cid))
			op = &ast.SendStmt{Chan: cid, Value: vid}
		case *ast.ExprStmt:
			u, ok := cm.X.(*ast.UnaryExpr)
			if !ok || u.Op != token.ARROW {
				fail(r.fset, cm.Pos(), "select clause")
			}
			pre = append(pre, &ast.AssignStmt{Lhs: []ast.Expr{cid}, Tok: token.DEFINE, Rhs: []ast.Expr{u.X}})
			cases = append(cases, call(vs("CR"), cid))
			op = &ast.ExprStmt{X: &ast.UnaryExpr{Op: token.ARROW, X: cid}}
		case *ast.AssignStmt:
			u, ok := cm.Rhs[0].(*ast.UnaryExpr)
			if !ok || u.Op != token.ARROW || len(cm.Rhs) != 1 {
				fail(r.fset, cm.Pos(), "select clause")
			}
			pre = append(pre, &ast.AssignStmt{Lhs: []ast.Expr{cid}, Tok: token.DEFINE, Rhs: []ast.Expr{u.X}})
			cases = append(cases, call(vs("CR"), cid))
			op = &ast.AssignStmt{Lhs: cm.Lhs, Tok: cm.Tok, Rhs: []ast.Expr{&ast.UnaryExpr{Op: token.ARROW, X: cid}}}
		default:
			fail(r.fset, cc.Pos(), "select clause")
		}
		body := append([]ast.Stmt{op}, cc.Body...)
		sw.Body.List = append(sw.Body.List, &ast.CaseClause{List: []ast.Expr{&ast.BasicLit{Kind: token.INT, Value: strconv.Itoa(idx)}}, Body: body})
		idx++
	}
	def := "false"
	if hasDefault {
		def = "true"
	} else {
		// keeps the rewritten statement terminating when the original select was
		sw.Body.List = append(sw.Body.List, &ast.CaseClause{List: nil, Body: []ast.Stmt{&ast.ExprStmt{X: call(ast.NewIdent("panic"), &ast.BasicLit{Kind: token.STRING, Value: strconv.Quote("vsync: select returned without a ready case")})}}})
	}
	args := append([]ast.Expr{ast.NewIdent(def)}, cases...)
	sw.Tag = call(vs("Select"), args...)
	ctl := &ast.BlockStmt{List: append(pre, sw)}
	return []ast.Stmt{&ast.IfStmt{Cond: call(vs("Ctl")), Body: ctl, Else: &ast.BlockStmt{List: []ast.Stmt{x}}}}
}
