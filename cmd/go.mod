module verif/cmd

go 1.21
