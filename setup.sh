#!/bin/bash
# Builds the framework from files on disk only (offline). Idempotent.
set -e
export GOFLAGS=-mod=mod GOPROXY=off GOSUMDB=off GOTOOLCHAIN=local
V=/verif
mkdir -p $V/build/bin $V/build/deps $V/evidence $V/replays
(cd $V/cmd && go build -o $V/build/bin/vinstr ./vinstr)
# instrumented copies of the dependencies whose concurrency matters
for d in scheduler buffer socket; do
  src=$(cd /repo && go list -m -f '{{.Dir}}' github.com/hslam/$d)
  rm -rf $V/build/deps/$d; mkdir -p $V/build/deps/$d
  $V/build/bin/vinstr -src "$src" -dst $V/build/deps/$d -copyall >/dev/null
  chmod -R u+w $V/build/deps/$d
done
cp $V/harness/inject/scheduler_reset.go.txt $V/build/deps/scheduler/verif_reset.go
grep -q 'buckets\[seq%numBuckets\].Schedule(task)' $V/build/deps/scheduler/scheduler.go || { echo "ENGINE-ERROR hslam/scheduler changed: cannot route Schedule through verifBucket"; exit 2; }
sed -i 's/buckets\[seq%numBuckets\].Schedule(task)/verifBucket(seq % numBuckets).Schedule(task)/' $V/build/deps/scheduler/scheduler.go
cp /repo/go.sum $V/harness/go.sum
# warm the build cache with the instrumented tree
$V/vcheck.sh --build-only
echo "setup ok"
