#!/usr/bin/env python3
"""Regenerates /verif/MANIFEST.json from the table below and validates it against the schema."""
import json, sys, os
V = '/verif'
CLAIMED = {

 'C08': ("exhaustive enumeration of malformed frames (every truncation, single-byte corruption, one-byte frame, upgrade byte) on the real server and client under the controlled scheduler + stateless DFS over disconnect points racing with teardown",
         "Server side: for 5 valid request frames (call, ping, stream open/data/close) under all four header encodings every truncation and every single-byte corruption (6 values per position quick, all 255 thorough), every one-byte frame, 256 upgrade bytes on three method shapes (two-byte frames thorough), in ServeCodec plain/pipelining/direct I/O and poll(1,2 workers): no controlled thread panics, a well-formed probe on the same connection is answered unless the server closed it, a second connection is always served. Client side: the same mutations of 3 response frames with a call outstanding: no panic, at most one completion, the next call is served. Disconnects: bursts of 1-3 requests (optionally behind an open stream) followed by close/reset at every position, d<=2: no panic (the shim's WaitGroup reproduces the runtime's misuse panics), nothing executed twice, another connection is served.",
         "panics are detected in controlled threads (a Go runtime fatal error from a data race is outside the model); threads left blocked by adversarial frames are recorded, not judged", "5 C08"),
 'C12': ("exhaustive enumeration of the configuration cross product on the real code under the controlled scheduler (fixed script, expected transcript) + one concurrent workload at d<=1",
         "Header encoder {default,pb,code,json} x body codec {json,code,pb by name or constructor independently on each end; bytes, xml, msgp} x buffer sizes {64,4096,65536} x server modes (quick: each of poll/pipelining/direct I/O/context buffer/NoCopy alone and all together; thorough: all 32 combinations) x client modes (quick: each of direct I/O/pipelining/NoCopy alone and all together; thorough: all 8): the script (success, handler error, unknown method, with-context handler, ping, a message larger than every buffer, a stream exchange, success) yields exactly the expected transcript and handler execution counts in every configuration.",
         "networks are replaced by the fake socket in this controlled part (real tcp/unix/http/ws/inproc/TLS are not exercised by this check); NoCopy is not combined with the aliasing BYTES codec", "5 C12"),

 'C07': ("exhaustive enumeration of boundary-value header cases against independent reference encoders (no sampling)",
         "Four encodings (built-in default path through the real client/server codecs, pb, code, json) x requests and responses x sequence numbers at every varint length boundary (0,1,2^7k-1,2^7k for k=1..9, 2^64-1) x upgrade field (absent, flag bytes, 2-byte) x method/error text lengths {0,1,127,128,129,16383,16384} (arbitrary bytes; valid UTF-8 with escapes under json) x body lengths {0,1,127,128,16383,16384} plus 2097151/2097152 crossed with one other field at a time x 6 scratch-buffer shapes (nil, needed-1, needed, needed+1, 64 KiB, holding a previous longer encoding): decode(encode(x)) == x, the bytes equal an independent reference encoder of the documented format (protobuf wire format tags 1-4 / 1-3 with omitted zero fields; varint-length-prefixed fields; JSON keys i,u,m,p,e,r parsed independently), reference bytes decode to the same fields, and all 32 upgrade flag combinations round-trip with the documented bit layout.",
         "finite boundary alphabets, not all 2^64 values; package-private upgrade type reached through an overlay-only hook file (harness/inject/rpc_hooks.go.txt)", "5 C07"),
 'C20': ("complete enumeration of usage histories x close orders + stateless DFS over schedules (deviation-bounded); oracle = scheduler thread census, virtual timer census, fake-socket census",
         "Histories {idle, used, call in flight, open stream with blocked reader, dead peer, waiting Client caller, pending Fallback timer} for Conn+Server, Transport+Server (limits 1,2; an idle-queue entry) and Client+Transport+Server, both close orders, every Close issued twice: at quiescence every thread the library spawned has terminated, no virtual ticker/timer is active, both ends of every connection ever dialled are closed, callers and readers have returned, the second Conn.Close reports ErrShutdown and the other Closes nil, ListenWithOptions has returned.",
         "non-poll servers only (as the property says); bounds d<=2 quick / d<=3 thorough", "5 C20"),

 'C16': ("explicit enumeration of all event sequences (depth-bounded) over the real Client with a fake RoundTripper + stateless DFS over schedules for callers racing with Update",
         "Every sequence of 3 (thorough 4) events over {Update(6 lists incl. duplicates/empty strings/empty list), detector tick, health flip, Director on/off, a call of each of the 6 forms} under all three scheduling policies: every routed address is the Director's non-empty answer or a member of the most recently supplied list; plus two callers and a detector tick racing with Update (d<=2): routed addresses belong to the old or the new list, and calls started after Update returned only go to the new list.",
         "probe Pings issued by the client's own detector are not calls and are excluded; transport replaced by a fake RoundTripper", "5 C16"),
 'C17': ("explicit enumeration of all call sequences with environment moves (latency changes, pauses, every rand.Intn outcome) against a reference model of the documented policy",
         "RoundRobin/Random over 2-3 live targets, all call forms, detector ticks in between, cursor starting at every position: any n consecutive round-robin calls hit n distinct targets and Random only picks live targets (every rand.Intn outcome explored). LeastTime over 2-3 targets, Alpha in {0.8,0.5,0}, Tick in {100ms,10ms}, every sequence of 5 (thorough 7) calls each preceded by {nothing, 30ms pause, 120ms pause, a latency change}: each call is the due probe (rotation, at most one per Tick) or goes to a target whose reference estimate (first sample replaces the maximum, then old*alpha+new*(1-alpha)) is minimal; an unreachable target is dropped and re-probed after recovery.",
         "virtual clock; latencies from {1,5,50} ms", "5 C17"),
 'C18': ("stateless DFS over thread schedules (deviation-bounded) of the real Client with fake RoundTripper and virtual clock, scripted health histories",
         "2-3 callers of all six call forms waiting with no live target: released (successfully, to the live target) within two detector ticks of a target coming up; otherwise failing not before DialTimeout and never waiting longer (ErrTimeout for Call/CallWithContext, non-nil for the others); Close releases them at once (ErrShutdown) and every later call fails at once; Fallback shorter/longer than DialTimeout; failover: a refusing target stops receiving calls within two ticks while another is healthy and is used again after recovery, for every call form; no thread is left behind after Close.",
         "detection bound taken as two detector ticks (100 ms each); bounds d<=2 quick / d<=3 thorough", "5 C18"),

 'C13': ("explicit enumeration of all event sequences (depth-bounded) over the real Transport with virtual clock and fake network + stateless DFS over schedules for racing callers",
         "Real Transport over the fake network against real servers at two addresses, limits {(1,1),(2,1),(2,2),(0,0)->defaults,(1,3)->clamp,(3,2)}; every sequence of 4 events over {call(a), call(b), long gated call, open stream, tick, advance>KeepAlive, CloseIdleConnections, kill, restart} and three racing callers plus a racing housekeeping tick from three pool states: at every dial and every quiescent point the open connections per address never exceed the effective MaxConnsPerHost and the idle queue (read by reflection) never exceeds the effective MaxIdleConnsPerHost.",
         "idle count read by field name via reflection (clause skipped if the fields disappear); depth L=4 sequential, d<=1 quick / d<=2 thorough for racing callers", "5 C13"),
 'C14': ("explicit enumeration of all event sequences (depth-bounded, also from non-initial states) over the real Transport with virtual clock + stateless DFS for racing callers",
         "Every sequence of 4 events over {call(a), call(b), ping, Go, tick, advance>KeepAlive, advance>IdleConnTimeout, kill, restart} from the initial state and of 4 (thorough: 6) events after [call, kill] and after [two connections, kill]: a call for address A is only executed by server A, calls fail with ErrDial exactly while the server is down and without the clock advancing, and the number of ErrShutdown failures never exceeds the connections that were pooled when the server died (a dead connection is never handed out again), for every spacing relative to KeepAlive/IdleConnTimeout.",
         "two addresses, pool limits (1,1),(2,1),(2,2); depth-bounded sequences", "5 C14"),
 'C15': ("explicit enumeration of all event sequences (depth-bounded) over the real Transport with virtual clock",
         "A gated long call and/or an open stream span every sequence of 4 events over {call, tick, advance>KeepAlive, advance>IdleConnTimeout, CloseIdleConnections}: the long call succeeds when its gate opens and the stream still echoes (no busy connection was closed); after KeepAlive+IdleConnTimeout+3 ticks without use no connection is open; after Transport.Close none is open.",
         "busy-connection safety is judged by its user-visible consequence (the call/stream keeps working); depth L=4", "5 C15"),

 'C03': ("crash-point enumeration (cut after / instead of every frame of either direction, reset, local Close, Server.Close) x stateless DFS over schedules (deviation-bounded), all server modes",
         "With a gated call, a plain Go call, a ping and a stream with a blocked reader outstanding, the link is cut after or instead of the k-th frame of either direction for every k of the conversation, reset, closed locally or by Server.Close while the traffic is racing; ServeCodec, listener and poll emulation: at quiescence no caller is blocked, every failed call carries ErrShutdown (or the error of its own failed write), successful ones carry their own reply, a blocked stream reader gets ErrStreamShutdown and a call started afterwards returns ErrShutdown without blocking.",
         "byte level: a cut (EOF or reset) after every byte offset of either direction of a three-call conversation through the real (instrumented) hslam/socket framing over a byte pipe (default schedule quick, d<=1 thorough); message level: cuts after/instead of every frame; 'bounded time' = needs no further event; bounds d<=2 quick / d<=3 thorough", "5 C03"),
 'C04': ("complete enumeration of request scripts x server modes x drop points + stateless DFS over schedules (deviation-bounded), scripted raw client counting frames on the wire",
         "A scripted raw client sends every handler shape, pings, stream open/data/close and an unknown method in 5 scripts, stays or disappears after each frame, against ServeCodec/listener/poll(1,2 workers) x {plain, pipelining, direct I/O} x {default, code} headers: each delivered request is executed exactly once with the arguments sent, nothing runs for requests never sent, pings run no handler, exactly one response frame per request (never two); a call whose response is lost with the connection fails and is not re-executed (directly and through Transport).",
         "a stream close is written after the handler has drained earlier data frames (closing discards unread messages); bounds d<=2 quick / d<=3 thorough", "5 C04"),
 'C11': ("complete enumeration of follow-up operation sequences (L<=3) x modes x buffer capacities + stateless DFS (deviation-bounded) with use-after-free poisoning of pooled buffers",
         "Handlers keep their argument slices, callers keep replies (plain, and in a caller-supplied context buffer of capacity 0/len-1/len/len+1/4*len), both ends keep stream messages; then every sequence of 2-3 further operations over {small call, large call, stream message, ping}; server plain/pipelining/direct I/O/context buffer/NoCopy, client direct I/O, small and large pool buffers: every retained slice keeps the digest it had when handed over and no byte of a supplied buffer beyond the reported length changes. Poisoning on Pool.Put makes a released-but-retained buffer visible in every schedule.",
         "BYTES codec only (pb byte fields / code alias the same way); NoCopy+aliasing codec on streams is outside the supported envelope and skipped; bounds d<=1 quick / d<=2 thorough", "5 C11"),
 'C19': ("complete enumeration of cancel/response orders x buffer capacities x error kinds + stateless DFS over schedules (deviation-bounded)",
         "CallWithContext with a gated handler and a harness-owned context (cancel or deadline) next to a plain call and a gated Go call: cancel first / cancel racing with the response / response first, 1-2 abandoned calls, context buffers of capacity 0/len-1/len/len+1/4*len with a sentinel: the call returns the context's error while the handler is still gated, or the reply when it arrived first; siblings and three later calls (the next users of the recycled Call objects) get their own replies; the buffer is used when large enough and never written beyond the reply length.",
         "bounds d<=2 quick / d<=3 thorough", "5 C19"),

 'C09': ("stateless DFS over thread schedules of real Conn + Server with streams (deviation-bounded), all server modes incl. poll emulation",
         "1-2 streams on one connection, the handler pushing 0/1/2 messages immediately after open and then echoing, the client writing 1-2 messages before or after reading the pushes, a unary call and a ping alongside, in ServeCodec, listener, poll(1 worker) and poll(2 workers) modes: in every explored interleaving each side reads exactly the sequence the other side wrote (no loss, duplicate, reorder, foreign or phantom message), nobody stays blocked and the unary reply is its own.",
         "message sizes up to ~20 bytes; bounds d<=2 quick / d<=3 thorough; netpoll replaced by the poll emulation", "5 C09"),
 'C10': ("stateless DFS over thread schedules (deviation-bounded) x complete enumeration of end events, timings and server modes",
         "A stream with a handler blocked in ReadMessage and a client reader blocked in ReadMessage, a sibling stream and a gated unary call; events {stream.Close, conn.Close, peer EOF, reset, Server.Close} at a quiescent moment, after an echo round trip, or racing with an in-flight stream message; ServeCodec, listener, poll(1), poll(2): blocked and later ReadMessage/WriteMessage on both ends return ErrStreamShutdown, every affected handler returns, the sibling stream and the unary call are untouched when only one stream is closed.",
         "handler release is judged after in-flight unary handlers were allowed to finish (ServeCodec waits for them before stopping streams); blocked WriteMessage in a full transport is not modelled; bounds d<=2 quick / d<=3 thorough", "5 C10"),

 'C01': ("stateless DFS over thread schedules of real Conn + Server.ServeCodec (deviation-bounded), discriminating payloads",
         "2-3 concurrent callers (all call forms, sizes below/at/above every buffer, a reply twice the request) against gated handlers released in every order, all four header encoders, server pipelining/direct I/O, client direct I/O/pipelining, two connections on one server with colliding sequence numbers, follow-up traffic; every interleaving with at most d deviations runs the real code and every successful reply must equal F(own arguments) byte for byte, also after the follow-up calls.",
         "fragmentation: every single split offset (thorough: pairs of offsets, and d<=1) of either direction of a two-call conversation through the real (instrumented) hslam/socket length-prefix framing over a byte pipe, with 1-byte / 3-byte / unlimited reads; everything else over the message-level pipe; bounds d<=2 quick / d<=3 thorough", "5 C01"),
 'C05': ("stateless DFS over thread schedules of pipelined real Conn + Server (deviation-bounded)",
         "3-4 asynchronous Go calls of different sizes (every second one failing in the handler, handlers with internal scheduling points) on one shared Done channel, server pipelining on, client pipelining off/on, direct I/O off/on, plus two pipelined connections on one server (one stalled): handler start order, non-overlap, response wire order and (with client pipelining) completion order must equal issue order in every explored interleaving.",
         "poll-mode variants are listed in the evidence when the poll emulation scenarios are present; bounds d<=2 quick / d<=3 thorough", "5 C05"),
 'C06': ("stateless DFS (deviation-bounded) + complete enumeration of failure-kind mixes, encoders and error texts",
         "All mixes of 2 (quick) / 3 in-flight calls over {success, handler error, unknown method, undecodable arguments, unencodable reply, client-side unencodable request} x 4 header encoders x 7 error texts (1/127/128/304 bytes, multi-byte UTF-8, the shutdown text) followed by 1/3/5 further calls: exactly the failing calls fail, with the server-side text at return and again after further traffic (pool poisoning exposes aliasing at once), reply objects keep their sentinel, neighbours and later calls succeed with their own replies, a failed client-side encode leaves NumCalls unchanged.",
         "JSON body codec; error texts up to 304 bytes (not tens of KB); bounds d<=1 quick / d<=2 thorough", "5 C06"),
 # id: (technique, level text, level note, design ref)
 'C02': ("stateless DFS over thread schedules + fault placements of the real Conn (deviation-bounded), scripted raw peer",
         "Every interleaving with at most d schedule deviations and f injected write failures of 1-2 outstanding calls of every form (Call, Go, RoundTrip, CallWithContext, Ping) against a scripted raw peer (normal, duplicate, unsolicited, error-then-success, answer-then-EOF, EOF) racing with a local Close is executed on the real instrumented Conn; each call must be signalled exactly once, keep its Error, and a follow-up call must not be hit by a late completion. Exhaustive within the bounds stated in the evidence file.",
         "cooperative single-token scheduler: data races between scheduling points are not modelled; transport replaced by the message-pipe model; bounds d<=2,f<=1 quick / d<=3,f<=2 thorough", "5 C02"),
}
# scenario families added after the seeded-change rounds (DESIGN.md §9.2, §9.4): appended to the level note
ADDED = {
 'C01': "frame lengths around the buffer capacity with two callers; 9/17/33 calls outstanding at once released in four orders; a connection with one outstanding and one abandoned call across 16 382 / 16 383 / 16 400 further calls (66 000 thorough); connections starting at sequence numbers 126 / 16 382 / 2^21-2 / 2^32-2; the caller that continues right after an abandoned call; scheduling points after every lock release (d=1)",
 'C02': "a request that cannot be encoded among other calls (yielding, rejecting body codec); an asynchronous call on a pooled connection that was parked and closed by its server; the long-connection history; high sequence numbers; unlock points",
 'C03': "the long-connection history ended by Conn.Close; a reset link reads as a timeout-style temporary net.Error; unlock points; Transport.Close racing dialling / waiting callers; both tiers: the real-network matrix (408 configurations) incl. Server.Close with a call outstanding; thorough: environment conformance of the message pipe against real TCP/UNIX sockets (896 operation sequences)",
 'C04': "JSON omitempty arguments decoded into recycled objects; 200 calls alternating between methods of equal name length, an unknown one and failing ones; a response lost on a connection that had been parked in the idle queue; the smallest requests (a zero-byte frame, a frame with a sequence number only) at every position; high sequence numbers; unlock points",
 'C05': "client direct I/O with client pipelining; bursts of 40/150/300 requests written before the server reads; 5/17/33/70 pipelining connections with one held handler; 3..70 connections of which one does not read its responses; empty replies between ordinary ones under client pipelining; high sequence numbers; unlock points",
 'C06': "a server-side stream write that cannot be encoded followed by calls; library / I/O error texts (incl. the text of ErrShutdown) through a Transport with another call outstanding; the equal-name-length history; high sequence numbers; unlock points",
 'C07': "sequences of four frames with complementary present fields, in every order, through one server codec and one client codec per encoder; whole frames written by the real codecs with a body codec that marshals into the given buffer, method names of 0..1000 bytes",
 'C08': "a refused stream open followed by its data/close frame or a disconnect; the load-balancing client with dying targets and deep stream backlogs, judged for crashes only; handlers that close their own streams while the client keeps opening streams; unsynchronised concurrent map access (vector clocks over the shim's synchronisation + instrumented map accesses) reported as the runtime's fatal error",
 'C09': "backlogs of 9..130 unread messages after k=0..9 consumed ones, on both sides, with empty messages; two readers on one stream; high sequence numbers; unlock points",
 'C10': "two readers blocked on one stream for every way it ends; 20..300 unread messages on either side when the stream or connection is closed (sibling stream, handlers and threads); Close after a server-side stream write failed to encode; high sequence numbers; unlock points",
 'C11': "the frame-size sweep with 1000-byte buffers (length != capacity of pooled buffers); one *Call reused for several RoundTrips",
 'C12': "zero-valued replies/requests; 125..131-byte header fields; every encoder x codec on connections starting at sequence number 254 / 16 382 / 2^32-2; SetBufferSize at any time over the real framing; Options that carry a name and a different constructor; two connections where a handler of one waits for a call on the other; both tiers: 408 real-network configurations (tcp, unix, http, ws, inproc x TLS x encoders x codecs x poll x buffer sizes) in subprocesses, incl. a 100-request single-write burst on tcp/unix; thorough: instrumentation self-check (the repository's 81 tests on the instrumented build)",
 'C13': "event sequences (L=3; L=4 thorough) from a state with MaxConnsPerHost+1 concurrent calls made and all connections retired, limits (4,3),(6,5),(5,2),(3,3), a second host with spare idle capacity, IdleConnTimeout 3 s / 20 s; the idle limit judged from outside (open connections after a period without use); map iteration order as an environment choice (f=1); unlock points",
 'C14': "the many-idle event sequences with calls to both hosts (wrong-address oracle also for concurrent calls); map iteration order as an environment choice; unlock points; both tiers: on real tcp/unix/inproc a Transport call to a server that has gone away reports ErrDial",
 'C15': "a refused NewStream on a pooled connection; KeepAlive / IdleConnTimeout set to the largest duration; the many-idle event sequences (busy connections survive housekeeping, unused ones are reclaimed, Close leaves nothing); map order; unlock points",
 'C16': "map iteration order as an environment choice; unlock points",
 'C17': "2-3 concurrent round-robin callers with asymmetric call counts (2n calls, every target exactly twice); the stable live set after a die-and-recover swap; map iteration order of the target table as an environment choice",
 'C18': "Update with every pair of target lists that keeps a live target; 70 targets with one beyond the 64th going down and coming back; map order; unlock points",
 'C19': "Transport housekeeping (CloseIdleConnections, keep-alive, idle timeout) next to a call on the connection of an abandoned call; 5..130 abandoned unanswered calls on one connection; the long-connection history; high sequence numbers; unlock points",
 'C20': "Transport many-idle event sequences; 20..300 unread stream messages when the connection closes; a peer death reported by a read error other than EOF; a server that went away and came back while its pooled connection was unused; map order; unlock points",
}
props = [json.loads(l) for l in open(V + '/properties.jsonl')]
checks, na = [], []
for p in props:
    i = p['id']
    if i in CLAIMED:
        t, text, note, ref = CLAIMED[i]
        checks.append({
            "property_id": i,
            "quick_cmd": f"./vcheck.sh {i} --tier quick",
            "thorough_cmd": f"./vcheck.sh {i} --tier thorough",
            "evidence_file": f"/verif/evidence/{i}.json",
            "replay_cmd_template": f"./vcheck.sh {i} --replay {{path}}",
            "engine": "mc",
            "level_claimed": {"category": "model_checking", "text": text, "design_ref": "DESIGN.md §" + ref},
            "level_note": note + ("; added after the seeded-change rounds (DESIGN.md §9.4): " + ADDED[i] if i in ADDED else ""),
            "technique": t,
        })
    else:
        na.append({"property_id": i, "reason": "check not completed yet (fallback rule of DESIGN.md §7): no claim is made until the scenario has been shown silent on the unchanged tree and able to catch a realistic mutant"})
m = {
 "version": 1,
 "setup_cmd": "./setup.sh",
 "hooks": {
   "guard": "verif_overlay",
   "enable": "no hooks are committed in /repo: ./vcheck.sh instruments /repo/*.go at check time (cmd/vinstr -> scratch copy) and builds the harness with `go build -overlay`, so the guard is the overlay itself; with it off the tree is the plain repository",
   "baseline_off_cmd": "cd /repo && GOFLAGS=-mod=mod GOPROXY=off GOSUMDB=off go test -json -vet=off -count=1 -timeout 25m ./...",
   "source_commits": [],
   "add_only": True,
 },
 "engines": [
   {"name": "mc", "path": "/verif/harness", "serves_properties": sorted(CLAIMED), "kind_free_text": "stateless model checker for the real Go code: AST instrumenter (cmd/vinstr) + cooperative single-token scheduler shim (shim/vsync, vatomic, vtime, vrand) + deviation-bounded DFS explorer sharded over worker processes + environment model (message/byte pipes, fake socket/listener with poll emulation, fake RoundTripper, virtual clock)"},
 ],
 "checks": checks,
 "not_applicable": na,
 "notes": "All checks rebuild from /repo's working tree (instrumented overlay). Exit 0 = held on everything explored (KNOWN-FINDING lines possible), 1 = VIOLATION, 2 = ENGINE-ERROR (never a verdict).",
}
json.dump(m, open(V + '/MANIFEST.json', 'w'), indent=1)
try:
    import jsonschema
    jsonschema.validate(m, json.load(open('/root/.vp/MANIFEST.schema.json')))
    print("MANIFEST valid;", len(checks), "claimed,", len(na), "not applicable")
except ImportError:
    print("jsonschema not available; MANIFEST written")
