#!/bin/bash
# tools/runseed.sh <ID> <a|b> [tier] : verify a seeded change produced by a sub-agent in /tmp/seed/<ID>/_out/<v>,
# then run the property's check against it.  Prints a one-line summary; writes /verif/seeded/<ID><v>/.
# Steps: (1) patch applies at the worktree HEAD; (2) go build; (3) repo test suite passes with the patch;
# (4) demo fails with the patch; (5) demo passes without; (6) vcheck on the patched tree reports a VIOLATION.
export GOFLAGS=-mod=mod GOPROXY=off GOSUMDB=off GOTOOLCHAIN=local
ID=$1; V=$2; TIER=${3:-quick}
ROOT=${SEEDROOT:-/tmp/seed}; SUF=${SEEDSUFFIX:-}; W=$ROOT/$ID; O=$W/_out/$V; D=/verif/seeded/$ID$V$SUF
[ -f $O/patch.diff ] || { echo "$ID$V: no patch"; exit 0; }
cd $W || exit 1
git checkout -q -- . 2>/dev/null; rm -f zz_demo*_test.go
mkdir -p $D
cp $O/patch.diff $D/patch.diff; cp $O/README.md $D/README.md 2>/dev/null
demo=$(ls $O/demo_test.go 2>/dev/null)
[ -n "$demo" ] && cp $demo $D/demo_test.go
git apply --check $O/patch.diff 2>/dev/null || { echo "$ID$V: PATCH DOES NOT APPLY"; exit 0; }
run_demo() { # returns 0 if demo passes
  [ -n "$demo" ] || return 2
  cp $demo zz_demo_${ID}_test.go
  timeout 300 go test -count=1 -vet=off -run 'Demo' -timeout 200s . >$ROOT/$ID.demo.log 2>&1; r=$?
  rm -f zz_demo_${ID}_test.go
  return $r
}
run_demo; without=$?
git apply $O/patch.diff
go build ./... >/dev/null 2>&1; build=$?
flock /tmp/rpc-test.lock go test -count=1 -vet=off . >$ROOT/$ID.suite.log 2>&1; suite=$?
run_demo; with=$?
# the check
cd /verif
VERIF_REPO=$W VERIF_OUT=$ROOT/$ID.$V.out ./vcheck.sh $ID --tier $TIER > $ROOT/$ID.$V.check.log 2>&1; chk=$?
keys=$(grep "^violation key=" $ROOT/$ID.$V.check.log | sed 's/violation key=\([^ ]*\).*/\1/' | sort -u | tr '\n' ' ')
cd $W; git checkout -q -- .
python3 - "$ID" "$V$SUF" "$build" "$suite" "$without" "$with" "$chk" "$keys" "$TIER" <<'PY'
import json,sys,os
ID,V,build,suite,without,withp,chk,keys,tier=sys.argv[1:]
d=f"/verif/seeded/{ID}{V}"
meta={}
mp=d+"/meta.json"
if os.path.exists(mp): meta=json.load(open(mp))
meta.update({"property":ID,"variant":V,
 "needs_to_manifest":"see README.md (written by the sub-agent that produced the change)",
 "verified":{"patch_applies":True,"builds":build=="0","repo_suite_passes_with_change":suite=="0","demo_passes_without_change":without=="0","demo_fails_with_change":withp not in("0","2")},
 "ran":["git apply patch.diff (scratch worktree of /repo HEAD)","go build ./...","flock /tmp/rpc-test.lock go test -count=1 -vet=off .","go test -run Demo (with and without the change)",f"VERIF_REPO=<worktree> ./vcheck.sh {ID} --tier {tier}"],
})
meta.setdefault("check_results",{})[tier]={"exit":int(chk),"violation_keys":keys.split()}
json.dump(meta,open(mp,"w"),indent=1)
print(f"{ID}{V}: build={build} suite={suite} demo_without={without} demo_with={withp} check_exit={chk} keys={keys}")
PY
