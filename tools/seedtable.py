#!/usr/bin/env python3
# tools/seedtable.py <suffix>  : markdown table of the seeded changes /verif/seeded/*<suffix> (title from the
# sub-agent's README, violation keys from the last recorded run of the property's quick check)
import json,os,re,sys
suf=sys.argv[1]
print("| change | mechanism (sub-agent's own title) | quick check | violation keys |")
print("|---|---|---|---|")
for d in sorted(os.listdir('/verif/seeded')):
    if not d.endswith(suf): continue
    p='/verif/seeded/'+d
    m=json.load(open(p+'/meta.json'))
    title=''
    if os.path.exists(p+'/README.md'):
        for l in open(p+'/README.md'):
            if l.strip():
                title=l.strip().lstrip('#').strip(); break
    title=re.sub(r'^C\d\d\s*[-/:]?\s*(seed|change)?\s*[ab]\s*[-—:)]*\s*','',title).replace('|','/')
    title=re.sub(r'^(seed|change)\s*[ab]\s*[-—:]*\s*','',title)
    q=m.get('check_results',{}).get('quick',{})
    keys=q.get('violation_keys',[])
    short=[]
    for k in keys:
        k=re.sub(r'^panic/(\S+?)/.*',r'panic \1',k)
        parts=k.split('/')
        k='/'.join(parts[:2]) if parts[0].startswith('C') else k
        if k not in short: short.append(k)
    v=m.get('verified',{})
    ok=all(v.get(x) for x in ('builds','repo_suite_passes_with_change','demo_passes_without_change','demo_fails_with_change'))
    res='caught' if q.get('exit')==1 else ('MISSED' if q.get('exit')==0 else 'error %s'%q.get('exit'))
    note=m.get('note','')
    if not ok: res+=' (not a valid seed: %s)'%', '.join(k for k in ('builds','repo_suite_passes_with_change','demo_passes_without_change','demo_fails_with_change') if not v.get(k))
    print("| %s | %s | %s | %s |"%(d.replace(suf,''),title[:160],res,', '.join(short[:5])+(' …' if len(short)>5 else '')))
