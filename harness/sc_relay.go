package main

import (
	"context"
	"errors"
	"fmt"
	"strings"

	"github.com/hslam/rpc"
	vs "verif/shim/vsync"
)

// A relay: a handler with a context parameter that forwards part of its work to a second server
// with Conn.CallWithContext(ctx, ...) using the context it was given (the documented use of
// Server.SetContextBuffer: the nested call may use the context's buffer for its reply), keeps its
// arguments, optionally hands the context buffer back with FreeContextBuffer (the documented
// companion call), and answers with its arguments as they are AFTER the nested call, a separator
// and the nested reply.  The service name has every length of a range, so that the arguments start
// at every offset of the server's read buffer (64 bytes: the halves and quarters of the buffer are
// pool sizes).
//
// C01: the outer reply is computed from the outer call's own arguments, the nested reply from
// the nested call's.  C11: what the handler was given does not change while it runs, nor after.

type Relay struct {
	w       *World
	backend *rpc.Conn
	nested  int // 0: no nested call; else the nested call's argument length
	free    bool
	dbl     bool
	kept    [][]byte
	sums    []string
	notes   []string
}

func (r *Relay) Fwd(ctx context.Context, req *[]byte, res *[]byte) error {
	in := *req
	before := append([]byte(nil), in...)
	var nreply []byte
	if r.nested > 0 && len(in) > 0 {
		fl := byte(0)
		if r.dbl {
			fl = fDouble
		}
		nargs := mkPayload(in[0]|0x80, fl, r.nested)
		if err := r.backend.CallWithContext(ctx, "Svc.Echo", &nargs, &nreply); err != nil {
			r.notes = append(r.notes, "nested call failed: "+err.Error())
		} else if !eqBytes(nreply, transform(nargs)) {
			r.notes = append(r.notes, fmt.Sprintf("nested reply of request %d is wrong", in[0]))
		}
	}
	if !eqBytes(in, before) {
		r.notes = append(r.notes, fmt.Sprintf("the handler's arguments (%d bytes, tag %d) changed while it made a nested call with its context (nested reply %d bytes)", len(before), before[0], len(nreply)))
	}
	out := append(append(append([]byte(nil), in...), '|'), nreply...)
	r.kept = append(r.kept, in)
	r.sums = append(r.sums, digest(before))
	if r.free {
		rpc.FreeContextBuffer(ctx)
	}
	if len(in) > 1 && in[1]&fErr != 0 {
		return errors.New("relay refuses this one")
	}
	*res = out
	return nil
}

func relayBody(prop string) func(x *X) {
	return func(x *X) {
		nameLen := 1 + x.Choose(44)
		shared := x.Choose(2) == 1
		nested := []int{0, 10, 20, 40}[x.Choose(4)]
		free := x.Choose(2) == 1
		conc := x.Choose(2) == 1
		errAt := x.Choose(3) - 1 // the call at this position is refused by the handler (after it has freed its context buffer); -1: none
		w := newWorld()
		// backend
		so := srvOpts{bufSize: 64}
		bsrv := newServer(w, so)
		bcl, bsv := NewPipe()
		serveCodec(bsrv, bsv, so)
		backend := newConn(bcl, "", 64, nil)
		// front
		fo := srvOpts{bufSize: 64, shared: shared}
		fsrv := newServer(w, fo)
		r := &Relay{w: w, backend: backend, nested: nested, free: free, dbl: nameLen%2 == 0}
		name := strings.Repeat("R", nameLen)
		fsrv.RegisterName(name, r)
		fcl, fsv := NewPipe()
		serveCodec(fsrv, fsv, fo)
		conn := newConn(fcl, "", 64, nil)
		sizes := []int{20, 20, 12, 31}
		var calls []*ucall
		for i, n := range sizes {
			fl := byte(0)
			if i == errAt {
				fl = fErr
			}
			c := newUcall(byte(i+1), fl, n, []int{formCall, formGo, formCallCtx, formCall}[i])
			c.method = name + ".Fwd"
			calls = append(calls, c)
		}
		if conc {
			calls[0].spawn(conn)
			calls[1].spawn(conn)
			vs.Quiesce()
			calls[2].issue(conn)
			calls[3].issue(conn)
		} else {
			for _, c := range calls {
				c.issue(conn)
			}
		}
		vs.Quiesce()
		for _, c := range calls {
			want := append(append([]byte(nil), c.args...), '|')
			if nested > 0 {
				fl := byte(0)
				if r.dbl {
					fl = fDouble
				}
				want = append(want, transform(mkPayload(c.tag|0x80, fl, nested))...)
			}
			if c.flags&fErr != 0 {
				if !c.ret || c.err == nil || c.err.Error() != "relay refuses this one" {
					x.Fail(prop+"/relay-error-lost", "the relayed call %d that the handler refuses: returned=%v err=%v", c.tag, c.ret, c.err)
				}
				continue
			}
			switch {
			case !c.ret:
				x.Fail(prop+"/relay-call-hangs", "relayed call %d never returned (service name of %d bytes, context buffer %v, nested %d, free %v)", c.tag, nameLen, shared, nested, free)
			case c.err != nil:
				x.Fail(prop+"/relay-call-failed", "relayed call %d failed: %v", c.tag, c.err)
			case !eqBytes(c.reply, want):
				if prop == "C12" {
					x.Fail("C12/context-buffer-mode-changes-results/relay", "relayed call %d answered %x, want %x (context buffer %v, nested %d, free %v, refused call at %d)", c.tag, c.reply, want, shared, nested, free, errAt)
				} else if prop == "C01" {
					x.Fail("C01/reply-not-from-own-arguments/relay", "relayed call %d (service name of %d bytes, context buffer %v, nested call of %d bytes, FreeContextBuffer %v) completed without error with a reply that is not its own arguments + the nested reply: got %x want %x", c.tag, nameLen, shared, nested, free, c.reply, want)
				} else {
					x.Fail("C11/handler-arguments-changed/relay", "relayed call %d answered %x, its arguments were %x (context buffer %v, nested %d, free %v)", c.tag, c.reply, c.args, shared, nested, free)
				}
			}
		}
		if prop == "C12" {
			for i, k := range r.kept {
				if digest(k) != r.sums[i] {
					x.Fail("C12/context-buffer-mode-changes-results/kept-arguments", "the arguments kept by the handler of request %d (%d bytes) changed after it returned (context buffer %v, nested %d, FreeContextBuffer %v, refused call at %d): with SetContextBuffer(false) they do not", i+1, len(k), shared, nested, free, errAt)
				}
			}
		}
		if prop == "C11" {
			for _, n := range r.notes {
				x.Fail("C11/handler-arguments-changed/relay-note", "%s (service name of %d bytes, context buffer %v, FreeContextBuffer %v)", n, nameLen, shared, free)
			}
			for i, k := range r.kept {
				if digest(k) != r.sums[i] {
					x.Fail("C11/kept-arguments-changed/relay", "the arguments kept by the handler of request %d (%d bytes) changed after it returned (service name of %d bytes, context buffer %v, nested %d, FreeContextBuffer %v)", i+1, len(k), nameLen, shared, nested, free)
				}
			}
		} else {
			for _, n := range r.notes {
				if strings.HasPrefix(n, "nested") {
					x.Fail("C01/nested-call-wrong/relay", "%s", n)
				}
			}
		}
		for _, c := range calls {
			if w.execs[c.tag|0x80] != map[bool]int{true: 1, false: 0}[nested > 0] {
				x.Fail(prop+"/nested-executions/relay", "the nested call of request %d ran %d times", c.tag, w.execs[c.tag|0x80])
			}
		}
		x.Outcome("name=%d shared=%v nested=%d free=%v conc=%v err=%d kept=%d", nameLen, shared, nested, free, conc, errAt, len(r.kept))
		conn.Close()
		backend.Close()
		vs.Quiesce()
	}
}

func init() {
	register(&Scenario{Prop: "C01", Name: "c01/relay-with-context", Quick: []Bound{{0, 0}}, Thorough: []Bound{{1, 0}}, Body: relayBody("C01"), BudgetQ: 30, BudgetT: 200, MinHB: 1})
	register(&Scenario{Prop: "C12", Name: "c12/relay-with-context", Quick: []Bound{{0, 0}}, Thorough: []Bound{{1, 0}}, Body: relayBody("C12"), BudgetQ: 30, BudgetT: 200, MinHB: 1})
	register(&Scenario{Prop: "C11", Name: "c11/relay-with-context", Quick: []Bound{{0, 0}}, Thorough: []Bound{{1, 0}}, Body: relayBody("C11"), BudgetQ: 30, BudgetT: 200, MinHB: 1})
}
