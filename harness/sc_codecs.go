package main

import (
	"fmt"

	"github.com/hslam/rpc"
	"github.com/hslam/socket"
	vs "verif/shim/vsync"
)

// User codecs that rely on what the library documents about how it uses them.
//
// statefulCodec: a body codec instance owns a scratch buffer (Options.NewCodec / NewCodec
// constructors are called per connection, so an instance belongs to one connection; on a pipelining
// server a connection's handler, marshal and write run one at a time).  Marshal builds the bytes in
// the scratch buffer, yields, and returns it.

type statefulCodec struct {
	scratch []byte
	made    *int
}

func (c *statefulCodec) Marshal(buf []byte, v interface{}) ([]byte, error) {
	p, ok := v.(*[]byte)
	if !ok {
		return nil, rpc.ErrorBYTES
	}
	c.scratch = append(c.scratch[:0], *p...)
	vs.Yield()
	return c.scratch, nil
}

func (c *statefulCodec) Unmarshal(data []byte, v interface{}) error {
	if p, ok := v.(*[]byte); ok {
		*p = append([]byte(nil), data...)
		return nil
	}
	return rpc.ErrorBYTES
}

// two connections to one listening server that was given a constructor for a stateful codec, each
// with calls in flight: replies belong to their own calls (C01), every request is executed with the
// arguments that were sent (C04), and the result does not depend on how the server was configured
// (C12: ListenWithOptions with a constructor behaves like ServeCodec with one codec per connection).
func statefulCodecBody(prop string) func(x *X) {
	return func(x *X) {
		pipelining := true // (without it the handlers of one connection marshal their replies concurrently: such a codec needs pipelining)
		order := x.Choose(2)
		n := newNet()
		w := newWorld()
		made := 0
		mk := func() rpc.Codec { made++; return &statefulCodec{made: &made} }
		so := srvOpts{bufSize: 64, pipelining: pipelining, codec: mk}
		srv, _ := startListener(n, w, "srv", so, false)
		vs.Quiesce()
		dial := func() *rpc.Conn {
			c, err := rpc.DialWithOptions("srv", srvOpts{bufSize: 64}.options(n, 64)) // the clients use the plain BYTES codec
			if err != nil {
				vs.Fatal("dial failed: " + err.Error())
			}
			return c
		}
		c1, c2 := dial(), dial()
		if order == 1 {
			c1, c2 = c2, c1
		}
		var calls []*ucall
		for i := 0; i < 2; i++ {
			a := newUcall(byte(0x11+i), fYield, 20+i, formCall)
			b := newUcall(byte(0x21+i), fYield, 30+i, formGo)
			calls = append(calls, a, b)
			a.spawn(c1)
			b.spawn(c2)
		}
		vs.Quiesce()
		out := ""
		for _, c := range calls {
			switch {
			case !c.ret:
				x.Fail(prop+"/call-hangs/stateful-codec", "call %d never returned (two connections to a server whose Options carry a constructor for a codec with per-instance state)", c.tag)
			case c.err != nil:
				x.Fail(prop+"/call-failed/stateful-codec", "call %d failed: %v", c.tag, c.err)
			case !eqBytes(c.reply, c.want()):
				x.Fail(map[string]string{"C01": "C01/wrong-reply/stateful-codec", "C04": "C04/arguments-differ/stateful-codec", "C12": "C12/options-constructor-differs/stateful-codec"}[prop], "call %d on one of two connections (server pipelining %v; the server was given a constructor for a body codec that keeps per-instance state, called %d times for 2 connections) completed without error with a reply that is not computed from its own arguments: %x, want %x", c.tag, pipelining, made, c.reply, c.want())
			}
			if w.execs[c.tag] != 1 && c.ret && c.err == nil {
				x.Fail(prop+"/executions/stateful-codec", "request %d was executed %d times", c.tag, w.execs[c.tag])
			}
			out += fmt.Sprintf(" %d:%v", c.tag, c.err == nil && eqBytes(c.reply, c.want()))
		}
		x.Outcome("order=%d made=%d%s", order, made, out)
		c1.Close()
		c2.Close()
		srv.Close()
		vs.Quiesce()
	}
}

// fifoServerCodec wraps the library's server codec the way a user ServerCodec that cannot see the
// argument bytes of a Context would work: it keeps the body of every request it has read the header
// of, and hands them out in order when the library asks for the body - relying on the documented
// pairing (ReadRequestBody is called once per header, with nil arguments to discard).
type fifoServerCodec struct {
	rpc.ServerCodec
	bodies [][]byte
	body   rpc.Codec
	log    []string
}

func (c *fifoServerCodec) ReadRequestHeader(ctx *rpc.Context) error {
	err := c.ServerCodec.ReadRequestHeader(ctx)
	if err == nil {
		c.bodies = append(c.bodies, append([]byte(nil), rpc.VerifValue(ctx)...))
		c.log = append(c.log, fmt.Sprintf("H%d/%s", len(rpc.VerifValue(ctx)), ctx.ServiceMethod))
	} else {
		c.log = append(c.log, "Herr:"+err.Error())
	}
	return err
}

func (c *fifoServerCodec) ReadRequestBody(b []byte, x interface{}) error {
	if len(c.bodies) == 0 {
		return fmt.Errorf("fifo codec: body requested without a header")
	}
	front := c.bodies[0]
	c.bodies = c.bodies[1:]
	c.log = append(c.log, fmt.Sprintf("B%d/%v", len(front), x == nil))
	if x == nil {
		return nil
	}
	return c.body.Unmarshal(front, x)
}

// pairClientCodec: a user ClientCodec that holds a resource from ReadResponseHeader to the
// ReadResponseBody that belongs to it (the documented pairing; nil arguments to discard).
type pairClientCodec struct {
	rpc.ClientCodec
	open int
	log  []string
}

func (c *pairClientCodec) ReadResponseHeader(ctx *rpc.Context) error {
	if c.open > 0 {
		vs.Block("user client codec: the previous response's body has not been read", func() bool { return c.open == 0 })
	}
	err := c.ClientCodec.ReadResponseHeader(ctx)
	if err == nil {
		c.open++
		c.log = append(c.log, fmt.Sprintf("H%d/%q", ctx.Seq, ctx.Error))
	} else {
		c.log = append(c.log, "Herr:"+err.Error())
	}
	return err
}

func (c *pairClientCodec) ReadResponseBody(b []byte, x interface{}) error {
	if c.open > 0 {
		c.open--
	}
	c.log = append(c.log, fmt.Sprintf("B%d/%v", len(b), x == nil))
	return c.ClientCodec.ReadResponseBody(b, x)
}

// ok / unknown method / ok / handler error / ok / ok (ordinary calls only: heartbeats and the control
// frames of streams are read with the header call alone) on one
// connection whose server side (or client side) is a user codec relying on the header/body pairing
func pairingBody(prop string, side int) func(x *X) {
	return func(x *X) {
		mode := x.Choose(3)
		so := srvOpts{bufSize: 64}
		co := cliOpts{bufSize: 64}
		switch mode {
		case 1:
			so.pipelining = true
		case 2:
			co.directIO = true
		}
		w := newWorld()
		srv := newServer(w, so)
		cl, sv := NewPipe()
		var pc *pairClientCodec
		var fc *fifoServerCodec
		if side == 0 {
			inner := rpc.NewServerCodec(bytesCodec(), nil, sv, false, 64)
			fc = &fifoServerCodec{ServerCodec: inner, body: bytesCodec()}
			vs.GoLib("ServeCodec", func() { srv.ServeCodec(fc) })
		} else {
			serveCodec(srv, sv, so)
		}
		var conn *rpc.Conn
		if side == 1 {
			pc = &pairClientCodec{ClientCodec: rpc.NewClientCodec(bytesCodec(), nil, cl, 64)}
			conn = rpc.NewConnWithCodec(pc)
			conn.SetBufferSize(64)
		} else {
			conn = newConn(cl, "", 64, nil)
		}
		if co.directIO {
			conn.SetDirectIO(true)
		}
		w.errText[0x14] = "handler says no"
		steps := []*ucall{newUcall(0x11, 0, 20, formCall), newUcall(0x12, 0, 21, formCall), newUcall(0x13, 0, 22, formGo), newUcall(0x14, fErr, 23, formCall), newUcall(0x15, 0, 24, formCall), newUcall(0x16, 0, 25, formCall)}
		steps[1].method = "Svc.Nope"
		out := ""
		for i, c := range steps {
			if c == nil {
				ret := false
				vs.GoNamed("opener", func() { conn.NewStream("Nope.Nope"); ret = true })
				vs.Quiesce()
				if !ret {
					x.Fail(prop+"/call-hangs/pairing-codec", "NewStream for an unknown method did not return")
					break
				}
				continue
			}
			c.spawn(conn)
			vs.Quiesce()
			wantErr := i == 1 || i == 3
			switch {
			case !c.ret:
				x.Fail(prop+"/call-hangs/pairing-codec", "step %d (call %d) never returned; the %s is a user codec that relies on the documented pairing of header and body reads (nil arguments to discard)", i, c.tag, []string{"server codec", "client codec"}[side])
			case wantErr && c.err == nil:
				x.Fail(prop+"/error-lost/pairing-codec", "step %d should fail and returned nil", i)
			case !wantErr && (c.err != nil || !eqBytes(c.reply, c.want())):
				if prop == "C01" {
					x.Fail("C01/wrong-reply/pairing-codec", "step %d (call %d, after a call to an unknown method on the same connection) completed with err=%v and a reply that is not computed from its own arguments (%x, want %x); the server codec is a user codec that queues request bodies between header and body reads", i, c.tag, c.err, clipBytes(c.reply, 12), clipBytes(c.want(), 12))
				} else {
					x.Fail("C06/neighbour-failed/pairing-codec", "step %d (call %d), after a failing call on the same connection: err=%v", i, c.tag, c.err)
				}
			}
			if !c.ret {
				break
			}
			out += fmt.Sprintf(" %d:%s", i, errStr(c.err))
		}
		if fc != nil {
			out += fmt.Sprintf(" codec-log=%v", fc.log)
		}
		if pc != nil {
			out += fmt.Sprintf(" codec-log=%v", pc.log)
		}
		x.Outcome("side=%d mode=%d%s", side, mode, out)
		conn.Close()
		vs.Quiesce()
	}
}

var _ socket.Messages

func init() {
	register(&Scenario{Prop: "C01", Name: "c01/stateful-codec-two-connections", Quick: []Bound{{1, 0}}, Thorough: []Bound{{2, 0}}, Body: statefulCodecBody("C01"), BudgetQ: 15, MaxSteps: 200000})
	register(&Scenario{Prop: "C04", Name: "c04/stateful-codec-two-connections", Quick: []Bound{{1, 0}}, Thorough: []Bound{{2, 0}}, Body: statefulCodecBody("C04"), BudgetQ: 15, MaxSteps: 200000})
	register(&Scenario{Prop: "C12", Name: "c12/stateful-codec-two-connections", Quick: []Bound{{1, 0}}, Thorough: []Bound{{2, 0}}, Body: statefulCodecBody("C12"), BudgetQ: 15, MaxSteps: 200000})
	register(&Scenario{Prop: "C01", Name: "c01/server-codec-relying-on-pairing", Quick: []Bound{{0, 0}, {1, 0}}, Thorough: []Bound{{2, 0}}, Body: pairingBody("C01", 0), BudgetQ: 15})
	register(&Scenario{Prop: "C06", Name: "c06/client-codec-relying-on-pairing", Quick: []Bound{{0, 0}, {1, 0}}, Thorough: []Bound{{2, 0}}, Body: pairingBody("C06", 1), BudgetQ: 15})
}
