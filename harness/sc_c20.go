package main

import (
	"fmt"

	"github.com/hslam/rpc"
	vs "verif/shim/vsync"
	vt "verif/shim/vtime"
)

// C20 — Close releases every resource and is idempotent.
//
// Usage histories {idle, call in flight, open stream with a blocked reader, dead peer, waiting
// Client caller} followed by every order of closing the participants present, each Close issued
// twice.  Oracle: the scheduler's thread census (every thread has terminated), no live virtual
// timer/ticker, every fake socket end closed, Close return values, Listen returned.

const (
	hIdle = iota
	hUsed
	hCallInFlight
	hStream
	hDeadPeer
	hDeadPeerReset // the peer's death is reported by a read error other than EOF (a reset, a timeout)
	hWriteFailed   // a request could not be written and the link died with it
	hWriteFailedUp // a request could not be written (a transient error): the link is still up
	hRefusedCalls  // calls the server refused (an unknown method, a stream open for an unknown method) and answered with errors
	nHist
)

var histNames = []string{"idle", "used", "call-in-flight", "open-stream", "dead-peer", "dead-peer-read-error", "request-write-failed", "request-write-failed-link-up", "refused-calls"}

func census(x *X, n *FakeNet, what string) {
	for _, t := range blockedThreads(nil) {
		x.Fail("C20/thread-left-behind", "%s: %s", what, t)
	}
	if k := vt.ActiveTimers(); k != 0 {
		x.Fail("C20/timer-left-behind", "%s: %d virtual timers/tickers created by the library are still active", what, k)
	}
	if n != nil {
		for _, c := range n.conns {
			if !c.end.p.closed[0] {
				x.Fail("C20/client-socket-open", "%s: connection %d to %q was never closed by the side that dialled it", what, c.id, c.addr)
			}
			if !c.end.p.closed[1] {
				x.Fail("C20/server-socket-open", "%s: connection %d to %q was never closed by the server", what, c.id, c.addr)
			}
		}
	}
}

func c20ConnServer(x *X) {
	h := x.Choose(nHist)
	order := x.Choose(2) // 0: conn first, 1: server first
	f := newNetFixture(srvOpts{bufSize: 64}, cliOpts{bufSize: 64}, false, 0)
	var u *ucall
	var st rpc.Stream
	rdDone := false
	switch h {
	case hUsed:
		c := newUcall(1, 0, 20, formCall)
		c.issue(f.conn)
		f.conn.Ping()
	case hCallInFlight:
		u = newUcall(1, fGate, 20, formCall)
		u.spawn(f.conn)
	case hStream:
		st, _ = f.conn.NewStream("StreamSvc.Push")
		if st != nil {
			vs.GoNamed("reader", func() { var b []byte; st.ReadMessage(nil, &b); rdDone = true })
		}
	case hDeadPeer:
		c := newUcall(1, 0, 20, formCall)
		c.issue(f.conn)
		f.clientEnd(0).Kill()
	case hDeadPeerReset:
		c := newUcall(1, 0, 20, formCall)
		c.issue(f.conn)
		f.clientEnd(0).Reset()
	case hRefusedCalls:
		c := newUcall(1, 0, 20, formCall)
		c.method = "Svc.Nope"
		c.issue(f.conn)
		if c.err == nil {
			x.Fail("C20/refused-call-succeeded", "a call to an unknown method returned nil")
		}
		if _, err := f.conn.NewStream("Nope.Nope"); err == nil {
			x.Fail("C20/refused-call-succeeded", "a stream open for an unknown method returned nil")
		}
		ok := newUcall(2, 0, 20, formCall)
		ok.issue(f.conn)
	case hWriteFailed, hWriteFailedUp:
		c := newUcall(1, 0, 20, formCall)
		c.issue(f.conn)
		f.clientEnd(0).FailNext, f.clientEnd(0).FailKeepsLink = 1, h == hWriteFailedUp
		wf := newUcall(2, 0, 20, formCall)
		wf.spawn(f.conn)
		vs.Quiesce()
		if !wf.ret || wf.err == nil {
			x.Fail("C20/failed-write-unnoticed", "a call whose request could not be written: returned=%v err=%v", wf.ret, wf.err)
		}
	}
	vs.Quiesce()
	var c1, c2, s1, s2 error
	closeConn := func() {
		c1 = f.conn.Close()
		vs.Quiesce()
		c2 = f.conn.Close()
	}
	closeSrv := func() {
		s1 = f.srv.Close()
		vs.Quiesce()
		s2 = f.srv.Close()
	}
	if order == 0 {
		closeConn()
		vs.Quiesce()
		closeSrv()
	} else {
		closeSrv()
		vs.Quiesce()
		closeConn()
	}
	f.w.open(1)
	vs.Quiesce()
	what := fmt.Sprintf("history %s, order %d", histNames[h], order)
	if c1 != nil || c2 != rpc.ErrShutdown {
		x.Fail("C20/conn-close-result", "%s: Conn.Close returned %v then %v, want nil then ErrShutdown", what, c1, c2)
	}
	if s1 != nil || s2 != nil {
		x.Fail("C20/server-close-result", "%s: Server.Close returned %v then %v", what, s1, s2)
	}
	if !f.lisRet {
		x.Fail("C20/listen-did-not-return", "%s: ListenWithOptions has not returned after Server.Close", what)
	}
	if u != nil && !u.ret {
		x.Fail("C20/caller-stranded", "%s: the call in flight never returned", what)
	}
	if st != nil && !rdDone {
		x.Fail("C20/reader-stranded", "%s: the blocked stream reader never returned", what)
	}
	census(x, f.n, what)
	x.Outcome("%s closes=%v/%v", what, c1, c2)
}

func c20Transport(x *X) {
	h := x.Choose(nHist)
	order := x.Choose(2)
	lim := x.Choose(2) + 1
	n := newNet()
	w := newWorld()
	so := srvOpts{bufSize: 64}
	srv, lisRet := startListener(n, w, "a", so, false)
	vs.Quiesce()
	tr := &rpc.Transport{MaxConnsPerHost: lim, MaxIdleConnsPerHost: lim, KeepAlive: tKeepAlive, IdleConnTimeout: tIdle, Options: so.options(n, 64)}
	call := func(tag byte) error {
		c := newUcall(tag, 0, 20, formCall)
		return tr.Call("a", c.method, &c.args, &c.reply)
	}
	var u *ucall
	var st rpc.Stream
	rdDone := false
	switch h {
	case hUsed:
		call(1)
		call(2)
		vt.Advance(tKeepAlive + tTick) // one connection retired to the idle queue
		vs.Quiesce()
		call(3)
	case hCallInFlight:
		u = newUcall(1, fGate, 20, formCall)
		vs.GoNamed("long", func() { u.err = tr.Call("a", u.method, &u.args, &u.reply); u.ret = true })
		vs.Quiesce()
		call(2)
	case hStream:
		st, _ = tr.NewStream("a", "StreamSvc.Push")
		if st != nil {
			vs.GoNamed("reader", func() { var b []byte; st.ReadMessage(nil, &b); rdDone = true })
		}
	case hDeadPeer:
		call(1)
		n.conns[0].end.Kill()
		vs.Quiesce()
		call(2)
	case hDeadPeerReset:
		call(1)
		n.conns[0].end.Reset()
		vs.Quiesce()
		call(2)
	}
	vs.Quiesce()
	var t1, t2, s1 error
	closeTr := func() {
		t1 = tr.Close()
		vs.Quiesce()
		t2 = tr.Close()
	}
	if order == 0 {
		closeTr()
		vs.Quiesce()
		s1 = srv.Close()
	} else {
		s1 = srv.Close()
		vs.Quiesce()
		closeTr()
	}
	srv.Close()
	w.open(1)
	vs.Quiesce()
	what := fmt.Sprintf("transport, history %s, order %d, limit %d", histNames[h], order, lim)
	if t1 != nil || t2 != nil || s1 != nil {
		x.Fail("C20/close-result", "%s: Transport.Close %v, %v; Server.Close %v", what, t1, t2, s1)
	}
	if !*lisRet {
		x.Fail("C20/listen-did-not-return", "%s: ListenWithOptions has not returned after Server.Close", what)
	}
	if u != nil && !u.ret {
		x.Fail("C20/caller-stranded", "%s: the call in flight never returned", what)
	}
	if st != nil && !rdDone {
		x.Fail("C20/reader-stranded", "%s: the blocked stream reader never returned", what)
	}
	// a Transport that was never used
	tr2 := &rpc.Transport{Options: so.options(n, 64)}
	if e := tr2.Close(); e != nil {
		x.Fail("C20/close-result", "Close of an unused Transport returned %v", e)
	}
	census(x, n, what)
	x.Outcome("%s", what)
}

func c20Client(x *X) {
	h := x.Choose(4) // idle / used / waiting caller (no server) / call in flight
	order := x.Choose(2)
	n := newNet()
	w := newWorld()
	so := srvOpts{bufSize: 64}
	var srv *rpc.Server
	lisRet := new(bool)
	*lisRet = true
	if h != 2 {
		srv, lisRet = startListener(n, w, "a", so, false)
		vs.Quiesce()
	}
	c := rpc.NewClient(so.options(n, 64), "a")
	c.DialTimeout = 700 * 1e6
	atOnce := h == 0 && x.Choose(2) == 1 // the Client is closed right after it was made: its first health probe may still be on its way
	if !atOnce {
		vs.Quiesce()
		vt.Advance(cTick)
		vs.Quiesce()
	}
	var u *ucall
	waiterDone := false
	var waiterErr error
	switch h {
	case 1:
		cc := newUcall(1, 0, 20, formCall)
		if err := c.Call(cc.method, &cc.args, &cc.reply); err != nil || !eqBytes(cc.reply, cc.want()) {
			x.Fail("C20/setup-call-failed", "client call: %v", err)
		}
		c.Ping()
		c.Fallback(50 * 1e6)
	case 2:
		vs.GoNamed("waiter", func() { waiterErr = c.Call("Svc.Echo", nil, nil); waiterDone = true })
		vs.Quiesce()
		c.Fallback(5 * 1e9) // a fallback timer that outlives Close
	case 3:
		u = newUcall(1, fGate, 20, formCall)
		vs.GoNamed("long", func() { u.err = c.Call(u.method, &u.args, &u.reply); u.ret = true })
		vs.Quiesce()
	}
	var c1, c2 error
	closeCli := func() {
		c1 = c.Close()
		vs.Quiesce()
		c2 = c.Close()
	}
	if order == 0 || srv == nil {
		closeCli()
		vs.Quiesce()
		if srv != nil {
			srv.Close()
		}
	} else {
		srv.Close()
		vs.Quiesce()
		closeCli()
	}
	w.open(1)
	vs.Quiesce()
	what := fmt.Sprintf("client, history %d, order %d, closed at once %v", h, order, atOnce)
	if atOnce {
		vt.Advance(3 * cTick)
		vs.Quiesce()
	}
	if c1 != nil || c2 != nil {
		x.Fail("C20/close-result", "%s: Client.Close returned %v then %v", what, c1, c2)
	}
	if h == 2 && (!waiterDone || waiterErr != rpc.ErrShutdown) {
		x.Fail("C20/waiter-stranded", "%s: waiting caller done=%v err=%v", what, waiterDone, waiterErr)
	}
	if u != nil && !u.ret {
		x.Fail("C20/caller-stranded", "%s: the call in flight never returned", what)
	}
	if !*lisRet {
		x.Fail("C20/listen-did-not-return", "%s: ListenWithOptions has not returned after Server.Close", what)
	}
	census(x, n, what)
	x.Outcome("%s", what)
}

func init() {
	register(&Scenario{Prop: "C20", Name: "c20/conn-server", Quick: []Bound{{1, 0}, {2, 0}}, Thorough: []Bound{{3, 0}}, Body: c20ConnServer, MaxSteps: 100000})
	register(&Scenario{Prop: "C20", Name: "c20/transport-server", Quick: []Bound{{1, 0}}, Thorough: []Bound{{2, 0}}, Body: c20Transport, MaxSteps: 100000})
	register(&Scenario{Prop: "C20", Name: "c20/client", Quick: []Bound{{1, 0}}, Thorough: []Bound{{2, 0}}, Body: c20Client, MaxSteps: 100000})
}

// one Server announced on up to three addresses over its life: listeners are started, stop by
// themselves (a fatal Accept error: the environment closes the listening socket) and the Server is
// closed and used again, in every order of five such events; in the end Server.Close makes every
// Listen call return and nothing is left behind.  The order in which a returning Listen and the
// next Listen touch the Server's list of listeners is the explorer's (d = 1).
func c20ListenCycles(x *X) {
	n := newNet()
	w := newWorld()
	so := srvOpts{bufSize: 64}
	srv := newServer(w, so)
	type lis struct {
		addr string
		ret  bool
	}
	var all []*lis
	running := map[string]*lis{}
	addrs := []string{"A", "B", "C"}
	var log []string
	settle := x.Choose(2) == 1 // every event is followed by a quiet period (otherwise only the last one)
	for i := 0; i < 5; i++ {
		ev := x.Choose(7)
		switch {
		case ev < 3: // Listen on A / B / C (if it is not being listened on)
			a := addrs[ev]
			if l := running[a]; l != nil && !l.ret {
				continue
			}
			l := &lis{addr: a}
			all = append(all, l)
			running[a] = l
			vs.GoLib("Listen("+a+")", func() {
				srv.ListenWithOptions(a, so.options(n, 0))
				l.ret = true
			})
			vs.Block("wait for the listener "+a, func() bool { fl := n.lis[a]; return l.ret || fl != nil && !fl.closed && fl.accepting })
			log = append(log, "listen("+a+")")
		case ev < 6: // the listening socket of A / B / C fails
			a := addrs[ev-3]
			if fl := n.lis[a]; fl != nil && !fl.closed {
				fl.closed = true
				log = append(log, "fail("+a+")")
			}
		default:
			srv.Close()
			log = append(log, "close")
		}
		if settle {
			vs.Quiesce()
		}
	}
	vs.Quiesce()
	srv.Close()
	vs.Quiesce()
	for _, l := range all {
		if !l.ret {
			x.Fail("C20/listen-did-not-return", "after the events %v and a final Server.Close, Listen(%q) has not returned", log, l.addr)
		}
	}
	for _, a := range addrs {
		if fl := n.lis[a]; fl != nil && !fl.closed {
			x.Fail("C20/listener-left-open", "after the events %v and a final Server.Close the listening socket of %q is still open", log, a)
		}
	}
	census(x, nil, fmt.Sprintf("server listen cycles %v", log))
	x.Outcome("settle=%v %v", settle, log)
}

func init() {
	register(&Scenario{Prop: "C20", Name: "c20/server-listen-cycles", Quick: []Bound{{0, 0}, {1, 0}}, Thorough: []Bound{{2, 0}}, Body: c20ListenCycles, MaxSteps: 100000, BudgetQ: 25, BudgetT: 200})
}

// a peer that answers the Transport's keep-alive heartbeat late (its output is held back for one to three
// housekeeping intervals, then arrives): calls work afterwards, and after Transport.Close and the end of the
// server nothing the Transport started is left behind - whatever the housekeeping round did while it waited.
func c20LateHeartbeat(x *X) {
	lim := [][2]int{{1, 1}, {2, 2}}[x.Choose(2)]
	late := 1 + x.Choose(3)
	closeWhileLate := x.Choose(2) == 1 // Close while the answer is still outstanding
	t := newTrSys(x, "C20", lim[0], lim[1])
	if e := t.call("a", formCall); e != nil {
		x.Fail("C20/setup-call-failed", "first call: %v", e)
	}
	for _, c := range t.n.conns {
		if c.addr == "a" {
			c.end.p.stall[1] = true
		}
	}
	for i := 0; i < late; i++ {
		vt.Advance(tTick)
		vs.Quiesce()
	}
	closed := false
	if closeWhileLate {
		vs.GoNamed("closer", func() { t.tr.Close(); closed = true })
		vs.Quiesce()
	}
	for _, c := range t.n.conns {
		if c.addr == "a" {
			c.end.p.unstall(1)
		}
	}
	vs.Quiesce()
	if !closeWhileLate {
		if e := t.call("a", formCall); e != nil {
			x.Fail("C14/call-on-live-server-failed/late-heartbeat", "a call after a heartbeat that was answered %d housekeeping intervals late failed with %v", late, e)
		}
		vt.Advance(tTick)
		vs.Quiesce()
		vs.GoNamed("closer", func() { t.tr.Close(); closed = true })
		vs.Quiesce()
	}
	if !closed {
		x.Fail("C20/close-hangs/late-heartbeat", "Transport.Close has not returned (heartbeat answered %d intervals late, Close while late: %v)", late, closeWhileLate)
	}
	for _, a := range []string{"a", "b"} {
		if t.up[a] {
			t.srv[a].Close()
		}
	}
	vs.Quiesce()
	vt.Advance(3 * tTick)
	vs.Quiesce()
	census(x, t.n, fmt.Sprintf("transport closed after a heartbeat answered %d housekeeping intervals late (Close while late: %v, limits %v)", late, closeWhileLate, lim))
	x.Outcome("lim=%v late=%d closeWhileLate=%v", lim, late, closeWhileLate)
}

func init() {
	register(&Scenario{Prop: "C20", Name: "c20/late-heartbeat-answer", Quick: []Bound{{0, 0}, {1, 0}}, Thorough: []Bound{{2, 0}}, Body: c20LateHeartbeat, MaxSteps: 200000, BudgetQ: 20})
}
