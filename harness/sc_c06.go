package main

import (
	"context"
	"encoding/json"
	"errors"
	"fmt"
	"math"
	"strings"

	"github.com/hslam/rpc"
	vs "verif/shim/vsync"
)

// C06 — errors reach exactly the failing call, verbatim, and do not poison the link.
//
// JSON body codec (so that undecodable arguments and unencodable replies exist), all four header
// encoders, 2-3 calls in flight mixing success with each failure kind, then k follow-up calls.

type JReq struct {
	Tag  int
	Kind int
	Text string
	Pad  string
	Gate bool
}
type JRes struct {
	Tag int
	Out string
	F   float64
}
type JBad struct {
	Tag  string // a string where JReq has an int: undecodable arguments
	Kind int
}
type JSvc struct{ w *World }

const (
	kOK = iota
	kHandlerErr
	kUnknownMethod
	kBadArgs
	kBadReply
	kClientEncode
	nKinds
)

var kindNames = []string{"ok", "handler-error", "unknown-method", "bad-args", "bad-reply", "client-encode"}

func jOut(tag int, pad string) string {
	b := []byte(pad)
	for i, j := 0, len(b)-1; i < j; i, j = i+1, j-1 {
		b[i], b[j] = b[j], b[i]
	}
	return fmt.Sprintf("%d:%s", tag, b)
}

func (s *JSvc) Do(req *JReq, res *JRes) error {
	s.w.execs[byte(req.Tag)]++
	if req.Gate {
		tag := byte(req.Tag)
		vs.Block(fmt.Sprintf("gate %d", tag), func() bool { return s.w.gates[tag] })
	}
	switch req.Kind {
	case kHandlerErr:
		return errors.New(req.Text)
	case kBadReply:
		res.F = math.NaN()
		return nil
	}
	res.Tag = req.Tag
	res.Out = jOut(req.Tag, req.Pad)
	return nil
}

var c06Texts = []string{
	"x",
	strings.Repeat("e", 127),
	strings.Repeat("E", 128),
	strings.Repeat("long error text ", 19), // 304 bytes
	"mehrsprachig: äöü 世界 \U0001F600",
	"The connection is shut down", // equal to the library's shutdown message
	"unlucky",
}

type jcall struct {
	tag, kind int
	text      string
	pad       string
	reply     JRes
	err       error
	errAtRet  string
	ret       bool
	want      string // expected error text ("" = success)
	numBefore uint64
	numAfter  uint64
}

const sentinelOut = "SENTINEL-reply-must-stay"

func (c *jcall) issue(conn *rpc.Conn) {
	c.reply = JRes{Tag: -7, Out: sentinelOut, F: 1.5}
	req := &JReq{Tag: c.tag, Kind: c.kind, Text: c.text, Pad: c.pad}
	switch c.kind {
	case kUnknownMethod:
		c.err = conn.Call("JSvc.Nope", req, &c.reply)
		c.want = "can't find service JSvc.Nope"
	case kBadArgs:
		bad := &JBad{Tag: "not-a-number", Kind: 0}
		c.err = conn.Call("JSvc.Do", bad, &c.reply)
		b, _ := json.Marshal(bad)
		c.want = json.Unmarshal(b, &JReq{}).Error()
	case kClientEncode:
		c.numBefore = conn.NumCalls()
		nan := math.NaN()
		c.err = conn.Call("JSvc.Do", &nan, &c.reply)
		c.numAfter = conn.NumCalls()
		_, e := json.Marshal(&nan)
		c.want = e.Error()
	case kBadReply:
		c.err = conn.Call("JSvc.Do", req, &c.reply)
		_, e := json.Marshal(&JRes{F: math.NaN()})
		c.want = e.Error()
	case kHandlerErr:
		c.err = conn.Call("JSvc.Do", req, &c.reply)
		c.want = c.text
	default:
		c.err = conn.Call("JSvc.Do", req, &c.reply)
	}
	if c.err != nil {
		c.errAtRet = string(append([]byte(nil), c.err.Error()...))
	}
	c.ret = true
}

func (c *jcall) judge(x *X, when string) string {
	k := kindNames[c.kind]
	if !c.ret {
		return fmt.Sprintf("%d:%s:blocked", c.tag, k)
	}
	if c.want == "" {
		if c.err != nil {
			x.Fail("C06/neighbour-failed/"+when, "call %d (%s) should succeed next to failing calls, got error %q", c.tag, k, c.err.Error())
		} else if c.reply.Tag != c.tag || c.reply.Out != jOut(c.tag, c.pad) {
			x.Fail("C06/neighbour-wrong-reply/"+when, "call %d (%s) got reply %+v", c.tag, k, c.reply)
		}
		return fmt.Sprintf("%d:%s:%s", c.tag, k, errStr(c.err))
	}
	if c.err == nil {
		x.Fail("C06/error-lost/kind="+k, "call %d (%s) returned nil, expected error %q", c.tag, k, c.want)
		return fmt.Sprintf("%d:%s:nil", c.tag, k)
	}
	now := string(append([]byte(nil), c.err.Error()...))
	if c.kind == kHandlerErr && c.text == "The connection is shut down" && c.err == rpc.ErrShutdown {
		// the library maps this text to its ErrShutdown value: the text is still verbatim
	}
	if c.errAtRet != c.want {
		x.Fail("C06/error-text/kind="+k+"/"+when, "call %d (%s) failed with %q, server-side text is %q", c.tag, k, c.errAtRet, c.want)
	} else if now != c.want {
		x.Fail("C06/error-text-changed-later/kind="+k, "call %d (%s): err.Error() was %q at return and reads %q after further traffic", c.tag, k, c.want, now)
	}
	if c.reply.Tag != -7 || c.reply.Out != sentinelOut || c.reply.F != 1.5 {
		x.Fail("C06/reply-modified/kind="+k, "call %d (%s) failed but its reply object was modified: %+v", c.tag, k, c.reply)
	}
	if c.kind == kClientEncode && c.tag >= 100 && c.numAfter != c.numBefore {
		x.Fail("C06/residue-after-encode-failure", "NumCalls was %d before and %d after a request that could not be encoded", c.numBefore, c.numAfter)
	}
	return fmt.Sprintf("%d:%s:E", c.tag, k)
}

func c06Body(inflight int, seqClient bool, reduced bool) func(x *X) {
	return func(x *X) {
		var enc string
		var ti int
		if reduced {
			enc = []string{"", "json", "yield-code"}[x.Choose(3)]
			ti = 3
		} else {
			enc = encNames[x.Choose(len(encNames))]
			ti = x.Choose(len(c06Texts))
		}
		kinds := make([]int, inflight)
		for i := range kinds {
			kinds[i] = x.Choose(nKinds)
		}
		nfollow := 3
		if !reduced {
			nfollow = 1 + x.Choose(3)*2 // 1, 3, 5 follow-up calls
		}
		jc := func() rpc.Codec { return rpc.NewJSONCodec() }
		so := srvOpts{bufSize: 256, enc: enc, codec: jc}
		f := newFixture(so, cliOpts{bufSize: 256})
		f.srv.Register(&JSvc{f.w})
		var calls []*jcall
		for i, k := range kinds {
			c := &jcall{tag: i + 1, kind: k, text: c06Texts[(ti+i)%len(c06Texts)], pad: strings.Repeat(string(rune('a'+i)), 10+40*i)}
			calls = append(calls, c)
			if seqClient {
				c.issue(f.conn)
			} else {
				cc := c
				vs.GoNamed(fmt.Sprintf("caller%d", c.tag), func() { cc.issue(f.conn) })
			}
		}
		vs.Quiesce()
		out := "enc=" + enc
		for _, c := range calls {
			out += " " + c.judge(x, "at-return")
		}
		// later traffic with different contents and lengths
		for j := 0; j < nfollow; j++ {
			c := &jcall{tag: 100 + j, kind: kOK, pad: strings.Repeat("z", 5+j*33)}
			c.issue(f.conn)
			c.judge(x, "followup")
		}
		// a request that cannot be encoded, issued while nothing else is in flight: no residue
		ce := &jcall{tag: 200, kind: kClientEncode}
		ce.issue(f.conn)
		ce.judge(x, "quiescent")
		for _, c := range calls {
			c.judge(x, "after-traffic")
		}
		x.Outcome("%s", out)
		f.conn.Close()
		vs.Quiesce()
	}
}

// a failing call is abandoned by its caller (context done) while its error response arrives: the
// other outstanding call and the later calls are unaffected
func c06Abandoned(x *X) {
	enc := []string{"", "json", "yield-code"}[x.Choose(3)]
	pipe := x.Choose(2) == 1
	jc := func() rpc.Codec { return rpc.NewJSONCodec() }
	so := srvOpts{bufSize: 256, enc: enc, codec: jc}
	f := newFixture(so, cliOpts{bufSize: 256, pipelining: pipe})
	f.srv.Register(&JSvc{f.w})
	ctx := newCtx(nil)
	var aErr error
	aDone := false
	var aRep JRes
	vs.GoNamed("abandoned", func() {
		aErr = f.conn.CallWithContext(ctx, "JSvc.Do", &JReq{Tag: 1, Kind: kHandlerErr, Text: "failing call", Gate: true}, &aRep)
		aDone = true
	})
	b := &jcall{tag: 2, kind: kOK, pad: "bbbbbbbbbbbbbbbbbbbb"}
	var bRep JRes
	var bErr error
	bDone := false
	vs.GoNamed("other", func() {
		bErr = f.conn.Call("JSvc.Do", &JReq{Tag: 2, Kind: kOK, Pad: b.pad, Gate: true}, &bRep)
		bDone = true
	})
	vs.Quiesce()
	vs.GoNamed("canceller", func() { ctx.cancel(context.Canceled) })
	vs.GoNamed("opener", func() { f.w.open(1) })
	vs.Quiesce()
	// the next caller may get the recycled Call object
	c := &jcall{tag: 3, kind: kOK, pad: "cccccccc"}
	var cRep JRes
	var cErr error
	cDone := false
	vs.GoNamed("next", func() {
		cErr = f.conn.Call("JSvc.Do", &JReq{Tag: 3, Kind: kOK, Pad: c.pad, Gate: true}, &cRep)
		cDone = true
	})
	vs.Quiesce()
	if cDone {
		x.Fail("C06/neighbour-completed-early", "a call issued after a failing call was abandoned returned (err=%v, reply %+v) while its handler is still running", cErr, cRep)
	}
	if bDone {
		x.Fail("C06/neighbour-completed-early", "the other outstanding call returned (err=%v) while its handler is still running", bErr)
	}
	f.w.open(2)
	f.w.open(3)
	vs.Quiesce()
	if !aDone || (aErr != context.Canceled && (aErr == nil || aErr.Error() != "failing call")) {
		x.Fail("C06/error-text/abandoned", "the abandoned failing call returned done=%v err=%v", aDone, aErr)
	}
	if !bDone || bErr != nil || bRep.Out != jOut(2, b.pad) {
		x.Fail("C06/neighbour-failed/abandoned", "the other outstanding call: done=%v err=%v reply=%+v", bDone, bErr, bRep)
	}
	if !cDone || cErr != nil || cRep.Out != jOut(3, c.pad) {
		x.Fail("C06/neighbour-failed/abandoned", "the later call: done=%v err=%v reply=%+v", cDone, cErr, cRep)
	}
	x.Outcome("enc=%s pipe=%v a=%s", enc, pipe, errStr(aErr))
	f.conn.Close()
	vs.Quiesce()
}

func init() {
	register(&Scenario{Prop: "C06", Name: "c06/failing-call-abandoned", Quick: []Bound{{1, 0}, {2, 0}}, Thorough: []Bound{{3, 0}}, Body: c06Abandoned, BudgetQ: 20})
	register(&Scenario{Prop: "C06", Name: "c06/2inflight", Quick: []Bound{{0, 0}, {1, 0}}, Thorough: []Bound{{2, 0}}, Body: c06Body(2, false, false), BudgetQ: 40})
	register(&Scenario{Prop: "C06", Name: "c06/3inflight", Quick: []Bound{{0, 0}}, Thorough: []Bound{{1, 0}}, Body: c06Body(3, false, false), BudgetQ: 20})
	register(&Scenario{Prop: "C06", Name: "c06/3inflight-reduced", Quick: []Bound{{1, 0}}, Thorough: []Bound{{2, 0}}, Body: c06Body(3, false, true), BudgetQ: 30})
}

// a server-side stream write whose value the body codec refuses, then ordinary calls on the same
// and on another connection of the same server: the failure belongs to that stream message alone.
func c06StreamBad(x *X) {
	mode := x.Choose(3)
	so := srvOpts{bufSize: 64, codec: rejectBytesCodec}
	switch mode {
	case 1:
		so.pipelining = true
	case 2:
		so.shared = true
	}
	f := newFixture(so, cliOpts{bufSize: 64})
	f.w.badPush = true
	st, err := f.conn.NewStream("StreamSvc.Push")
	if err != nil {
		x.Fail("C06/stream-open-failed", "NewStream: %v", err)
		return
	}
	// the trigger: the handler answers it with an unencodable message first and the echo second.
	// How the failed message surfaces on this stream (the reader gets its error text) is not
	// judged here; the calls that follow are.
	m := append([]byte{0xBD}, streamMsg(0x31, 0)...)
	var back []byte
	werr := st.WriteMessage(&m)
	rerr := st.ReadMessage(nil, &back) // (on the unchanged tree: the echo, together with the failed message's error text)
	if werr != nil || !eqBytes(back, transform(m)) {
		x.Fail("C06/stream-disturbed/after-unencodable-stream-message", "the stream whose handler wrote an unencodable message: write %v, read %v, echo %x", werr, rerr, back)
	}
	// a second connection of the same server
	cl2, sv2 := NewPipe()
	serveCodec(f.srv, sv2, so)
	conn2 := newConn(cl2, so.enc, 64, so.codec)
	var calls []*ucall
	for i := 0; i < 5; i++ {
		c := newUcall(byte(0x41+i), 0, 12+9*i, []int{formCall, formGo, formCallCtx, formCall, formRoundTrip}[i])
		if i%2 == 0 {
			c.issue(f.conn)
		} else {
			c.issue(conn2)
		}
		calls = append(calls, c)
	}
	out := ""
	for _, c := range calls {
		switch {
		case !c.ret:
			x.Fail("C06/neighbour-blocked/after-unencodable-stream-message", "call %d never returned", c.tag)
		case c.err != nil:
			x.Fail("C06/neighbour-failed/after-unencodable-stream-message", "call %d (%s), whose handler succeeded, failed with %q after a server-side stream write that could not be encoded (that write returned %q)", c.tag, formNames[c.form], c.err.Error(), f.w.badPushErr)
		case !eqBytes(c.reply, c.want()):
			x.Fail("C06/neighbour-wrong-reply/after-unencodable-stream-message", "call %d got reply %x", c.tag, c.reply)
		}
		out += fmt.Sprintf(" %d:%s", c.tag, errStr(c.err))
	}
	st.Close()
	x.Outcome("mode=%d bad=%s%s", mode, f.w.badPushErr, out)
	conn2.Close()
	f.conn.Close()
	vs.Quiesce()
}

func init() {
	register(&Scenario{Prop: "C06", Name: "c06/unencodable-stream-message-then-calls", Quick: []Bound{{0, 0}, {1, 0}}, Thorough: []Bound{{2, 0}}, Body: c06StreamBad, BudgetQ: 15})
}

// through a Transport: a failing call whose error text looks like a library or I/O error ("The
// connection is shut down" — a proxying handler passes on what its own downstream call returned —,
// texts that merely contain it, "EOF", "timeout", "dial failed", ...) is an ordinary server-side
// error: it fails that call only, with exactly that text; a call outstanding on the same pooled
// connection and later calls are unaffected and the connection stays in use.  Optionally an earlier
// request on the connection could not be encoded (which failed that request alone).
var c06SentinelTexts = []string{"The connection is shut down", "backend 2: The connection is shut down", "The connection is shut down (downstream)", "EOF", "unexpected EOF", "timeout", "dial failed", "io: read/write on closed pipe", "write: broken pipe", "context canceled", "use of closed network connection"}

func c06Transport(x *X) {
	text := c06SentinelTexts[x.Choose(len(c06SentinelTexts))]
	form := []int{formCall, formGo, formCallCtx}[x.Choose(3)]
	preBad := x.Choose(2) == 1 // earlier, a request on this connection could not be encoded (it failed alone)
	trSrvOpts.codec = rejectBytesCodec
	defer func() { trSrvOpts.codec = nil }()
	t := newTrSys(x, "C06", 1, 1)
	if preBad {
		t.call("a", formCall)
		bad := newUcall(0xEE, 0xEE, 20, formCall)
		if err := t.tr.Call("a", bad.method, &bad.args, &bad.reply); err == nil {
			x.Fail("C06/error-lost/kind=unencodable-request", "a request the body codec rejects returned no error")
		}
	}
	t.longCall("a")
	w := t.w["a"]
	c := newUcall(0x71, fErr, 14, form)
	w.errText[0x71] = text
	var err error
	switch form {
	case formGo:
		done := make(chan *rpc.Call, 1)
		call := t.tr.Go("a", c.method, &c.args, &c.reply, done)
		recvCall(done)
		err = call.Error
	case formCallCtx:
		err = t.tr.CallWithContext(context.Background(), "a", c.method, &c.args, &c.reply)
	default:
		err = t.tr.Call("a", c.method, &c.args, &c.reply)
	}
	if err == nil || err.Error() != text {
		x.Fail("C06/error-text/transport", "the handler returned %q, the Transport call returned %v", text, err)
	}
	vs.Quiesce()
	after := newUcall(0x72, 0, 20, formCall)
	aerr := t.tr.Call("a", after.method, &after.args, &after.reply)
	if aerr != nil || !eqBytes(after.reply, after.want()) {
		x.Fail("C06/neighbour-failed/transport", "a call after the failing one (error text %q): %v", text, aerr)
	}
	t.release()
	for _, l := range t.long {
		if !l.c.ret || l.c.err != nil || !eqBytes(l.c.reply, l.c.want()) {
			x.Fail("C06/neighbour-failed/transport", "the call that was outstanding on the pooled connection when another call failed with the server-side text %q: returned=%v err=%v", text, l.c.ret, l.c.err)
		}
	}
	if d := t.n.dials["a"]; d != 1 {
		x.Fail("C06/connection-replaced/transport", "a server-side error with the text %q made the Transport replace its healthy connection (%d dials)", text, d)
	}
	x.Outcome("text=%q form=%d pre=%v err=%s", text, form, preBad, errStr(err))
	t.shutdown()
}

func init() {
	register(&Scenario{Prop: "C06", Name: "c06/transport-sentinel-texts", Quick: []Bound{{0, 0}, {1, 0}}, Thorough: []Bound{{2, 0}}, Body: c06Transport, MaxSteps: 200000, BudgetQ: 15})
}

// error texts as data: every text of a list chosen for what encoders, formatters and escapers get
// wrong (percent signs, quotes and backslashes, control characters incl. NUL / ESC / DEL, U+2028,
// runes above U+FFFF, text that looks like JSON or like a format string, 20 KB) comes back
// byte for byte, as a handler's error and inside the name of an unknown method, under every header
// encoder; the call after it is unaffected.
var c06DataTexts = []string{
	"100% full", "%s %d %v %%", "5%", "%!(NOVERB)", "a\"b\\c", "\\n is not a newline", "tab\there\nnewline\r\n", "nul\x00inside",
	"\x1b[31mpermission denied\x1b[0m", "bell\a vt\v ff\f bs\b", "del\x7fete", "line sep ", "tag \U000E0001 plane 14", "emoji \U0001F600 \U0010FFFF",
	"{\"e\":\"x\"}", "<script>&amp;</script>", " leading and trailing ", "ünïcödé 世界", strings.Repeat("twenty kilobytes ", 1200),
}

func c06DataTextsBody(x *X) { c06DataTextsBodyP("C06")(x) }

func c06DataTextsBodyP(prop string) func(x *X) {
	return func(x *X) {
		enc := encNames[x.Choose(len(encNames))]
		kind := x.Choose(2) // handler error / unknown method whose name contains the text
		ti := x.Choose(len(c06DataTexts))
		text := c06DataTexts[ti]
		f := newFixture(srvOpts{bufSize: 64, enc: enc}, cliOpts{bufSize: 64})
		c := newUcall(0x31, fErr, 16, []int{formCall, formGo, formCallCtx}[ti%3])
		want := text
		if kind == 0 {
			f.w.errText[0x31] = text
		} else {
			c.method = "Nope." + text
			want = "can't find service Nope." + text
		}
		c.spawn(f.conn)
		vs.Quiesce()
		switch {
		case !c.ret:
			x.Fail(prop+"/failing-call-never-completes/data", "a call whose server-side error text is %q (header encoder %q) never completed", clip(text), enc)
		case c.err == nil:
			x.Fail(prop+"/error-lost/data", "the call returned nil, the server-side error text is %q", clip(text))
		case c.err.Error() != want:
			x.Fail(prop+"/error-text/data", "server-side error text %q (header encoder %q, %d bytes) arrived as %q (%d bytes)", clip(want), enc, len(want), clip(c.err.Error()), len(c.err.Error()))
		}
		if n := f.conn.NumCalls(); n != 0 {
			x.Fail(prop+"/residue/data", "NumCalls is %d after the failing call", n)
		}
		after := newUcall(0x32, 0, 20, formCall)
		after.spawn(f.conn)
		vs.Quiesce()
		if !after.ret || after.err != nil || !eqBytes(after.reply, after.want()) {
			x.Fail(prop+"/neighbour-failed/data", "the call after a failing call with the text %q: returned=%v err=%v", clip(text), after.ret, after.err)
		}
		x.Outcome("enc=%q kind=%d text=%d", enc, kind, ti)
		f.conn.Close()
		vs.Quiesce()
	}
}

func clip(s string) string {
	if len(s) > 80 {
		return s[:80] + "..."
	}
	return s
}

func init() {
	register(&Scenario{Prop: "C06", Name: "c06/error-texts-as-data", Quick: []Bound{{0, 0}}, Thorough: []Bound{{1, 0}}, Body: c06DataTextsBody, MaxSteps: 200000, BudgetQ: 15, BudgetT: 100, MinHB: 1})
}

// errors raised by the server's body decoder - including io.EOF, which encoding/xml, encoding/gob
// and encoding/binary return for an empty or short body - are errors of that one call like any
// other: it completes with the decoder's text, NumCalls drops back, the next call works.  The
// client side uses the BYTES codec, so the request body is exactly the text chosen.
func c06DecoderErrors(x *X) {
	cname := []string{"json", "xml"}[x.Choose(2)]
	mk := map[string]func() rpc.Codec{"json": func() rpc.Codec { return rpc.NewJSONCodec() }, "xml": func() rpc.Codec { return &rpc.XMLCodec{} }}[cname]
	bodies := map[string][]string{
		"json": {``, `{"A":3,"B":4}`, `{"A":`, `nope`, ` `},
		"xml":  {``, `<Req><A>3</A><B>4</B></Req>`, `<Req><A>3</A>`, `nope`, ` `},
	}[cname]
	bi := x.Choose(len(bodies))
	mode := x.Choose(3)
	so := srvOpts{bufSize: 64, codec: mk}
	switch mode {
	case 1:
		so.pipelining = true
	case 2:
		so.directIO = true
	}
	w := newWorld()
	calc := &Calc{}
	srv := newServer(w, so)
	srv.Register(calc)
	cl, sv := NewPipe()
	serveCodec(srv, sv, so)
	conn := newConn(cl, "", 64, nil)
	body := bodies[bi]
	var ref Req
	lerr := mk().Unmarshal([]byte(body), &ref)
	args := []byte(body)
	var reply []byte
	var err error
	ret := false
	vs.GoNamed("caller", func() { err = conn.Call("Calc.Mul", &args, &reply); ret = true })
	vs.Quiesce()
	switch {
	case !ret:
		x.Fail("C06/failing-call-never-completes/decoder-error", "a call whose request body %q the server's %s decoder answers with %v never completed", body, cname, lerr)
	case lerr != nil && err == nil:
		x.Fail("C06/error-lost/decoder-error", "the server's %s decoder rejects the body %q (%v) and the call returned nil", cname, body, lerr)
	case lerr != nil && err.Error() != lerr.Error():
		x.Fail("C06/error-text/decoder-error", "the server's %s decoder rejects the body %q with %q; the call failed with %q", cname, body, lerr.Error(), err.Error())
	case lerr == nil && err != nil:
		x.Fail("C06/spurious-error/decoder-error", "the body %q decodes, the call failed with %v", body, err)
	}
	if n := conn.NumCalls(); ret && n != 0 {
		x.Fail("C06/residue/decoder-error", "NumCalls is %d after the call", n)
	}
	after := []byte(bodies[1])
	var areply []byte
	aret := false
	var aerr error
	vs.GoNamed("caller2", func() { aerr = conn.Call("Calc.Mul", &after, &areply); aret = true })
	vs.Quiesce()
	if !aret || aerr != nil {
		x.Fail("C06/neighbour-failed/decoder-error", "the call after it: returned=%v err=%v", aret, aerr)
	}
	x.Outcome("%s body=%d mode=%d lerr=%v err=%v", cname, bi, mode, lerr, err)
	conn.Close()
	vs.Quiesce()
}

func init() {
	register(&Scenario{Prop: "C06", Name: "c06/decoder-errors", Quick: []Bound{{0, 0}}, Thorough: []Bound{{1, 0}}, Body: c06DecoderErrors, BudgetQ: 15, MinHB: 1})
}

// through a Transport: stream messages that the client's body codec cannot encode (the write
// fails locally, the stream goes on), then a call that takes long on the same pooled connection
// while the Transport's housekeeping runs (CloseIdleConnections, keep-alive retirement, idle
// timeout): the failed writes are errors of those writes only - the call and the stream survive.
func c06TransportStreamWriteErrors(x *X) {
	nbad := 1 + x.Choose(3)
	hk := x.Choose(3)
	trSrvOpts.codec = rejectBytesCodec
	defer func() { trSrvOpts.codec = nil }()
	t := newTrSys(x, "C06", 1, 1)
	t.openStream("a")
	if len(t.streams) != 1 {
		x.Fail("C06/open-failed/stream-write-errors", "NewStream through the Transport failed")
		t.shutdown()
		return
	}
	st := t.streams[0].st
	for i := 0; i < nbad; i++ {
		bad := []byte{0xEE, 0xEE, byte(i)}
		st.WriteMessage(&bad)
		vs.Quiesce()
	}
	if n := t.n.live["a"]; n != 1 {
		x.Fail("C06/connection-lost/stream-write-errors", "%d connections are open after %d stream writes that could not be encoded", n, nbad)
	}
	t.longCall("a")
	switch hk {
	case 0:
		t.tr.CloseIdleConnections()
		vs.Quiesce()
	case 1:
		t.advance(tKeepAlive+tTick, ">keepalive")
	case 2:
		t.advance(tKeepAlive+tIdle+2*tTick, ">keepalive+idle")
	}
	// the stream still works
	m := streamMsg(0x31, 0)
	var r []byte
	e1 := st.WriteMessage(&m)
	var e2 error
	rd := false
	vs.GoNamed("streamcheck", func() { e2 = st.ReadMessage(nil, &r); rd = true })
	vs.Quiesce()
	if e1 != nil || !rd || e2 != nil || !eqBytes(r, transform(m)) {
		x.Fail("C06/stream-poisoned/stream-write-errors", "after %d stream writes that could not be encoded and housekeeping %d the stream stopped working: write=%v read returned=%v err=%v", nbad, hk, e1, rd, e2)
	}
	t.release()
	for _, l := range t.long {
		if !l.c.ret || l.c.err != nil || !eqBytes(l.c.reply, l.c.want()) {
			x.Fail("C06/other-call-failed/stream-write-errors", "a call in flight on the pooled connection while the Transport's housekeeping (%d) ran, after %d stream writes that could not be encoded: returned=%v err=%v", hk, nbad, l.c.ret, l.c.err)
		}
	}
	x.Outcome("nbad=%d hk=%d", nbad, hk)
	st.Close()
	t.streams = nil
	t.shutdown()
}

func init() {
	register(&Scenario{Prop: "C06", Name: "c06/transport-stream-write-errors", Quick: []Bound{{0, 0}, {1, 0}}, Thorough: []Bound{{2, 0}}, Body: c06TransportStreamWriteErrors, MaxSteps: 200000, BudgetQ: 15})
}
