package main

import (
	"context"
	"fmt"
	"github.com/hslam/rpc"

	vs "verif/shim/vsync"
)

// C01 — a successful call gets the reply computed from its own arguments.
//
// Closed system: 1-2 client Conns against a real Server.ServeCodec over message pipes, 2-3
// concurrent callers with distinct tags / sizes (one larger than every buffer, one whose reply is
// twice the request) in driver-chosen call forms, gated handlers released in a driver-chosen
// order, all header encoders and I/O modes; follow-up sequential calls afterwards.

var c01Sizes = []int{5, 200, 64, 65}
var c01Flags = []byte{fGate, fGate | fDouble, fGate, fGate}

func c01Check(x *X, calls []*ucall, what string) string {
	out := ""
	for _, c := range calls {
		switch {
		case !c.ret:
			out += fmt.Sprintf(" %d:blocked", c.tag)
		case c.err != nil:
			out += fmt.Sprintf(" %d:err(%s)", c.tag, errStr(c.err))
		case c.form == formPing:
			out += fmt.Sprintf(" %d:pong", c.tag)
		case !eqBytes(c.reply, c.want()):
			x.Fail("C01/wrong-reply/"+what, "call tag %d (%s, %d bytes) completed without error but its reply is %s %.40x, want %s %.40x", c.tag, formNames[c.form], c.size, digest(c.reply), c.reply, digest(c.want()), c.want())
			out += fmt.Sprintf(" %d:WRONG", c.tag)
		default:
			out += fmt.Sprintf(" %d:ok", c.tag)
		}
	}
	return out
}

func c01Body(ncallers int, modes []modeT) func(x *X) {
	ps := perms(ncallers)
	return func(x *X) {
		m := modes[x.Choose(len(modes))]
		formOff := x.Choose(4)
		order := ps[x.Choose(len(ps))]
		f := newFixture(m.so, m.co)
		forms := []int{formCall, formGo, formCallCtx, formRoundTrip}
		var calls []*ucall
		for i := 0; i < ncallers; i++ {
			c := newUcall(byte(i+1), c01Flags[i], c01Sizes[i], forms[(i+formOff)%4])
			calls = append(calls, c)
			c.spawn(f.conn)
		}
		vs.GoNamed("releaser", func() {
			for _, i := range order {
				f.w.open(byte(i + 1))
				vs.Yield()
			}
		})
		vs.Quiesce()
		out := m.name + c01Check(x, calls, "concurrent")
		// follow-up traffic on the same connection
		var later []*ucall
		for j := 0; j < 2; j++ {
			c := newUcall(byte(0x20+j), 0, 30+70*j, formCall)
			c.issue(f.conn)
			later = append(later, c)
		}
		out += " later:" + c01Check(x, later, "followup") + c01Check(x, calls, "after-followup")
		x.Outcome("%s", out)
		f.conn.Close()
		vs.Quiesce()
	}
}

// two connections served by one Server: replies must not cross connections.
func c01TwoConns(x *X) {
	m := basicModes[x.Choose(3)]
	w := newWorld()
	srv := newServer(w, m.so)
	var conns []*fixture
	for k := 0; k < 2; k++ {
		f := &fixture{w: w, so: m.so, srv: srv}
		f.cl, f.sv = NewPipe()
		serveCodec(srv, f.sv, m.so)
		f.conn = newConn(f.cl, m.so.enc, 64, nil)
		conns = append(conns, f)
	}
	var calls []*ucall
	for k, f := range conns {
		for i := 0; i < 2; i++ {
			// both connections use the same sequence numbers 0,1 with different payloads
			c := newUcall(byte(1+2*k+i), 0, []int{7, 150}[i]+k, formCall)
			calls = append(calls, c)
			c.spawn(f.conn)
		}
	}
	vs.Quiesce()
	x.Outcome("%s", m.name+c01Check(x, calls, "two-conns"))
	for _, f := range conns {
		f.conn.Close()
	}
	vs.Quiesce()
}

func init() {
	register(&Scenario{Prop: "C01", Name: "c01/2callers-allmodes", Quick: []Bound{{1, 0}, {2, 0}}, Thorough: []Bound{{2, 0}, {3, 0}}, Body: c01Body(2, basicModes), BudgetQ: 35})
	register(&Scenario{Prop: "C01", Name: "c01/3callers", Quick: []Bound{{1, 0}}, Thorough: []Bound{{2, 0}}, Body: c01Body(3, basicModes[:5])})
	register(&Scenario{Prop: "C01", Name: "c01/two-conns", Quick: []Bound{{1, 0}, {2, 0}}, Thorough: []Bound{{3, 0}}, Body: c01TwoConns})
}

// frame sizes around the pooled buffer size: two concurrent callers whose request and reply
// frames are 3..12 bytes longer than a body of 44..73 bytes (the buffers hold 64), so every frame
// length from below to above the buffer capacity — including exactly the capacity — occurs in
// both directions, with a second frame right behind the first.
func c01Boundary(modes []modeT) func(x *X) {
	return func(x *X) {
		m := modes[x.Choose(len(modes))]
		size := 44 + x.Choose(30)
		double := x.Choose(2) == 1
		f := newFixture(m.so, m.co)
		flags := byte(0)
		if double {
			flags = fDouble
		}
		a := newUcall(1, flags, size, formCall)
		b := newUcall(2, flags, size, formGo)
		a.spawn(f.conn)
		b.spawn(f.conn)
		vs.Quiesce()
		out := c01Check(x, []*ucall{a, b}, "frame-boundary")
		if !a.ret || !b.ret || a.err != nil || b.err != nil {
			x.Fail("C01/call-failed/frame-boundary", "two %d-byte calls (mode %s): returned=%v/%v err=%v/%v", size, m.name, a.ret, b.ret, a.err, b.err)
		}
		c := newUcall(3, flags, size, formCall)
		c.issue(f.conn)
		out += c01Check(x, []*ucall{c}, "frame-boundary")
		x.Outcome("%s size=%d double=%v%s", m.name, size, double, out)
		f.conn.Close()
		vs.Quiesce()
	}
}

func init() {
	register(&Scenario{Prop: "C01", Name: "c01/frame-boundary", Quick: []Bound{{0, 0}, {1, 0}}, Thorough: []Bound{{2, 0}}, Body: c01Boundary(basicModes), BudgetQ: 20})
}

// many calls outstanding at once on one connection (asynchronous calls need no threads of their
// own), answered in a chosen order; among them a method name as long as a buffer, two payloads of
// equal length and equal content apart from the tag, and replies longer than their requests.
func c01Many(modes []modeT) func(x *X) {
	return func(x *X) {
		m := modes[x.Choose(len(modes))]
		n := []int{9, 17, 33}[x.Choose(3)]
		order := x.Choose(4) // release order: forward, reverse, odd-then-even, outside-in
		f := newFixture(m.so, m.co)
		var calls []*ucall
		for i := 0; i < n; i++ {
			flags := byte(fGate)
			if i%5 == 4 {
				flags |= fDouble
			}
			size := 8 + (i*11)%90
			if i%4 == 3 {
				size = 40 // equal lengths
			}
			c := newUcall(byte(i+1), flags, size, formGo)
			if i%7 == 2 {
				c.method = longMethod
			}
			c.done = make(chan *rpc.Call, 1)
			c.call = f.conn.Go(c.method, &c.args, &c.reply, c.done)
			calls = append(calls, c)
		}
		vs.Quiesce()
		if k := int(f.conn.NumCalls()); k != n {
			x.Fail("C01/outstanding-count", "%d calls are outstanding, NumCalls reports %d", n, k)
		}
		var seq []int
		switch order {
		case 0:
			for i := 0; i < n; i++ {
				seq = append(seq, i)
			}
		case 1:
			for i := n - 1; i >= 0; i-- {
				seq = append(seq, i)
			}
		case 2:
			for i := 1; i < n; i += 2 {
				seq = append(seq, i)
			}
			for i := 0; i < n; i += 2 {
				seq = append(seq, i)
			}
		case 3:
			for i, j := 0, n-1; i <= j; i, j = i+1, j-1 {
				seq = append(seq, i)
				if i != j {
					seq = append(seq, j)
				}
			}
		}
		for k, i := range seq {
			f.w.open(byte(i + 1))
			if k%3 == 0 {
				vs.Quiesce()
			}
		}
		vs.Quiesce()
		for _, c := range calls {
			select {
			case <-c.done:
				c.ret = true
				c.err = c.call.Error
			default:
			}
			if !c.ret || c.err != nil {
				x.Fail("C01/call-failed/many-outstanding", "call %d of %d outstanding calls (mode %s): completed=%v err=%v", c.tag, n, m.name, c.ret, c.err)
			}
		}
		out := c01Check(x, calls, "many-outstanding")
		_ = out
		x.Outcome("%s n=%d order=%d", m.name, n, order)
		f.conn.Close()
		vs.Quiesce()
	}
}

func init() {
	register(&Scenario{Prop: "C01", Name: "c01/many-outstanding", Quick: []Bound{{0, 0}}, Thorough: []Bound{{1, 0}}, Body: c01Many(basicModes), MaxSteps: 200000, BudgetQ: 15, BudgetT: 200})
}

// a long-lived connection: one call stays outstanding (and one CallWithContext is abandoned and
// not answered until the end) while n further calls are made one after the other on the same
// connection; sequence numbers pass 128 and 16384 (the lengths of their varint encodings grow),
// every per-connection counter passes the same thresholds, pooled objects are recycled thousands
// of times.  n is 16382, 16383 or 16400 (66000 in the thorough tier), so that a counter with a
// period of 2^14 comes back exactly to the numbers of the outstanding and of the abandoned call.
// Default schedule only (one execution is about 150 000 steps).  The same body is registered
// under C01, C02, C19 (keys of those properties) and, ending with Conn.Close instead of the
// release of the handlers, under C03.
func longConn(prop string, ns []int, closeAtEnd bool) func(x *X) {
	return func(x *X) {
		mode := x.Choose(3)
		n := ns[x.Choose(len(ns))]
		so, co := srvOpts{bufSize: 64}, cliOpts{bufSize: 64}
		switch mode {
		case 1:
			co.pipelining = true // (a pipelining server would execute nothing behind the held handler)
		case 2:
			so.enc = "code"
		}
		f := newFixture(so, co)
		a := newUcall(0xA1, fGate, 33, formGo)
		a.done = make(chan *rpc.Call, 1)
		a.call = f.conn.Go(a.method, &a.args, &a.reply, a.done)
		ab := newUcall(0xA2, fGate, 21, formCallCtx)
		ab.hctx = newCtx(nil)
		ab.spawn(f.conn)
		vs.Quiesce()
		ab.hctx.cancel(context.Canceled)
		vs.Quiesce()
		if !ab.ret || ab.err != context.Canceled {
			x.Fail(prop+"/abandon-failed/long-connection", "CallWithContext: returned=%v err=%v", ab.ret, ab.err)
		}
		bad := 0
		for i := 0; i < n && bad < 3; i++ {
			c := newUcall(byte(1+i%150), 0, 2+(i*7)%40, formCall)
			c.args[1] = byte(i>>8) &^ (fGate | fErr | fDouble | fYield)
			c.issue(f.conn)
			if c.err != nil || !eqBytes(c.reply, c.want()) {
				bad++
				x.Fail(prop+"/wrong-reply/long-connection", "call number %d on a connection with one outstanding and one abandoned call: err=%v reply %x, want %x", i+1, c.err, c.reply, c.want())
			}
		}
		b := newUcall(0xA3, fGate, 33, formGo)
		b.done = make(chan *rpc.Call, 1)
		b.call = f.conn.Go(b.method, &b.args, &b.reply, b.done)
		vs.Quiesce()
		if closeAtEnd {
			f.conn.Close()
			vs.Quiesce()
			for _, c := range []*ucall{a, b} {
				select {
				case <-c.done:
					c.ret, c.err = true, c.call.Error
				default:
				}
				if !c.ret {
					x.Fail(prop+"/caller-hangs/long-connection", "call %#x, outstanding when the connection was closed after %d other calls, was never completed", c.tag, n)
				} else if c.err != rpc.ErrShutdown {
					x.Fail(prop+"/unexpected-error/long-connection", "call %#x completed with %v after Close, want ErrShutdown", c.tag, c.err)
				}
			}
			x.Outcome("mode=%d n=%d close", mode, n)
			f.w.open(0xA1)
			f.w.open(0xA2)
			f.w.open(0xA3)
			vs.Quiesce()
			return
		}
		f.w.open(0xA2) // the abandoned call is answered late
		vs.Quiesce()
		if len(a.done) > 0 || len(b.done) > 0 {
			x.Fail(prop+"/completed-early/long-connection", "a call completed although its handler is still held (after %d calls on the connection, when the late answer to an abandoned call arrived)", n)
		}
		f.w.open(0xA1)
		vs.Quiesce()
		if len(b.done) > 0 {
			x.Fail(prop+"/completed-early/long-connection", "a call completed although its handler is still held (after %d calls on the connection)", n)
		}
		f.w.open(0xA3)
		vs.Quiesce()
		for _, c := range []*ucall{a, b} {
			select {
			case <-c.done:
				c.ret, c.err = true, c.call.Error
			default:
			}
			if !c.ret {
				x.Fail(prop+"/never-completed/long-connection", "call %#x (outstanding across %d other calls) was never completed", c.tag, n)
			} else if c.err != nil {
				x.Fail(prop+"/call-failed/long-connection", "call %#x (outstanding across %d other calls) failed: %v", c.tag, n, c.err)
			} else if !eqBytes(c.reply, c.want()) {
				x.Fail(prop+"/wrong-reply/long-connection", "call %#x (outstanding across %d other calls) completed with another call's reply %x", c.tag, n, c.reply)
			}
		}
		if k := f.conn.NumCalls(); k > 1 { // (the abandoned call may still be counted)
			x.Fail(prop+"/calls-left-registered/long-connection", "NumCalls is %d after every call has completed", k)
		}
		x.Outcome("mode=%d n=%d", mode, n)
		f.conn.Close()
		vs.Quiesce()
	}
}

func init() {
	ns := []int{16382, 16383, 16400}
	for _, p := range []string{"C01", "C02", "C19"} {
		register(&Scenario{Prop: p, Name: "c" + p[1:] + "/long-connection", Quick: []Bound{{0, 0}}, Thorough: []Bound{{0, 0}}, Body: longConn(p, ns, false), MaxSteps: 8000000, BudgetQ: 30, MinHB: 1})
	}
	register(&Scenario{Prop: "C03", Name: "c03/long-connection-close", Quick: []Bound{{0, 0}}, Thorough: []Bound{{0, 0}}, Body: longConn("C03", ns, true), MaxSteps: 8000000, BudgetQ: 30, MinHB: 1})
	register(&Scenario{Prop: "C01", Name: "c01/long-connection-66000", Quick: []Bound{}, Thorough: []Bound{{0, 0}}, Body: longConn("C01", []int{65534, 65535, 66000}, false), MaxSteps: 40000000, BudgetT: 200, MinHB: 1})
}

// a local Close racing with responses: whatever a call returns then, if it returns without an
// error its reply is the one computed from its own arguments (a call that lost the race fails).
func c01CloseRace(x *X) {
	m := basicModes[x.Choose(len(basicModes))]
	f := newFixture(m.so, m.co)
	forms := []int{formCall, formGo, formCallCtx, formRoundTrip}
	fo := x.Choose(4)
	var calls []*ucall
	for i := 0; i < 3; i++ {
		flags := byte(0)
		if i == 0 {
			flags = fGate
		}
		c := newUcall(byte(i+1), flags, 12+20*i, forms[(fo+i)%4])
		c.spawn(f.conn)
		calls = append(calls, c)
	}
	vs.GoNamed("closer", func() { f.conn.Close() })
	vs.GoNamed("opener", func() { f.w.open(1) })
	vs.Quiesce()
	out := c01Check(x, calls, "close-race")
	for _, c := range calls {
		if !c.ret {
			x.Fail("C01/call-never-completes/close-race", "call %d did not return after Conn.Close", c.tag)
		}
	}
	x.Outcome("%s fo=%d%s", m.name, fo, out)
	f.w.open(1)
	vs.Quiesce()
}

func init() {
	register(&Scenario{Prop: "C01", Name: "c01/close-racing-responses", Quick: []Bound{{1, 0}}, Thorough: []Bound{{2, 0}}, Body: c01CloseRace, BudgetQ: 20})
}

// every combination of the I/O options of the two ends (server pipelining / direct I/O x client
// pipelining / direct I/O): options that are harmless one at a time can share state when set
// together.
var comboModes = func() []modeT {
	var ms []modeT
	for i := 0; i < 16; i++ {
		so := srvOpts{bufSize: 64, pipelining: i&1 != 0, directIO: i&2 != 0}
		co := cliOpts{bufSize: 64, pipelining: i&4 != 0, directIO: i&8 != 0}
		ms = append(ms, modeT{fmt.Sprintf("srv(pipe=%v,dio=%v)-cli(pipe=%v,dio=%v)", so.pipelining, so.directIO, co.pipelining, co.directIO), so, co})
	}
	return ms
}()

func init() {
	register(&Scenario{Prop: "C01", Name: "c01/2callers-option-combinations", Quick: []Bound{{1, 0}}, Thorough: []Bound{{2, 0}}, Body: c01Body(2, comboModes), BudgetQ: 30})
	register(&Scenario{Prop: "C01", Name: "c01/many-outstanding-option-combinations", Quick: []Bound{{0, 0}}, Thorough: []Bound{{1, 0}}, Body: c01Many(comboModes), MaxSteps: 200000, BudgetQ: 15, BudgetT: 200})
}

// a user Marshal that panics (a nil field dereferenced in generated code, ...): the panic unwinds through
// Call / Go / Ping into the caller, who recovers (any middleware does).  Whatever the library does with the
// Call object of that request, other calls - on this and on another connection, sharing the global pools -
// are each completed exactly once, with their own outcome: none is completed before its response has
// arrived, none gets another call's reply, also when the connection of the panicking call ends meanwhile.
type panicCodec struct{ inner rpc.Codec }

func (c panicCodec) Marshal(buf []byte, v interface{}) ([]byte, error) {
	if p, ok := v.(*[]byte); ok && len(*p) >= 2 && (*p)[0] == 0xEB && (*p)[1] == 0xEB {
		panic("user Marshal: nil pointer dereference")
	}
	return c.inner.Marshal(buf, v)
}
func (c panicCodec) Unmarshal(data []byte, v interface{}) error { return c.inner.Unmarshal(data, v) }
func panicBytesCodec() rpc.Codec                                { return panicCodec{&rpc.BYTESCodec{}} }

func c01PanickingMarshal(x *X) {
	form := []int{formCall, formCallCtx, formGo}[x.Choose(3)]
	end1 := x.Choose(3) // how the first connection ends: Close / the link dies / it stays
	so := srvOpts{bufSize: 64, codec: panicBytesCodec}
	f1 := newFixture(so, cliOpts{bufSize: 64})
	f2 := newFixture(so, cliOpts{bufSize: 64})
	ok1 := newUcall(1, 0, 20, formCall)
	ok1.issue(f1.conn)
	// 1. the panicking request on connection 1; the caller recovers
	recovered := false
	func() {
		defer func() {
			if r := recover(); r != nil {
				recovered = true
			}
		}()
		bad := newUcall(0xEB, 0xEB, 20, form)
		switch form {
		case formGo:
			f1.conn.Go(bad.method, &bad.args, &bad.reply, make(chan *rpc.Call, 1))
		case formCallCtx:
			f1.conn.CallWithContext(context.Background(), bad.method, &bad.args, &bad.reply)
		default:
			f1.conn.Call(bad.method, &bad.args, &bad.reply)
		}
	}()
	// 2. a slow call on connection 2
	y := newUcall(0x21, fGate, 24, formCall)
	y.spawn(f2.conn)
	vs.Quiesce()
	// 3. connection 1 ends
	switch end1 {
	case 0:
		f1.conn.Close()
	case 1:
		f1.cl.Kill()
	}
	vs.Quiesce()
	if y.ret {
		x.Fail("C01/completed-without-response", "a call on a healthy connection returned (%v) while its handler was still running, after another connection - on which a request had panicked in the user's Marshal (%s, recovered %v) - ended", y.err, formNames[form], recovered)
	}
	// 4. another slow call, then the first one is answered
	z := newUcall(0x22, fGate, 28, formCall)
	z.spawn(f2.conn)
	vs.Quiesce()
	f2.w.open(0x21)
	vs.Quiesce()
	if z.ret {
		x.Fail("C01/completed-without-response", "call Z returned (err %v, reply %.12x) while its handler was still running, when call Y was answered", z.err, z.reply)
	}
	f2.w.open(0x22)
	vs.Quiesce()
	for _, c := range []*ucall{y, z} {
		if !c.ret {
			x.Fail("C01/call-never-completed/panicking-marshal", "call %x never returned", c.tag)
		} else if c.err != nil || !eqBytes(c.reply, c.want()) {
			x.Fail("C01/wrong-outcome/panicking-marshal", "call %x on the healthy connection: err=%v reply=%.12x want %.12x", c.tag, c.err, c.reply, c.want())
		}
	}
	for tag, n := range f2.w.execs {
		if n != 1 {
			x.Fail("C01/executed-twice", "request %x was executed %d times", tag, n)
		}
	}
	after := newUcall(0x23, 0, 20, formCall)
	after.issue(f2.conn)
	if after.err != nil || !eqBytes(after.reply, after.want()) {
		x.Fail("C01/wrong-outcome/panicking-marshal", "a later call: err=%v", after.err)
	}
	x.Outcome("form=%d end=%d recovered=%v", form, end1, recovered)
	f1.conn.Close()
	f2.conn.Close()
	vs.Quiesce()
}

func init() {
	register(&Scenario{Prop: "C01", Name: "c01/panicking-user-marshal", Quick: []Bound{{0, 0}, {1, 0}}, Thorough: []Bound{{2, 0}}, Body: c01PanickingMarshal, MaxSteps: 200000, BudgetQ: 20})
}
