package main

import (
	"fmt"

	vs "verif/shim/vsync"
)

// C01 — a successful call gets the reply computed from its own arguments.
//
// Closed system: 1-2 client Conns against a real Server.ServeCodec over message pipes, 2-3
// concurrent callers with distinct tags / sizes (one larger than every buffer, one whose reply is
// twice the request) in driver-chosen call forms, gated handlers released in a driver-chosen
// order, all header encoders and I/O modes; follow-up sequential calls afterwards.

var c01Sizes = []int{5, 200, 64, 65}
var c01Flags = []byte{fGate, fGate | fDouble, fGate, fGate}

func c01Check(x *X, calls []*ucall, what string) string {
	out := ""
	for _, c := range calls {
		switch {
		case !c.ret:
			out += fmt.Sprintf(" %d:blocked", c.tag)
		case c.err != nil:
			out += fmt.Sprintf(" %d:err(%s)", c.tag, errStr(c.err))
		case c.form == formPing:
			out += fmt.Sprintf(" %d:pong", c.tag)
		case !eqBytes(c.reply, c.want()):
			x.Fail("C01/wrong-reply/"+what, "call tag %d (%s, %d bytes) completed without error but its reply is %s %.40x, want %s %.40x", c.tag, formNames[c.form], c.size, digest(c.reply), c.reply, digest(c.want()), c.want())
			out += fmt.Sprintf(" %d:WRONG", c.tag)
		default:
			out += fmt.Sprintf(" %d:ok", c.tag)
		}
	}
	return out
}

func c01Body(ncallers int, modes []modeT) func(x *X) {
	ps := perms(ncallers)
	return func(x *X) {
		m := modes[x.Choose(len(modes))]
		formOff := x.Choose(4)
		order := ps[x.Choose(len(ps))]
		f := newFixture(m.so, m.co)
		forms := []int{formCall, formGo, formCallCtx, formRoundTrip}
		var calls []*ucall
		for i := 0; i < ncallers; i++ {
			c := newUcall(byte(i+1), c01Flags[i], c01Sizes[i], forms[(i+formOff)%4])
			calls = append(calls, c)
			c.spawn(f.conn)
		}
		vs.GoNamed("releaser", func() {
			for _, i := range order {
				f.w.open(byte(i + 1))
				vs.Yield()
			}
		})
		vs.Quiesce()
		out := m.name + c01Check(x, calls, "concurrent")
		// follow-up traffic on the same connection
		var later []*ucall
		for j := 0; j < 2; j++ {
			c := newUcall(byte(0x20+j), 0, 30+70*j, formCall)
			c.issue(f.conn)
			later = append(later, c)
		}
		out += " later:" + c01Check(x, later, "followup") + c01Check(x, calls, "after-followup")
		x.Outcome("%s", out)
		f.conn.Close()
		vs.Quiesce()
	}
}

// two connections served by one Server: replies must not cross connections.
func c01TwoConns(x *X) {
	m := basicModes[x.Choose(3)]
	w := newWorld()
	srv := newServer(w, m.so)
	var conns []*fixture
	for k := 0; k < 2; k++ {
		f := &fixture{w: w, so: m.so, srv: srv}
		f.cl, f.sv = NewPipe()
		serveCodec(srv, f.sv, m.so)
		f.conn = newConn(f.cl, m.so.enc, 64, nil)
		conns = append(conns, f)
	}
	var calls []*ucall
	for k, f := range conns {
		for i := 0; i < 2; i++ {
			// both connections use the same sequence numbers 0,1 with different payloads
			c := newUcall(byte(1+2*k+i), 0, []int{7, 150}[i]+k, formCall)
			calls = append(calls, c)
			c.spawn(f.conn)
		}
	}
	vs.Quiesce()
	x.Outcome("%s", m.name+c01Check(x, calls, "two-conns"))
	for _, f := range conns {
		f.conn.Close()
	}
	vs.Quiesce()
}

func init() {
	register(&Scenario{Prop: "C01", Name: "c01/2callers-allmodes", Quick: []Bound{{1, 0}, {2, 0}}, Thorough: []Bound{{2, 0}, {3, 0}}, Body: c01Body(2, basicModes), BudgetQ: 35})
	register(&Scenario{Prop: "C01", Name: "c01/3callers", Quick: []Bound{{1, 0}}, Thorough: []Bound{{2, 0}}, Body: c01Body(3, basicModes[:5])})
	register(&Scenario{Prop: "C01", Name: "c01/two-conns", Quick: []Bound{{1, 0}, {2, 0}}, Thorough: []Bound{{3, 0}}, Body: c01TwoConns})
}

// frame sizes around the pooled buffer size: two concurrent callers whose request and reply
// frames are 3..12 bytes longer than a body of 44..73 bytes (the buffers hold 64), so every frame
// length from below to above the buffer capacity — including exactly the capacity — occurs in
// both directions, with a second frame right behind the first.
func c01Boundary(modes []modeT) func(x *X) {
	return func(x *X) {
		m := modes[x.Choose(len(modes))]
		size := 44 + x.Choose(30)
		double := x.Choose(2) == 1
		f := newFixture(m.so, m.co)
		flags := byte(0)
		if double {
			flags = fDouble
		}
		a := newUcall(1, flags, size, formCall)
		b := newUcall(2, flags, size, formGo)
		a.spawn(f.conn)
		b.spawn(f.conn)
		vs.Quiesce()
		out := c01Check(x, []*ucall{a, b}, "frame-boundary")
		if !a.ret || !b.ret || a.err != nil || b.err != nil {
			x.Fail("C01/call-failed/frame-boundary", "two %d-byte calls (mode %s): returned=%v/%v err=%v/%v", size, m.name, a.ret, b.ret, a.err, b.err)
		}
		c := newUcall(3, flags, size, formCall)
		c.issue(f.conn)
		out += c01Check(x, []*ucall{c}, "frame-boundary")
		x.Outcome("%s size=%d double=%v%s", m.name, size, double, out)
		f.conn.Close()
		vs.Quiesce()
	}
}

func init() {
	register(&Scenario{Prop: "C01", Name: "c01/frame-boundary", Quick: []Bound{{0, 0}, {1, 0}}, Thorough: []Bound{{2, 0}}, Body: c01Boundary(basicModes), BudgetQ: 20})
}
