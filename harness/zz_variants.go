package main

// Unlock-point variants: the same closed systems explored with a scheduling point after every lock
// release (see vsync.Config.UnlockPoints).  The plain reads and writes a thread performs right
// after leaving a critical section — on an object it has just published in a shared table, say —
// can then interleave with the other threads, which the default placement of scheduling points
// (before synchronisation operations only) treats as one atomic step.  Deviation bound 1 in the
// quick tier, 2 in the thorough tier.  (This file sorts last so that its init runs after every
// scenario has been registered.)
var unlockVariants = []string{
	"c01/2callers-allmodes", "c01/caller-continues-after-abandoned-call-pipelined",
	"c02/raw-1call-close", "c04/raw-allmodes", "c05/3calls", "c06/failing-call-abandoned",
	"c09/1stream-servecodec", "c10/servecodec", "c10/servecodec-clientpipelining",
	"c13/concurrent", "c14/concurrent", "c15/concurrent-first-callers", "c16/concurrent",
	"c18/wake-2", "c18/close-2", "c19/1abandoned", "c19/pipelined-client", "c20/conn-server",
}

func init() {
	for _, n := range unlockVariants {
		base := findScenario(n)
		if base == nil {
			panic("unlock variant of unknown scenario " + n)
		}
		v := *base
		v.Name = n + "-unlock-points"
		v.UnlockPoints = true
		v.Quick = []Bound{{1, 0}}
		v.Thorough = []Bound{{2, 0}}
		v.BudgetQ, v.BudgetT = 15, 120
		register(&v)
	}
}

// Map-order variants: Go leaves the iteration order of maps unspecified; these variants make the
// order of every instrumented map range an environment choice (fault bound 1 in the quick tier:
// one walk deviates from the canonical order; 2 in the thorough tier).
var mapOrderVariants = []string{
	"c13/seq-L4", "c14/two-hosts-L4", "c15/seq-L4", "c16/leasttime-shrink", "c16/concurrent", "c18/swap-3targets", "c18/failover", "c20/transport-histories-L3",
}

func init() {
	for _, n := range mapOrderVariants {
		base := findScenario(n)
		if base == nil {
			panic("map-order variant of unknown scenario " + n)
		}
		v := *base
		v.Name = n + "-map-order"
		v.MapOrder = true
		v.Quick = []Bound{{0, 1}}
		v.Thorough = []Bound{{0, 2}, {1, 1}}
		v.BudgetQ, v.BudgetT = 15, 120
		register(&v)
	}
}

// High-sequence-number variants: the connection has already made 126 / 16382 / 2097150 /
// 2^32-2 calls, so that the sequence numbers of the scenario's calls cross a varint length
// boundary (and a 32-bit boundary).
var highSeqVariants = []string{
	"c01/2callers-allmodes", "c02/raw-2calls", "c04/raw-allmodes", "c05/3calls", "c06/failing-call-abandoned", "c09/1stream-servecodec", "c10/servecodec", "c19/1abandoned",
}

func init() {
	for _, n := range highSeqVariants {
		base := findScenario(n)
		if base == nil {
			panic("high-seq variant of unknown scenario " + n)
		}
		v := *base
		v.Name = n + "-high-seq"
		v.SeqBases = []uint64{126, 16382, 2097150, 1<<32 - 2}
		v.Quick = []Bound{{0, 0}, {1, 0}}
		if n == "c02/raw-2calls" || n == "c04/raw-allmodes" || n == "c09/1stream-servecodec" {
			v.Quick = []Bound{{0, 0}} // the costly ones: deviation bound 1 in the thorough tier only
		}
		v.Thorough = []Bound{{1, 0}, {2, 0}}
		v.BudgetQ, v.BudgetT = 15, 120
		register(&v)
	}
}

// Map-race variants: the same closed systems with vector clocks and reported map accesses
// (vsync.Config.MapRaces, shim/vsync/race.go): two goroutines touching one of the library's maps
// without synchronisation — the Go runtime's unrecoverable "concurrent map writes" / "concurrent
// map read and map write" — is reported as fatal/concurrent-map-access/<function>.
var mapRaceVariants = []string{
	"c02/raw-1call-close", "c03/cuts-servecodec", "c04/raw-allmodes", "c09/1stream-servecodec", "c10/servecodec", "c10/open-then-disconnect",
	"c13/concurrent", "c14/concurrent", "c15/concurrent-first-callers", "c16/concurrent", "c18/wake-2", "c18/close-2", "c19/1abandoned", "c20/conn-server", "c20/transport-server",
}

func init() {
	for _, n := range mapRaceVariants {
		base := findScenario(n)
		if base == nil {
			panic("map-race variant of unknown scenario " + n)
		}
		v := *base
		v.Name = n + "-map-races"
		v.MapRaces = true
		v.Quick = []Bound{{1, 0}}
		v.Thorough = []Bound{{2, 0}}
		v.BudgetQ, v.BudgetT = 15, 120
		register(&v)
	}
}
