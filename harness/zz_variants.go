package main

// Unlock-point variants: the same closed systems explored with a scheduling point after every lock
// release (see vsync.Config.UnlockPoints).  The plain reads and writes a thread performs right
// after leaving a critical section — on an object it has just published in a shared table, say —
// can then interleave with the other threads, which the default placement of scheduling points
// (before synchronisation operations only) treats as one atomic step.  Deviation bound 1 in the
// quick tier, 2 in the thorough tier.  (This file sorts last so that its init runs after every
// scenario has been registered.)
var unlockVariants = []string{
	"c01/2callers-allmodes", "c01/caller-continues-after-abandoned-call-pipelined",
	"c02/raw-1call-close", "c04/raw-allmodes", "c05/3calls", "c06/failing-call-abandoned",
	"c09/1stream-servecodec", "c10/servecodec", "c10/servecodec-clientpipelining",
	"c13/concurrent", "c14/concurrent", "c15/concurrent-first-callers", "c16/concurrent",
	"c18/wake-2", "c18/close-2", "c19/1abandoned", "c19/pipelined-client", "c20/conn-server",
}

func init() {
	for _, n := range unlockVariants {
		base := findScenario(n)
		if base == nil {
			panic("unlock variant of unknown scenario " + n)
		}
		v := *base
		v.Name = n + "-unlock-points"
		v.UnlockPoints = true
		v.Quick = []Bound{{1, 0}}
		v.Thorough = []Bound{{2, 0}}
		v.BudgetQ, v.BudgetT = 15, 120
		register(&v)
	}
}
