package main

import (
	"context"
	"fmt"
	"io"
	"reflect"
	"time"

	"github.com/hslam/rpc"
	vs "verif/shim/vsync"
	vt "verif/shim/vtime"
)

// ---- Transport harness (C13, C14, C15): a real Transport over the fake network against real
// servers at two addresses, virtual clock, driver-enumerated event sequences.

const (
	tKeepAlive = 1500 * time.Millisecond
	tIdle      = 3 * time.Second
	tTick      = time.Second // the Transport's housekeeping period (defaultRunTicker)
)

type trSys struct {
	x        *X
	n        *FakeNet
	w        map[string]*World
	srv      map[string]*rpc.Server
	up       map[string]bool
	tr       *rpc.Transport
	maxConns int
	maxIdle  int
	effConns int
	effIdle  int
	// C14 bookkeeping
	deadBudget map[string]int
	nextTag    byte
	log        []string
	long       []*trLong
	streams    []*trStream
	prop       string
	violated   bool
	keep       bool // stalled threads stay stalled across driver events
	kills      int
	nbusy      int           // long calls started and not yet released
	idle       time.Duration // the Transport's IdleConnTimeout
	// per-connection use, seen from outside (C15): when a user request last went out on it, and how
	// many requests sent on it are unanswered / streams open
	lastUse   map[int]time.Duration
	busyOn    map[int]int
	abandoned []*ucall // calls given up by their callers whose handlers have not answered yet
	abConn    map[byte]int
}

// sent snapshots the number of client-to-server frames per connection.
func (t *trSys) sent() map[int]int {
	m := map[int]int{}
	for _, c := range t.n.conns {
		k := 0
		for _, f := range c.end.p.wire {
			if f.Dir == 0 {
				k++
			}
		}
		m[c.id] = k
	}
	return m
}

// used marks the connections that carried a frame since the snapshot; it returns the id of one of them (-1: none).
func (t *trSys) used(before map[int]int) int {
	id := -1
	for _, c := range t.n.conns {
		k := 0
		for _, f := range c.end.p.wire {
			if f.Dir == 0 {
				k++
			}
		}
		if k > before[c.id] {
			t.lastUse[c.id] = vt.Elapsed()
			id = c.id
		}
	}
	return id
}

// checkUnused (C15, second clause): a connection on which no user request has gone out for a bounded time,
// and which has nothing outstanding, is closed.  The bound is KeepAlive + MaxConnsPerHost x IdleConnTimeout +
// three housekeeping periods, which is what the pool's policy supports: the idle sweep looks at the newest
// entry of a host's idle queue only (an older entry behind it is closed when the newest one expires), and
// calls take connections from the old end of the queue, so while calls go on every pooled connection is
// used in turn and none stays unused for longer than a rotation; when the calls stop, the newest entry
// expires.  What the property excludes is a connection that is neither used nor closed for good.
func (t *trSys) checkUnused() {
	if t.prop != "C15" || t.keep || trKeepAlive > time.Hour || trIdle > time.Hour || t.idle > time.Hour { // (the "forever" durations of c15/forever-durations)
		return
	}
	limit := trKeepAlive + time.Duration(t.effConns)*t.idle + 3*tTick
	for _, c := range t.n.conns {
		if c.end.p.closed[0] || c.end.p.closed[1] || c.end.p.dead || c.end.p.reset || t.busyOn[c.id] > 0 {
			continue
		}
		if lu, ok := t.lastUse[c.id]; ok && vt.Elapsed()-lu > limit {
			t.x.Fail("C15/unused-connection-kept", "connection %d to %q has carried no request for %v and is still open (KeepAlive %v, IdleConnTimeout %v, housekeeping period %v); events: %v", c.id, c.addr, vt.Elapsed()-lu, trKeepAlive, t.idle, tTick, t.log)
		}
	}
}

func (t *trSys) settle() {
	if t.keep {
		vs.QuiesceKeep()
	} else {
		vs.Quiesce()
	}
}

type trLong struct {
	c        *ucall
	addr     string
	kills    int // number of kills when it was started
	budget0  int // dead pooled connections not yet used up when it was started
	judged   bool
	conn     int // the connection that carried its request (-1: unknown)
	released bool
}

type trStream struct {
	st   rpc.Stream
	addr string
	n    int
	conn int
}

func newTrSys(x *X, prop string, maxConns, maxIdle int) *trSys {
	t := &trSys{x: x, prop: prop, n: newNet(), w: map[string]*World{}, srv: map[string]*rpc.Server{}, up: map[string]bool{}, deadBudget: map[string]int{}, maxConns: maxConns, maxIdle: maxIdle, nextTag: 1, lastUse: map[int]time.Duration{}, busyOn: map[int]int{}, abConn: map[byte]int{}}
	t.effConns, t.effIdle = maxConns, maxIdle
	t.idle = trIdle
	if t.effConns < 1 {
		t.effConns = rpc.DefaultMaxConnsPerHost
	}
	if t.effIdle < 1 {
		t.effIdle = rpc.DefaultMaxIdleConnsPerHost
	} else if t.effIdle > t.effConns {
		t.effIdle = t.effConns
	}
	for _, a := range []string{"a", "b"} {
		t.w[a] = newWorld()
		t.start(a)
	}
	vs.Quiesce()
	so := trSrvOpts
	t.tr = &rpc.Transport{MaxConnsPerHost: maxConns, MaxIdleConnsPerHost: maxIdle, KeepAlive: trKeepAlive, IdleConnTimeout: trIdle, Options: so.options(t.n, 64)}
	t.n.onDial = func(addr string) { t.checkLimits("at dial") }
	return t
}

func (t *trSys) start(a string) {
	srv, _ := startListener(t.n, t.w[a], a, trSrvOpts, false)
	t.srv[a] = srv
	t.up[a] = true
}

func (t *trSys) idleLen(addr string) (int, bool) {
	defer func() { recover() }()
	v := reflect.ValueOf(t.tr).Elem().FieldByName("idleConns")
	if !v.IsValid() || v.Kind() != reflect.Map {
		return 0, false
	}
	q := v.MapIndex(reflect.ValueOf(addr))
	if !q.IsValid() || q.IsNil() {
		return 0, true
	}
	l := q.Elem().FieldByName("length")
	if !l.IsValid() {
		return 0, false
	}
	return int(l.Int()), true
}

// checkLimits is the C13 oracle, evaluated at every dial and at every quiescent point.
func (t *trSys) checkLimits(when string) {
	for _, a := range []string{"a", "b"} {
		// connections the peer has already closed are dead sockets waiting for their owner's Close: not counted
		live := 0
		for _, c := range t.n.conns {
			if c.addr == a && !c.end.p.closed[0] && !c.end.p.closed[1] && !c.end.p.dead && !c.end.p.reset {
				live++
			}
		}
		if live > t.effConns {
			t.x.Fail("C13/max-conns-exceeded", "%d connections to %q are open %s, MaxConnsPerHost is %d (configured %d); events so far: %v", live, a, when, t.effConns, t.maxConns, t.log)
		}
		if n, ok := t.idleLen(a); ok && n > t.effIdle {
			t.x.Fail("C13/max-idle-exceeded", "%d idle connections to %q %s, MaxIdleConnsPerHost is %d (configured %d); events so far: %v", n, a, when, t.effIdle, t.maxIdle, t.log)
		}
	}
}

func (t *trSys) tag() byte { t.nextTag++; return t.nextTag }

// call issues one sequential call and applies the C14 oracle.
func (t *trSys) call(addr string, form int) error {
	tag := t.tag()
	c := newUcall(tag, 0, 10+int(tag)%50, form)
	t0 := vt.Elapsed()
	before := t.sent()
	defer func() { t.used(before) }()
	var err error
	switch form {
	case formPing:
		err = t.tr.Ping(addr)
	case formGo:
		done := make(chan *rpc.Call, 1)
		call := t.tr.Go(addr, c.method, &c.args, &c.reply, done)
		recvCall(done)
		err = call.Error
	default:
		err = t.tr.Call(addr, c.method, &c.args, &c.reply)
	}
	t.log = append(t.log, fmt.Sprintf("call(%s)=%s", addr, errStr(err)))
	other := "b"
	if addr == "b" {
		other = "a"
	}
	if t.w[other].execs[tag] > 0 {
		t.x.Fail("C14/wrong-address", "a call for address %q was executed by the server at %q; events: %v", addr, other, t.log)
	}
	if vt.Elapsed() != t0 {
		t.x.Fail("C14/call-needs-time", "a call advanced the virtual clock")
	}
	switch {
	case err == nil:
		if form != formPing && (!eqBytes(c.reply, c.want()) || t.w[addr].execs[tag] != 1) {
			t.x.Fail("C14/wrong-reply", "call to %q returned a wrong reply or ran %d times", addr, t.w[addr].execs[tag])
		}
		if !t.up[addr] {
			t.x.Fail("C14/success-while-down", "a call to %q succeeded although its server is down", addr)
		}
	case err == rpc.ErrDial:
		if t.up[addr] {
			t.x.Fail("C14/errdial-while-up", "a call to %q failed with ErrDial although the server is reachable; events: %v", addr, t.log)
		}
	case t.keep && (err == io.EOF || err == errBrokenPipe):
		// a stalled reader has not noticed the loss yet: the write error of the call itself, not judged
	case err == rpc.ErrShutdown || err == io.EOF || err == errBrokenPipe:
		if t.deadBudget[addr] <= 0 {
			t.x.Fail("C14/dead-connection-reused", "a call to %q failed with %q but every connection that was pooled when the server died has already failed once: a dead connection was handed out again; events: %v", addr, err.Error(), t.log)
		}
		t.deadBudget[addr]--
	default:
		t.x.Fail("C14/unexpected-error", "call to %q failed with %q; events: %v", addr, err.Error(), t.log)
	}
	return err
}

func (t *trSys) kill(addr string) {
	if !t.up[addr] {
		return
	}
	t.srv[addr].Close()
	t.up[addr] = false
	t.kills++
	// the server is really gone: its listener has stopped and it has closed every accepted connection
	// (independent of client-side threads that may be stalled)
	if t.keep {
		// a server-side thread may be among the stalled ones (a connection accepted just before Close and not yet
		// registered survives Server.Close until its peer goes): the server process is killed, its sockets are closed
		t.settle()
		for _, c := range t.n.conns {
			if c.addr == addr && !c.end.p.closed[1] && !c.end.p.closed[0] && !c.end.p.dead {
				c.end.Kill()
			}
		}
	}
	vs.Block("wait for the server to be down", func() bool {
		if l := t.n.lis[addr]; l != nil && !l.closed {
			return false
		}
		for _, c := range t.n.conns {
			if c.addr == addr && !c.end.p.closed[1] && !c.end.p.closed[0] && !c.end.p.dead {
				return false
			}
		}
		return true
	})
	t.settle()
	t.deadBudget[addr] = t.n.live[addr]
	t.log = append(t.log, "kill("+addr+")")
}

func (t *trSys) restart(addr string) {
	if t.up[addr] {
		return
	}
	t.start(addr)
	// until the server has registered its listener and accepts (a Close issued before that has no effect on it)
	vs.Block("wait for the listener", func() bool { l := t.n.lis[addr]; return l != nil && !l.closed && l.accepting })
	t.settle()
	t.log = append(t.log, "restart("+addr+")")
}

func (t *trSys) advance(d time.Duration, what string) {
	// advance in housekeeping periods so that every tick is observed
	for d > 0 {
		step := tTick
		if d < step {
			step = d
		}
		vt.Advance(step)
		t.settle()
		t.checkLimits("after a tick")
		t.checkAbandoned("by a housekeeping tick")
		t.checkUnused()
		d -= step
	}
	t.log = append(t.log, what)
}

func (t *trSys) longCall(addr string) {
	c := newUcall(t.tag(), fGate, 30, formCall)
	l := &trLong{c: c, addr: addr, kills: t.kills, budget0: t.deadBudget[addr]}
	t.long = append(t.long, l)
	t.nbusy++
	before := t.sent()
	vs.GoNamed("longcall", func() {
		c.err = t.tr.Call(addr, c.method, &c.args, &c.reply)
		c.ret = true
	})
	t.settle()
	if id := t.used(before); id >= 0 {
		t.busyOn[id]++
		l.conn = id
	} else {
		l.conn = -1
	}
	t.log = append(t.log, "long("+addr+")")
}

func (t *trSys) openStream(addr string) {
	before := t.sent()
	st, err := t.tr.NewStream(addr, "StreamSvc.Push")
	id := t.used(before)
	t.log = append(t.log, "stream("+addr+")="+errStr(err))
	if err == nil {
		t.streams = append(t.streams, &trStream{st: st, addr: addr, conn: id})
		if id >= 0 {
			t.busyOn[id]++
		}
	}
}

// quiet: nothing is in flight or open on any pooled connection and no server was ever killed
func (t *trSys) quiet() bool { return t.nbusy == 0 && len(t.streams) == 0 && t.kills == 0 && !t.keep } // (with stalled threads kept across events the housekeeping itself may be the stalled one)

// checkQuiet: after a period longer than KeepAlive in which the Transport was not used at all, every
// connection has been retired; at most MaxIdleConnsPerHost per host may still be open (in the idle
// queue), the surplus has been closed.  (The C13 idle limit, judged from outside: open connections.)
func (t *trSys) checkQuiet(wasQuiet bool, what string) {
	if !wasQuiet || t.prop != "C13" {
		return
	}
	for _, a := range []string{"a", "b"} {
		if t.n.live[a] > t.effIdle {
			t.x.Fail("C13/max-idle-exceeded", "%d connections to %q are open after more than %s without any use, MaxIdleConnsPerHost is %d (configured %d, MaxConnsPerHost %d); events so far: %v", t.n.live[a], a, what, t.effIdle, t.maxIdle, t.maxConns, t.log)
		}
	}
}

func (t *trSys) release() {
	t.nbusy = 0
	for _, l := range t.long {
		t.w[l.addr].open(l.c.tag)
		if l.conn >= 0 && !l.released {
			t.busyOn[l.conn]--
			t.lastUse[l.conn] = vt.Elapsed()
		}
		l.released = true
	}
	for _, c := range t.abandoned {
		t.w["a"].open(c.tag)
		if id, ok := t.abConn[c.tag]; ok {
			t.busyOn[id]--
			t.lastUse[id] = vt.Elapsed()
			delete(t.abConn, c.tag)
		}
	}
	t.abandoned = nil
	vs.Quiesce()
	for _, l := range t.long {
		if o := map[string]string{"a": "b", "b": "a"}[l.addr]; l.c.ret && !l.judged && t.w[o].execs[l.c.tag] > 0 {
			t.x.Fail("C14/wrong-address", "a call for address %q was executed by the server at %q; events: %v", l.addr, o, t.log)
		}
		if l.c.ret {
			l.judged = true
		}
	}
	t.log = append(t.log, "release")
}

// finish: C15 and C20-style final oracles.
func (t *trSys) finish(judgeBusy bool) {
	x := t.x
	if judgeBusy {
		for _, s := range t.streams {
			if !t.up[s.addr] {
				continue
			}
			m := streamMsg(0x31, s.n)
			var r []byte
			e1 := s.st.WriteMessage(&m)
			var e2 error
			done := false
			vs.GoNamed("streamcheck", func() { e2 = s.st.ReadMessage(nil, &r); done = true })
			vs.Quiesce()
			if e1 != nil || !done || e2 != nil || !eqBytes(r, transform(m)) {
				x.Fail("C15/busy-connection-closed/stream", "an open stream stopped working after housekeeping (write=%v read done=%v err=%v); events: %v", e1, done, e2, t.log)
			}
		}
		t.release()
		for _, l := range t.long {
			if !t.up[l.addr] {
				continue
			}
			if !l.c.ret || l.c.err != nil || !eqBytes(l.c.reply, l.c.want()) {
				x.Fail("C15/busy-connection-closed/call", "a call in flight across housekeeping ended with returned=%v err=%v; events: %v", l.c.ret, l.c.err, t.log)
			}
		}
	} else {
		t.release()
		if t.prop == "C14" {
			for _, l := range t.long {
				if l.kills == t.kills && t.up[l.addr] && (!l.c.ret || l.c.err != nil) {
					// started on a live server that was never killed afterwards
					if (l.c.err == rpc.ErrShutdown || l.c.err == io.EOF || l.c.err == errBrokenPipe) && l.budget0 > 0 {
						// it may have been handed a pooled connection that had died but not yet failed a call
						continue
					}
					x.Fail("C14/call-on-live-server-failed", "a call started while %q was reachable (and never killed afterwards) ended with returned=%v err=%v; events: %v", l.addr, l.c.ret, l.c.err, t.log)
				}
			}
		}
	}
	for _, s := range t.streams {
		s.st.Close()
	}
	t.checkLimits("at the end")
}

const (
	evCallA = iota
	evCallB
	evPingA
	evGoA
	evLongA
	evStreamA
	evRelease
	evTick
	evPastKeepAlive
	evPastIdle
	evCloseIdle
	evKillA
	evRestartA
	evCloseStream
	evRefusedStreamA
	evManyLongA
	evManyLongB
	evReleaseKeep
	evAbandonA
	evCall2A
	evBurstB
	evCutNewestA
	evCutOldestA
	nTrEvents
)

var trEvNames = []string{"call(a)", "call(b)", "ping(a)", "go(a)", "long(a)", "stream(a)", "release", "tick", ">keepalive", ">idle", "closeidle", "kill(a)", "restart(a)", "closestream", "refused-stream(a)", "many-long(a)", "many-long(b)", "release-keep", "abandon(a)", "call-call(a)", "burst(b)", "cut-newest(a)", "cut-oldest(a)"}

func (t *trSys) do(ev int) {
	switch ev {
	case evCallA:
		t.call("a", formCall)
	case evCallB:
		t.call("b", formCall)
	case evPingA:
		t.call("a", formPing)
	case evGoA:
		t.call("a", formGo)
	case evLongA:
		if t.up["a"] && t.nbusy < 2 {
			t.longCall("a")
		}
	case evStreamA:
		if t.up["a"] && len(t.streams) < 1 {
			t.openStream("a")
		}
	case evRelease:
		t.release()
	case evTick:
		t.advance(tTick, "tick")
	case evPastKeepAlive:
		quiet := t.quiet()
		t.advance(tKeepAlive+tTick, ">keepalive")
		t.checkQuiet(quiet, "KeepAlive")
	case evPastIdle:
		quiet := t.quiet()
		t.advance(t.idle+tTick, ">idle")
		t.checkQuiet(quiet, "IdleConnTimeout")
	case evCloseIdle:
		t.tr.CloseIdleConnections()
		vs.Quiesce()
		t.log = append(t.log, "closeidle")
	case evKillA:
		t.kill("a")
	case evRestartA:
		t.restart("a")
	case evManyLongA:
		// as many concurrent long calls as MaxConnsPerHost allows connections, plus one
		if t.up["a"] && t.nbusy == 0 {
			for i := 0; i < t.effConns+1 && i < 12; i++ {
				t.longCall("a")
			}
		}
	case evManyLongB:
		if t.up["b"] && t.nbusy == 0 {
			for i := 0; i < t.effConns+1 && i < 12; i++ {
				t.longCall("b")
			}
		}
	case evAbandonA:
		// a CallWithContext whose request has reached a held handler is given up by its caller: the request stays
		// sent and unanswered (the connection is busy, C15) until the handlers are released
		if t.up["a"] && len(t.abandoned) < 2 {
			c := newUcall(t.tag(), fGate, 24, formCallCtx)
			c.hctx = newCtx(nil)
			before := t.sent()
			vs.GoNamed("abandoning-caller", func() {
				c.err = t.tr.CallWithContext(c.hctx, "a", c.method, &c.args, &c.reply)
				c.ret = true
			})
			t.settle()
			id := t.used(before)
			c.hctx.cancel(context.Canceled)
			t.settle()
			if !c.ret || c.err != context.Canceled {
				t.x.Fail(t.prop+"/abandon-failed", "Transport.CallWithContext with a cancelled context: returned=%v err=%v; events: %v", c.ret, c.err, t.log)
			}
			if id >= 0 && t.w["a"].execs[c.tag] == 1 {
				t.abandoned = append(t.abandoned, c)
				t.abConn[c.tag] = id
				t.busyOn[id]++
				t.nbusy++
			}
			t.log = append(t.log, fmt.Sprintf("abandon(a)@conn%d", id))
		}
	case evCutNewestA, evCutOldestA:
		// the peer closes ONE pooled connection to a (the one dialled last / first that is still open): the server stays up
		for k := len(t.n.conns) - 1; k >= 0; k-- {
			i := k
			if ev == evCutOldestA {
				i = len(t.n.conns) - 1 - k
			}
			c := t.n.conns[i]
			if c.addr == "a" && !c.end.p.closed[0] && !c.end.p.closed[1] && !c.end.p.dead && !c.end.p.reset {
				for _, sc := range t.n.lis["a"].accepted {
					if sc.id == c.id {
						sc.end.Close()
					}
				}
				t.settle()
				t.deadBudget["a"]++
				t.log = append(t.log, fmt.Sprintf("cut(conn%d)", c.id))
				break
			}
		}
	case evBurstB:
		// as many concurrent calls to b as it may have connections, all answered at once
		if t.up["b"] && t.nbusy == 0 {
			for i := 0; i < t.effConns && i < 12; i++ {
				t.longCall("b")
			}
			t.release()
		}
	case evCall2A:
		// a sequential caller: two calls one right after the other (nothing else gets to run in between
		// unless the explorer says so)
		t.call("a", formCall)
		t.call("a", formCall)
	case evReleaseKeep:
		// the held handlers answer; threads the explorer has stalled stay stalled (a caller whose reply has
		// arrived and who has not yet returned into the Transport)
		t.nbusy = 0
		for _, l := range t.long {
			t.w[l.addr].open(l.c.tag)
		}
		t.log = append(t.log, "release-keep")
	case evRefusedStreamA:
		// a stream the server refuses (unknown method): nothing stays open on the connection
		if t.up["a"] {
			_, err := t.tr.NewStream("a", "Nope.Nope")
			t.log = append(t.log, "refused-stream(a)="+errStr(err))
			if err == nil {
				t.x.Fail(t.prop+"/refused-stream-opened", "NewStream for an unknown method returned no error")
			}
		}
	case evCloseStream:
		if n := len(t.streams); n > 0 {
			err := t.streams[n-1].st.Close()
			if id := t.streams[n-1].conn; id >= 0 {
				t.busyOn[id]--
				t.lastUse[id] = vt.Elapsed()
			}
			t.streams = t.streams[:n-1]
			t.log = append(t.log, "closestream="+errStr(err))
		}
	}
	t.settle()
	t.checkLimits("after " + trEvNames[ev])
	t.checkAbandoned("after " + trEvNames[ev])
}

// checkAbandoned (C15, first clause): a connection on which a request has been sent and not yet answered is
// not closed by the Transport, whether or not somebody still waits for the answer.
func (t *trSys) checkAbandoned(when string) {
	for _, c := range t.abandoned {
		id, ok := t.abConn[c.tag]
		if !ok || !t.up["a"] || t.kills > 0 {
			continue
		}
		for _, fc := range t.n.conns {
			if fc.id == id && fc.end.p.closed[0] {
				t.x.Fail("C15/busy-connection-closed/abandoned-call", "connection %d was closed by the Transport %s although request %d sent on it has not been answered (its caller gave up; the handler is still running); events: %v", id, when, c.tag, t.log)
			}
		}
	}
}

func (t *trSys) shutdown() {
	t.tr.Close()
	for _, a := range []string{"a", "b"} {
		if t.up[a] {
			t.srv[a].Close()
		}
	}
	vs.Quiesce()
}

// trIdle is the IdleConnTimeout of the Transports made by newTrSys (a scenario may pick a longer one:
// several KeepAlive periods then fit into one idle period).
var trIdle = tIdle

// trSrvOpts: server options (and, through them, the codecs of the Transport) of the systems made by newTrSys.
var trSrvOpts = srvOpts{bufSize: 64}

// trKeepAlive is the KeepAlive of the Transports made by newTrSys.
var trKeepAlive = tKeepAlive

var trLimits = [][2]int{{1, 1}, {2, 1}, {2, 2}, {0, 0}, {1, 3}, {3, 2}, {0, 2}}

// sequential driver: every event sequence of length L over the given alphabet
func trSeqBody(prop string, L int, alphabet []int, limits [][2]int, prefix ...int) func(x *X) {
	return trSeqBodyK(prop, false, L, alphabet, limits, prefix...)
}

// trSeqBodyIdle: the IdleConnTimeout is a driver choice as well
func trSeqBodyIdle(prop string, idles []time.Duration, L int, alphabet []int, limits [][2]int, prefix ...int) func(x *X) {
	body := trSeqBodyK(prop, false, L, alphabet, limits, prefix...)
	return func(x *X) {
		trIdle = idles[x.Choose(len(idles))]
		defer func() { trIdle = tIdle }()
		body(x)
	}
}

// trSeqBodyKA: the Transport's KeepAlive is set to ka for the scenario
func trSeqBodyKA(prop string, ka time.Duration, L int, alphabet []int, limits [][2]int, prefix ...int) func(x *X) {
	body := trSeqBodyK(prop, false, L, alphabet, limits, prefix...)
	return func(x *X) {
		trKeepAlive = ka
		defer func() { trKeepAlive = tKeepAlive }()
		body(x)
	}
}

func trSeqBodyK(prop string, keep bool, L int, alphabet []int, limits [][2]int, prefix ...int) func(x *X) {
	return func(x *X) {
		lim := limits[x.Choose(len(limits))]
		t := newTrSys(x, prop, lim[0], lim[1])
		t.keep = keep
		var evs []int
		for _, ev := range prefix {
			t.do(ev)
		}
		for i := 0; i < L; i++ {
			ev := alphabet[x.Choose(len(alphabet))]
			evs = append(evs, ev)
			t.do(ev)
		}
		t.finish(prop == "C15")
		// liveness (C15): unused connections are retired after KeepAlive and closed after IdleConnTimeout
		if prop != "C20" { // C20 closes the Transport with whatever is pooled at that moment
			t.advance(tKeepAlive+t.idle+3*tTick, "idle-out")
		}
		for _, a := range []string{"a", "b"} {
			if prop == "C15" && t.n.live[a] != 0 {
				x.Fail("C15/unused-not-reclaimed", "%d connections to %q are still open after KeepAlive+IdleConnTimeout+3 ticks without use; events: %v", t.n.live[a], a, t.log)
			}
		}
		if prop != "C20" {
			t.call("b", formCall)
		}
		t.shutdown()
		for _, a := range []string{"a", "b"} {
			if t.n.live[a] != 0 {
				x.Fail("C15/close-leaves-connections", "%d connections to %q are still open after Transport.Close; events: %v", t.n.live[a], a, t.log)
			}
		}
		if prop == "C20" {
			for _, l := range t.long {
				t.w[l.addr].open(l.c.tag)
			}
			vs.Quiesce()
			census(x, t.n, fmt.Sprintf("transport after events %v", t.log))
		}
		x.Outcome("lim=%v %v maxlive=%d/%d dials=%d/%d", lim, t.log, t.n.maxLive["a"], t.n.maxLive["b"], t.n.dials["a"], t.n.dials["b"])
	}
}

// Transport.Close with whatever is pooled at that moment (no idle period first): every connection the
// Transport still holds is closed, also when some of its entries have died, have failed a call and have
// been closed by the Transport already, wherever in the host's list they sit.
func trCloseNowBody(L int, alphabet []int, limits [][2]int, prefix ...int) func(x *X) {
	return func(x *X) {
		lim := limits[x.Choose(len(limits))]
		t := newTrSys(x, "C15", lim[0], lim[1])
		for _, ev := range prefix {
			t.do(ev)
		}
		for i := 0; i < L; i++ {
			t.do(alphabet[x.Choose(len(alphabet))])
		}
		t.finish(false)
		t.shutdown()
		for _, a := range []string{"a", "b"} {
			if t.n.live[a] != 0 {
				x.Fail("C15/close-leaves-connections", "%d connections to %q are still open after Transport.Close; events: %v", t.n.live[a], a, t.log)
			}
		}
		census(x, t.n, fmt.Sprintf("transport closed after events %v", t.log))
		x.Outcome("lim=%v %v dials=%d", lim, t.log, t.n.dials["a"])
	}
}

// concurrent driver: two callers race, then events
func trConcBody(prop string, limits [][2]int) func(x *X) {
	return func(x *X) {
		lim := limits[x.Choose(len(limits))]
		pre := x.Choose(3) // state before the race: fresh / one connection used / connection retired to idle
		t := newTrSys(x, prop, lim[0], lim[1])
		switch pre {
		case 1:
			t.call("a", formCall)
		case 2:
			t.call("a", formCall)
			t.advance(tKeepAlive+tTick, ">keepalive")
		}
		errs := make([]error, 3)
		for i := 0; i < 3; i++ {
			i := i
			c := newUcall(byte(0x50+i), 0, 20, formCall)
			vs.GoNamed(fmt.Sprintf("racer%d", i), func() {
				errs[i] = t.tr.Call("a", c.method, &c.args, &c.reply)
				if errs[i] == nil && !eqBytes(c.reply, c.want()) {
					x.Fail("C14/wrong-reply", "racing call got a wrong reply")
				}
			})
		}
		vs.GoNamed("ticker", func() { vt.Advance(tTick) })
		vs.Quiesce()
		t.checkLimits("after racing calls")
		for i, e := range errs {
			if e != nil {
				x.Fail("C14/unexpected-error", "racing call %d failed with %v although the server is up", i, e)
			}
		}
		t.finish(false)
		t.shutdown()
		for _, a := range []string{"a", "b"} {
			if t.n.live[a] != 0 {
				x.Fail("C15/close-leaves-connections", "%d connections to %q are still open after Transport.Close (racing first callers, limits %v)", t.n.live[a], a, lim)
			}
		}
		x.Outcome("lim=%v pre=%d maxlive=%d dials=%d", lim, pre, t.n.maxLive["a"], t.n.dials["a"])
	}
}

func init() {
	all := []int{evCallA, evCallB, evPingA, evGoA, evLongA, evStreamA, evRelease, evTick, evPastKeepAlive, evPastIdle, evCloseIdle, evKillA, evRestartA}
	c13ab := []int{evCallA, evCallB, evLongA, evStreamA, evTick, evPastKeepAlive, evCloseIdle, evKillA, evRestartA}
	c14ab := []int{evCallA, evCallB, evPingA, evGoA, evTick, evPastKeepAlive, evPastIdle, evKillA, evRestartA}
	c15ab := []int{evCallA, evLongA, evStreamA, evCloseStream, evTick, evPastKeepAlive, evPastIdle, evCloseIdle}
	_ = all
	register(&Scenario{Prop: "C13", Name: "c13/seq-L4", Quick: []Bound{{0, 0}}, Thorough: []Bound{{1, 0}}, Body: trSeqBody("C13", 4, c13ab, trLimits), MaxSteps: 200000})
	// two hosts, KeepAlive shorter than the housekeeping period (every connection is retired by the tick after its
	// use, so idle-queue entries come and go all the time), every iteration order of the pool's maps
	busy2 := []int{evBurstB, evCallA, evCallB, evTick}
	for _, p := range []string{"C13", "C14"} {
		register(&Scenario{Prop: p, Name: "c" + p[1:] + "/two-hosts-short-keepalive-L6", Quick: []Bound{{0, 0}, {0, 1}}, Thorough: []Bound{{0, 2}, {1, 0}}, Body: trSeqBodyKA(p, 300*time.Millisecond, 6, busy2, [][2]int{{2, 2}, {3, 2}}, evCallA, evTick), MaxSteps: 1000000, BudgetQ: 30, BudgetT: 300, MapOrder: true, OnlyKeys: []string{p + "/", "C15/close-leaves-connections", "C13/", "panic/", "livelock/", "hang/"}})
	}
	register(&Scenario{Prop: "C13", Name: "c13/concurrent", Quick: []Bound{{1, 0}}, Thorough: []Bound{{2, 0}}, BudgetT: 400, Body: trConcBody("C13", trLimits), MaxSteps: 200000})
	c13k := []int{evCallA, evTick, evPastKeepAlive, evGoA}
	register(&Scenario{Prop: "C13", Name: "c13/slow-housekeeping-L3", Quick: []Bound{{1, 0}}, Thorough: []Bound{{2, 0}}, Body: trSeqBodyK("C13", true, 3, c13k, trLimits[:3], evCallA), MaxSteps: 200000, BudgetQ: 25})
	register(&Scenario{Prop: "C14", Name: "c14/seq-L4", Quick: []Bound{{0, 0}}, Thorough: []Bound{{1, 0}}, Body: trSeqBody("C14", 4, c14ab, trLimits[:3]), MaxSteps: 200000})
	rec := []int{evCallA, evGoA, evTick, evPastKeepAlive, evPastIdle, evRestartA, evKillA}
	register(&Scenario{Prop: "C14", Name: "c14/recovery-L4", Quick: []Bound{{0, 0}}, Thorough: []Bound{{1, 0}}, Body: trSeqBody("C14", 4, rec, trLimits[:3], evCallA, evKillA), MaxSteps: 200000})
	register(&Scenario{Prop: "C14", Name: "c14/recovery2-L4", Quick: []Bound{{0, 0}}, Thorough: []Bound{{1, 0}}, Body: trSeqBody("C14", 4, rec, trLimits[1:3], evLongA, evCallA, evRelease, evKillA), MaxSteps: 200000})
	register(&Scenario{Prop: "C14", Name: "c14/recovery-L6", Thorough: []Bound{{0, 0}}, Quick: []Bound{}, Body: trSeqBody("C14", 6, rec, trLimits[:3], evCallA, evKillA), MaxSteps: 200000, BudgetT: 200})
	// two hosts whose connections expire in the same housekeeping tick
	two := []int{evCallA, evCallB, evTick, evPastKeepAlive, evPastIdle}
	register(&Scenario{Prop: "C14", Name: "c14/two-hosts-L4", Quick: []Bound{{0, 0}}, Thorough: []Bound{{1, 0}}, Body: trSeqBody("C14", 4, two, [][2]int{{2, 2}, {3, 2}, {1, 1}}, evCallA, evCallB), MaxSteps: 200000})
	// a call sharing the pooled connection returns late (stalled thread) across kill / restart / re-dial
	late := []int{evCallA, evRestartA, evLongA, evTick, evKillA}
	register(&Scenario{Prop: "C14", Name: "c14/late-return-L3", Quick: []Bound{{1, 0}}, Thorough: []Bound{{2, 0}}, Body: trSeqBodyK("C14", true, 3, late, trLimits[:2], evLongA, evKillA), MaxSteps: 200000})
	register(&Scenario{Prop: "C14", Name: "c14/late-return-L4", Quick: []Bound{}, Thorough: []Bound{{1, 0}}, Body: trSeqBodyK("C14", true, 4, late, trLimits[:2], evLongA, evKillA), MaxSteps: 200000, BudgetT: 300})
	// every pooled connection of a host has died quietly (server restarted while they were unused): calls and ticks
	// afterwards; each dead connection fails at most one call, whatever the order in which they are retired and replaced
	deadAb := []int{evCallA, evTick}
	register(&Scenario{Prop: "C14", Name: "c14/all-pooled-connections-dead-L7", Quick: []Bound{{0, 0}}, Thorough: []Bound{{1, 0}}, Body: trSeqBody("C14", 7, deadAb, [][2]int{{2, 1}, {2, 2}, {3, 2}, {3, 3}}, evManyLongA, evRelease, evKillA, evRestartA), MaxSteps: 400000, BudgetQ: 25, BudgetT: 300})
	// a call whose reply has arrived returns into the Transport late (stalled caller), after the connection has died
	// and failed another call
	lateOK := []int{evKillA, evCallA, evRelease, evRestartA}
	register(&Scenario{Prop: "C14", Name: "c14/late-success-L4", Quick: []Bound{{1, 0}}, Thorough: []Bound{{2, 0}}, Body: trSeqBodyK("C14", true, 4, lateOK, trLimits[:2], evLongA, evReleaseKeep), MaxSteps: 200000, BudgetQ: 30, BudgetT: 300, SoloStalls: true})
	// both pooled connections have died and been retired to the idle queue, the server is back: calls, kills,
	// restarts and ticks afterwards (a re-dial that fails on the way is one of the paths)
	deadIdle := []int{evCallA, evKillA, evRestartA, evTick}
	register(&Scenario{Prop: "C14", Name: "c14/dead-idle-connections-L4", Quick: []Bound{{0, 0}}, Thorough: []Bound{{1, 0}}, Body: trSeqBody("C14", 4, deadIdle, [][2]int{{2, 1}, {2, 2}, {3, 2}, {3, 3}}, evManyLongA, evRelease, evKillA, evPastKeepAlive, evRestartA), MaxSteps: 400000, BudgetQ: 25, BudgetT: 300})
	// ... and the same after each of them has failed a call (flagged dead) before it was retired
	register(&Scenario{Prop: "C14", Name: "c14/flagged-dead-idle-connections-L4", Quick: []Bound{{0, 0}}, Thorough: []Bound{{1, 0}}, Body: trSeqBody("C14", 4, deadIdle, [][2]int{{2, 1}, {2, 2}, {3, 2}, {3, 3}}, evManyLongA, evRelease, evKillA, evRestartA, evCallA, evCallA, evCallA, evPastKeepAlive), MaxSteps: 400000, BudgetQ: 25, BudgetT: 300})
	// a sequential caller that issues its next call at once
	b2b := []int{evCall2A, evTick, evKillA, evRestartA}
	register(&Scenario{Prop: "C14", Name: "c14/back-to-back-calls-L4", Quick: []Bound{{0, 0}}, Thorough: []Bound{{1, 0}}, Body: trSeqBody("C14", 4, b2b, trLimits[:3], evCallA), MaxSteps: 400000, BudgetQ: 25, BudgetT: 300})
	// the peer closes one of several pooled connections (the server stays up): calls, idle periods and ticks afterwards
	oneCut := []int{evCallA, evPastKeepAlive, evTick, evCutNewestA}
	register(&Scenario{Prop: "C15", Name: "c15/close-with-dead-entries-L4", Quick: []Bound{{0, 0}}, Thorough: []Bound{{1, 0}}, Body: trCloseNowBody(4, []int{evCallA, evCutOldestA, evCutNewestA, evTick, evLongA}, [][2]int{{2, 2}, {3, 2}, {3, 3}}, evManyLongA, evRelease), MaxSteps: 1000000, BudgetQ: 25, BudgetT: 300, OnlyKeys: []string{"C15/", "C20/", "panic/", "livelock/", "hang/"}})
	for _, p := range []string{"C14", "C08"} {
		keys := []string{p + "/", "panic/", "fatal/", "livelock/", "hang/"}
		register(&Scenario{Prop: p, Name: "c" + p[1:] + "/one-pooled-connection-cut-L6", Quick: []Bound{{0, 0}}, Thorough: []Bound{{1, 0}}, Body: trSeqBody(p, 6, oneCut, [][2]int{{2, 2}, {3, 2}, {3, 3}}, evManyLongA, evRelease, evCutNewestA), MaxSteps: 1000000, BudgetQ: 25, BudgetT: 300, OnlyKeys: keys})
	}
	register(&Scenario{Prop: "C14", Name: "c14/concurrent", Quick: []Bound{{1, 0}}, Thorough: []Bound{{2, 0}}, Body: trConcBody("C14", trLimits[:3]), MaxSteps: 200000})
	c20ab := []int{evCallA, evCallB, evGoA, evLongA, evStreamA, evTick, evPastKeepAlive, evCloseIdle, evKillA, evRestartA}
	register(&Scenario{Prop: "C20", Name: "c20/transport-histories-L3", Quick: []Bound{{0, 0}}, Thorough: []Bound{{1, 0}}, Body: trSeqBody("C20", 3, c20ab, [][2]int{{2, 2}, {2, 1}, {3, 2}, {1, 1}}), MaxSteps: 200000, OnlyKeys: []string{"C20/", "panic/", "livelock/"}})
	register(&Scenario{Prop: "C20", Name: "c20/transport-histories-L4", Quick: []Bound{}, Thorough: []Bound{{0, 0}}, Body: trSeqBody("C20", 4, c20ab, [][2]int{{2, 2}, {3, 2}}), MaxSteps: 200000, OnlyKeys: []string{"C20/", "panic/", "livelock/"}, BudgetT: 300})
	// a stream opened and closed earlier in the life of the connection, then busy / idle periods
	c15s := []int{evCallA, evLongA, evStreamA, evCloseStream, evTick, evPastKeepAlive, evCloseIdle}
	register(&Scenario{Prop: "C15", Name: "c15/after-stream-L3", Quick: []Bound{{0, 0}}, Thorough: []Bound{{1, 0}}, Body: trSeqBody("C15", 3, c15s, trLimits[:2], evStreamA, evCloseStream), MaxSteps: 200000})
	// two first callers racing for an address: nothing may be left open after Close (C15) / limits hold (C13)
	manyAb := []int{evCallA, evCallB, evLongA, evRelease, evTick, evPastKeepAlive, evPastIdle, evCloseIdle, evManyLongA, evManyLongB}
	manyLim := [][2]int{{4, 3}, {6, 5}, {5, 2}, {3, 3}}
	manyIdles := []time.Duration{tIdle, 20 * time.Second} // the short one expires idle connections within two KeepAlive periods, the long one does not
	for _, p := range []string{"C13", "C14", "C15", "C20"} {
		keys := []string{p + "/", "panic/", "livelock/", "hang/"}
		if p == "C13" {
			keys = append(keys, "C15/unused-not-reclaimed", "C15/close-leaves-connections") // a connection lost by the pool stays open: over the limit for good
		}
		if p == "C20" {
			keys = append(keys, "C15/close-leaves-connections")
		}
		pre := []int{evManyLongA, evRelease, evManyLongB, evRelease, evPastKeepAlive}
		register(&Scenario{Prop: p, Name: "c" + p[1:] + "/many-idle-L3", Quick: []Bound{{0, 0}}, Thorough: []Bound{{0, 0}}, Body: trSeqBodyIdle(p, manyIdles, 3, manyAb, manyLim, pre...), MaxSteps: 1000000, BudgetQ: 20, BudgetT: 60, OnlyKeys: keys})
		// the second host holds fewer connections than its idle queue can take
		pre2 := []int{evManyLongA, evRelease, evCallB, evCallB, evPastKeepAlive}
		register(&Scenario{Prop: p, Name: "c" + p[1:] + "/many-idle-uneven-L3", Quick: []Bound{{0, 0}}, Thorough: []Bound{{0, 0}}, Body: trSeqBodyIdle(p, manyIdles, 3, manyAb, manyLim, pre2...), MaxSteps: 1000000, BudgetQ: 20, BudgetT: 60, OnlyKeys: keys})
		if p != "C20" {
			register(&Scenario{Prop: p, Name: "c" + p[1:] + "/many-idle-L4", Quick: []Bound{}, Thorough: []Bound{{0, 0}}, Body: trSeqBodyIdle(p, manyIdles, 4, manyAb, manyLim, pre...), MaxSteps: 1000000, BudgetQ: 60, BudgetT: 200, OnlyKeys: keys})
		}
	}
	// a server that went away and came back while its pooled connection was unused: whatever the Transport then
	// does with the old connection, Transport.Close leaves no socket open
	c20r := []int{evCallA, evGoA, evTick, evPastKeepAlive, evCloseIdle, evCallB}
	register(&Scenario{Prop: "C20", Name: "c20/transport-after-server-restart-L3", Quick: []Bound{{0, 0}}, Thorough: []Bound{{1, 0}}, Body: trSeqBody("C20", 3, c20r, [][2]int{{1, 1}, {2, 2}, {3, 2}}, evCallA, evKillA, evRestartA), MaxSteps: 200000, OnlyKeys: []string{"C20/", "C15/close-leaves-connections", "panic/", "livelock/"}})
	c15r := []int{evCallA, evRefusedStreamA, evTick, evPastKeepAlive, evPastIdle, evCloseIdle}
	register(&Scenario{Prop: "C15", Name: "c15/after-refused-stream-L3", Quick: []Bound{{0, 0}}, Thorough: []Bound{{1, 0}}, Body: trSeqBody("C15", 3, c15r, trLimits[:2], evRefusedStreamA), MaxSteps: 200000})
	// a request whose caller has given up (CallWithContext) is still sent-and-unanswered: housekeeping leaves its connection alone
	c15ab2 := []int{evCallA, evTick, evPastKeepAlive, evPastIdle, evCloseIdle, evAbandonA}
	register(&Scenario{Prop: "C15", Name: "c15/abandoned-call-L3", Quick: []Bound{{0, 0}}, Thorough: []Bound{{1, 0}}, Body: trSeqBody("C15", 3, c15ab2, trLimits[:3], evAbandonA), MaxSteps: 400000, BudgetQ: 20})
	// one connection of several stays in use (a call every KeepAlive + 1 s), the others are not used any more: they are closed
	// ... with a KeepAlive shorter than the housekeeping period (a connection is retired by the first tick after its use)
	hot2 := []int{evCallA, evPastKeepAlive, evTick}
	register(&Scenario{Prop: "C15", Name: "c15/one-hot-connection-short-keepalive-L8", Quick: []Bound{{0, 0}}, Thorough: []Bound{{1, 0}}, Body: trSeqBodyKA("C15", 300*time.Millisecond, 8, hot2, [][2]int{{3, 3}, {4, 3}, {2, 2}}, evManyLongA, evRelease, evTick), MaxSteps: 1000000, BudgetQ: 25, BudgetT: 200})
	hot := []int{evCallA, evPastKeepAlive, evTick}
	register(&Scenario{Prop: "C15", Name: "c15/one-hot-connection-L6", Quick: []Bound{{0, 0}}, Thorough: []Bound{{1, 0}}, Body: trSeqBody("C15", 6, hot, [][2]int{{3, 3}, {4, 3}, {2, 2}}, evManyLongA, evRelease, evPastKeepAlive), MaxSteps: 1000000, BudgetQ: 25, BudgetT: 200})
	register(&Scenario{Prop: "C15", Name: "c15/concurrent-first-callers", Quick: []Bound{{1, 0}}, Thorough: []Bound{{2, 0}}, Body: trConcBody("C15", trLimits[:3]), MaxSteps: 200000, BudgetQ: 25})
	register(&Scenario{Prop: "C15", Name: "c15/seq-L4", Quick: []Bound{{0, 0}}, Thorough: []Bound{{1, 0}}, Body: trSeqBody("C15", 4, c15ab, trLimits[:3]), MaxSteps: 200000})
}

// many connections per host and limits that are not powers of two: K = MaxConnsPerHost + 1
// concurrent long calls to one host (and two to a second host) open as many connections as the
// limit allows; they are released and left unused past KeepAlive (retired to the idle queue, at
// most MaxIdleConnsPerHost of them), some are taken back into use and retired again, the rest
// expires after IdleConnTimeout, new calls follow.  At every tick: open connections <=
// MaxConnsPerHost, idle <= MaxIdleConnsPerHost (C13); every call goes to the server of its address
// (C14); a connection with a call in flight is never closed by the housekeeping and unused ones are
// reclaimed (C15); Transport.Close leaves nothing open (C20).  Default schedule (and one deviation
// in the thorough tier).
var trManyLimits = [][2]int{{4, 3}, {6, 5}, {8, 7}, {5, 2}, {3, 3}, {9, 4}, {7, 6}}

func trManyBody(prop string) func(x *X) {
	return func(x *X) {
		lim := trManyLimits[x.Choose(len(trManyLimits))]
		reuse := x.Choose(3)  // how many idle connections are taken back into use before the rest expires
		second := x.Choose(2) // the second host is used as well
		t := newTrSys(x, prop, lim[0], lim[1])
		for i := 0; i < lim[0]+1; i++ {
			t.longCall("a")
		}
		if second == 1 {
			t.longCall("b")
			t.longCall("b")
		}
		t.release()
		for _, l := range t.long {
			if !l.c.ret || l.c.err != nil || !eqBytes(l.c.reply, l.c.want()) {
				x.Fail(prop+"/concurrent-call-failed", "one of %d concurrent calls: returned=%v err=%v", len(t.long), l.c.ret, l.c.err)
			}
			if o := map[string]string{"a": "b", "b": "a"}[l.addr]; t.w[o].execs[l.c.tag] > 0 {
				x.Fail("C14/wrong-address", "a call for %q was executed by the server at %q", l.addr, o)
			}
		}
		t.long = nil
		t.advance(tKeepAlive+tTick, ">keepalive")
		// some idle connections are used again: a short call each, one of them long
		for i := 0; i < reuse; i++ {
			t.call("a", formCall)
		}
		if reuse > 0 {
			t.longCall("a")
		}
		if second == 1 {
			t.call("b", formCall)
		}
		t.advance(tKeepAlive+tTick, ">keepalive")
		t.call("a", formCall)
		t.advance(tIdle-tKeepAlive, ">idle(first wave)")
		if prop == "C15" || prop == "C13" {
			t.finish(true)
		} else {
			t.release()
		}
		t.long = nil
		for i := 0; i < lim[0]; i++ {
			t.longCall("a")
		}
		t.release()
		for _, l := range t.long {
			if !l.c.ret || l.c.err != nil {
				x.Fail(prop+"/concurrent-call-failed", "second wave: returned=%v err=%v; events %v", l.c.ret, l.c.err, t.log)
			}
		}
		t.long = nil
		t.advance(tKeepAlive+tIdle+3*tTick, "idle-out")
		for _, a := range []string{"a", "b"} {
			if (prop == "C15" || prop == "C13") && t.n.live[a] != 0 {
				x.Fail("C15/unused-not-reclaimed", "%d connections to %q are still open after KeepAlive+IdleConnTimeout+3 ticks without use (limits %v); events: %v", t.n.live[a], a, lim, t.log)
			}
		}
		t.call("a", formCall)
		t.shutdown()
		for _, a := range []string{"a", "b"} {
			if t.n.live[a] != 0 {
				x.Fail("C15/close-leaves-connections", "%d connections to %q are still open after Transport.Close (limits %v); events: %v", t.n.live[a], a, lim, t.log)
			}
		}
		if prop == "C20" {
			census(x, t.n, fmt.Sprintf("transport with limits %v after events %v", lim, t.log))
		}
		x.Outcome("lim=%v reuse=%d second=%d maxlive=%d/%d dials=%d/%d", lim, reuse, second, t.n.maxLive["a"], t.n.maxLive["b"], t.n.dials["a"], t.n.dials["b"])
	}
}

func init() {
	for _, p := range []string{"C13", "C14", "C15", "C20"} {
		keys := []string{p + "/", "panic/", "livelock/", "hang/"}
		if p == "C13" {
			keys = append(keys, "C15/") // (a connection that is never reclaimed or closed stays open: counted by C13 as well)
		}
		if p == "C20" {
			keys = append(keys, "C15/close-leaves-connections")
		}
		register(&Scenario{Prop: p, Name: "c" + p[1:] + "/many-connections", Quick: []Bound{{0, 0}}, Thorough: []Bound{{1, 0}}, Body: trManyBody(p), MaxSteps: 400000, BudgetQ: 15, BudgetT: 200, OnlyKeys: keys, MinHB: 1})
	}
}

// "forever": KeepAlive and / or IdleConnTimeout set to the largest Duration.  A connection that
// has just been used is neither retired nor closed by the next housekeeping ticks: it is still
// open and the next call uses it (no new dial).
func c15Forever(x *X) {
	which := x.Choose(3)
	const forever = time.Duration(1<<63 - 1)
	switch which {
	case 0:
		trKeepAlive = forever
	case 1:
		trIdle = forever
	case 2:
		trKeepAlive, trIdle = forever, forever
	}
	defer func() { trKeepAlive, trIdle = tKeepAlive, tIdle }()
	lim := [][2]int{{1, 1}, {2, 2}}[x.Choose(2)]
	t := newTrSys(x, "C15", lim[0], lim[1])
	t.idle = tIdle // (how far the scenario's own ">idle" steps advance the clock)
	t.call("a", formCall)
	for i := 0; i < 8; i++ {
		t.advance(tTick, "tick")
		if t.n.live["a"] != 1 {
			x.Fail("C15/closed-before-its-time", "KeepAlive/IdleConnTimeout set %d (0: KeepAlive, 1: IdleConnTimeout, 2: both) to the largest duration: %d ticks after its last use the connection is closed (open connections: %d)", which, i+1, t.n.live["a"])
			break
		}
	}
	t.call("a", formCall)
	if which != 1 && (t.n.live["a"] != t.n.dials["a"] || t.n.dials["a"] > lim[0]) {
		x.Fail("C15/closed-before-its-time", "KeepAlive is the largest duration: after 8 ticks and one more call %d connections were dialled and %d are open (MaxConnsPerHost %d)", t.n.dials["a"], t.n.live["a"], lim[0])
	}
	x.Outcome("which=%d lim=%v dials=%d", which, lim, t.n.dials["a"])
	t.shutdown()
}

func init() {
	register(&Scenario{Prop: "C15", Name: "c15/forever-durations", Quick: []Bound{{0, 0}, {1, 0}}, Thorough: []Bound{{2, 0}}, Body: c15Forever, MaxSteps: 200000, BudgetQ: 10})
}

// the pool is locked for a long time by another caller's slow dial to another address while the idle
// connection of address a reaches its IdleConnTimeout and a call to a is already waiting: whoever gets
// the pool first afterwards - the housekeeping or the call - the call succeeds (the server of a has
// been reachable all the time).
func c14IdleExpiryLocked(x *X) {
	lim := [][2]int{{1, 1}, {2, 2}}[x.Choose(2)]
	extra := x.Choose(3) // how far beyond the idle timeout the clock runs while the pool is locked (ticks)
	t := newTrSys(x, "C14", lim[0], lim[1])
	t.call("a", formCall)
	t.advance(tKeepAlive+tTick, ">keepalive") // the connection is retired to the idle queue
	t.n.holdDial["b"] = true
	ob := newUcall(0x51, 0, 20, formCall)
	vs.GoNamed("caller-b", func() { ob.err = t.tr.Call("b", ob.method, &ob.args, &ob.reply); ob.ret = true })
	vs.Quiesce()
	for i := 0; i < int(t.idle/tTick)+extra; i++ {
		vt.Advance(tTick)
		vs.Quiesce()
	}
	ca := newUcall(0x41, 0, 24, formCall)
	vs.GoNamed("caller-a", func() { ca.err = t.tr.Call("a", ca.method, &ca.args, &ca.reply); ca.ret = true })
	vs.Quiesce()
	t.n.holdDial["b"] = false
	vs.Quiesce()
	if !ca.ret || !ob.ret {
		x.Fail("C14/call-hangs/idle-expiry", "after the slow dial to b ended: call to a returned=%v, call to b returned=%v", ca.ret, ob.ret)
	} else if ca.err != nil || !eqBytes(ca.reply, ca.want()) {
		x.Fail("C14/call-on-live-server-failed/idle-expiry", "the server of a has been reachable all the time; a call to a that waited for the pool while a's idle connection reached its IdleConnTimeout failed with %v (limits %v, %d ticks beyond the timeout)", ca.err, lim, extra)
	}
	if e := t.call("a", formCall); e != nil {
		x.Fail("C14/call-on-live-server-failed/idle-expiry", "the next call to a failed with %v", e)
	}
	x.Outcome("lim=%v extra=%d a=%s b=%s dials=%d", lim, extra, errStr(ca.err), errStr(ob.err), t.n.dials["a"])
	t.shutdown()
}

func init() {
	register(&Scenario{Prop: "C14", Name: "c14/idle-expiry-while-pool-locked", Quick: []Bound{{0, 0}, {1, 0}}, Thorough: []Bound{{2, 0}}, Body: c14IdleExpiryLocked, MaxSteps: 200000, BudgetQ: 15})
}

// a connection set-up that takes long (seconds: a slow or restarting server, a stalled handshake) and then
// succeeds: whatever the callers that waited for it were told meanwhile, every connection that was
// opened for the Transport is one it knows about - never more than MaxConnsPerHost open connections to
// the address afterwards, and none after Transport.Close.
func c13SlowDial(x *X) {
	lim := [][2]int{{1, 1}, {2, 2}, {3, 2}}[x.Choose(3)]
	secs := []int{1, 4, 20}[x.Choose(3)] // how long the dial takes
	nslow := 1 + x.Choose(2)             // how many dials are slow, one after the other
	t := newTrSys(x, "C13", lim[0], lim[1])
	var slow []*ucall
	for k := 0; k < nslow; k++ {
		t.n.holdDial["a"] = true
		u := newUcall(byte(0x41+k), 0, 20, formCall)
		slow = append(slow, u)
		vs.GoNamed(fmt.Sprintf("caller-slow-dial%d", k), func() { u.err = t.tr.Call("a", u.method, &u.args, &u.reply); u.ret = true })
		vs.Quiesce()
		for i := 0; i < secs; i++ {
			vt.Advance(time.Second)
			vs.Quiesce()
		}
		t.n.holdDial["a"] = false
		vs.Quiesce()
		if !u.ret {
			x.Fail("C13/call-hangs/slow-dial", "the dial to a took %d s and succeeded; the call that waited for it has not returned", secs)
		} else if u.err == nil && !eqBytes(u.reply, u.want()) {
			x.Fail("C14/wrong-reply", "call after a slow dial got a wrong reply")
		}
		t.checkLimits(fmt.Sprintf("after slow dial %d (%d s)", k, secs))
	}
	for i := 0; i < 2*lim[0]+1; i++ {
		if e := t.call("a", formCall); e != nil {
			x.Fail("C14/call-on-live-server-failed/slow-dial", "call %d after the slow dials failed with %v", i, e)
		}
		t.longCall("a")
		t.checkLimits("calls after slow dials")
	}
	t.release()
	if t.n.live["a"] > lim[0] {
		x.Fail("C13/max-conns-exceeded", "%d connections to a are open after %d slow dials (%d s each), MaxConnsPerHost is %d (dialled %d)", t.n.live["a"], nslow, secs, lim[0], t.n.dials["a"])
	}
	t.shutdown()
	for _, a := range []string{"a", "b"} {
		if t.n.live[a] != 0 {
			x.Fail("C15/close-leaves-connections", "%d connections to %q are still open after Transport.Close (%d slow dials of %d s before)", t.n.live[a], a, nslow, secs)
		}
	}
	x.Outcome("lim=%v secs=%d nslow=%d errs=%s dials=%d", lim, secs, nslow, errStr(slow[0].err), t.n.dials["a"])
}

func init() {
	register(&Scenario{Prop: "C13", Name: "c13/slow-dial", Quick: []Bound{{0, 0}, {1, 0}}, Thorough: []Bound{{2, 0}}, Body: c13SlowDial, MaxSteps: 400000, BudgetQ: 20, BudgetT: 300})
}
