package main

import (
	"encoding/json"
	"fmt"
	"io"
	"net"
	"os"
	"time"

	"github.com/hslam/socket"
	vs "verif/shim/vsync"
)

// mc conform [-out file]: keeps the message-pipe model honest.  Every sequence of up to 4
// operations over {A.write, B.write, A.read, B.read, A.close, B.close} (reads only where the model
// says they do not block) is executed on the model (under the scheduler, one thread) and on a real
// TCP loopback pair and a real UNIX socket pair wrapped by the real socket.NewMessages framing,
// and the observable results are compared.  Writes to a connection whose PEER has closed are the
// one documented asymmetry: the model reports the failure at once, a real socket reports it only
// after the reset has come back, so those results are not compared.

type confOp int

const (
	opAw confOp = iota
	opBw
	opAr
	opBr
	opAc
	opBc
	nConfOps
)

var confNames = []string{"A.write", "B.write", "A.read", "B.read", "A.close", "B.close"}

type confState struct {
	q      [2]int // undelivered messages written by A / by B
	closed [2]bool
}

// wouldBlock: a read blocks in the model when nothing is queued and neither end is closed.
func (s *confState) readBlocks(side int) bool {
	return s.q[1-side] == 0 && !s.closed[0] && !s.closed[1]
}

func confSequences(maxLen int) [][]confOp {
	var out [][]confOp
	var rec func(seq []confOp, st confState)
	rec = func(seq []confOp, st confState) {
		if len(seq) > 0 {
			out = append(out, append([]confOp(nil), seq...))
		}
		if len(seq) == maxLen {
			return
		}
		for op := confOp(0); op < nConfOps; op++ {
			ns := st
			switch op {
			case opAw:
				if !st.closed[0] && !st.closed[1] {
					ns.q[0]++
				}
			case opBw:
				if !st.closed[0] && !st.closed[1] {
					ns.q[1]++
				}
			case opAr:
				if st.readBlocks(0) {
					continue
				}
				if !st.closed[0] && st.q[1] > 0 {
					ns.q[1]--
				}
			case opBr:
				if st.readBlocks(1) {
					continue
				}
				if !st.closed[1] && st.q[0] > 0 {
					ns.q[0]--
				}
			case opAc:
				ns.closed[0] = true
			case opBc:
				ns.closed[1] = true
			}
			rec(append(seq, op), ns)
		}
	}
	rec(nil, confState{})
	return out
}

func confMsg(i int) []byte { return []byte(fmt.Sprintf("message-%d-%s", i, "xxxxxxxxxxxxxxxx"[:i%16])) }

func classify(err error) string {
	switch {
	case err == nil:
		return "ok"
	case err == io.EOF:
		return "EOF"
	}
	return "error"
}

// confRun executes seq on two Messages ends and returns one observation per operation.
func confRun(a, b socket.Messages, seq []confOp, model bool) []string {
	var out []string
	peerClosed := [2]bool{}
	selfClosed := [2]bool{}
	ends := [2]socket.Messages{a, b}
	n := 0
	for _, op := range seq {
		switch op {
		case opAw, opBw:
			side := int(op - opAw)
			n++
			err := ends[side].WriteMessage(confMsg(n))
			if peerClosed[side] && !selfClosed[side] {
				out = append(out, "write:(peer closed, not compared)")
			} else {
				out = append(out, "write:"+classify(err))
			}
		case opAr, opBr:
			side := int(op - opAr)
			m, err := ends[side].ReadMessage(nil)
			if err != nil {
				out = append(out, "read:"+classify(err))
			} else {
				out = append(out, "read:"+string(m))
			}
		case opAc, opBc:
			side := int(op - opAc)
			ends[side].Close()
			selfClosed[side] = true
			peerClosed[1-side] = true
			out = append(out, "close")
			if !model {
				time.Sleep(2 * time.Millisecond) // let the kernel deliver the FIN
			}
		}
	}
	return out
}

type deadlineConn struct{ net.Conn }

func (d deadlineConn) Read(p []byte) (int, error) {
	d.Conn.SetReadDeadline(time.Now().Add(2 * time.Second))
	return d.Conn.Read(p)
}

func realPair(network, dir string, i int) (net.Conn, net.Conn, error) {
	addr := "127.0.0.1:0"
	if network == "unix" {
		addr = fmt.Sprintf("%s/conf%d.sock", dir, i)
		os.Remove(addr)
	}
	l, err := net.Listen(network, addr)
	if err != nil {
		return nil, nil, err
	}
	defer l.Close()
	ch := make(chan net.Conn, 1)
	go func() { c, _ := l.Accept(); ch <- c }()
	c1, err := net.Dial(network, l.Addr().String())
	if err != nil {
		return nil, nil, err
	}
	c2 := <-ch
	if c2 == nil {
		return nil, nil, fmt.Errorf("accept failed")
	}
	return c1, c2, nil
}

func conformMain(args []string) int {
	out := ""
	if len(args) >= 2 && args[0] == "-out" {
		out = args[1]
	}
	dir, _ := os.MkdirTemp("", "mcconf")
	defer os.RemoveAll(dir)
	seqs := confSequences(4)
	mismatches := 0
	var examples []map[string]interface{}
	compared := 0
	for i, seq := range seqs {
		var modelObs []string
		res := vs.Run(vs.Config{}, func() {
			a, b := NewPipe()
			modelObs = confRun(a, b, seq, true)
		})
		if res.Err != "" || len(res.Panics) > 0 {
			fmt.Println("ENGINE-ERROR conformance: model run failed", res.Err)
			return 2
		}
		for _, network := range []string{"tcp", "unix"} {
			c1, c2, err := realPair(network, dir, i)
			if err != nil {
				fmt.Println("WARNING conformance: cannot create a real", network, "pair:", err)
				continue
			}
			realObs := confRun(socket.NewMessages(deadlineConn{c1}, false), socket.NewMessages(deadlineConn{c2}, false), seq, false)
			c1.Close()
			c2.Close()
			compared++
			if fmt.Sprint(realObs) != fmt.Sprint(modelObs) {
				mismatches++
				var names []string
				for _, op := range seq {
					names = append(names, confNames[op])
				}
				if len(examples) < 10 {
					examples = append(examples, map[string]interface{}{"network": network, "sequence": names, "model": modelObs, "real": realObs})
				}
			}
		}
	}
	summary := map[string]interface{}{"sequences": len(seqs), "env_traces_validated": compared, "mismatches": mismatches, "examples": examples,
		"note": "operation sequences up to length 4 over {A.write,B.write,A.read,B.read,A.close,B.close}; model = harness message pipe, real = TCP loopback and UNIX socket pairs under socket.NewMessages; writes after the peer closed are not compared"}
	b, _ := json.MarshalIndent(summary, "", " ")
	if out != "" {
		os.WriteFile(out, b, 0644)
	}
	fmt.Printf("environment conformance: %d sequences, %d real runs compared, %d mismatches\n", len(seqs), compared, mismatches)
	for _, e := range examples {
		fmt.Printf("  mismatch %v\n", e)
	}
	return 0
}
