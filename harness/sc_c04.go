package main

import (
	"context"
	"fmt"
	"os"

	"github.com/hslam/rpc"
	"github.com/hslam/socket"
	vs "verif/shim/vsync"
	vt "verif/shim/vtime"
)

// C04 — each received request is executed once and answered once.
//
// A scripted raw client writes a batch of request frames (every handler shape, pings, stream
// open/data/close, unknown method) and counts response frames on the wire; the real server runs
// in every mode (ServeCodec x {plain, pipelining, directIO}, listener, poll emulation with 1 and
// 2 workers x {plain, pipelining, directIO}).  Drop points: the client disappears after the
// j-th frame.

type rq struct {
	kind   string
	method string
	tag    byte
	flags  byte
	up     []byte
	seq    uint64
	args   []byte
	expect bool // a response frame is expected
}

var (
	upPing  = []byte{0xE0}
	upOpen  = []byte{0xC8}
	upData  = []byte{0x50}
	upClose = []byte{0xD8}
)

var c04Scripts = [][]rq{
	{{kind: "echo", method: "Svc.Echo", tag: 1}, {kind: "echoctx", method: "Svc.EchoCtx", tag: 2}, {kind: "echoout", method: "Svc.EchoOut", tag: 3}},
	{{kind: "echo", method: "Svc.Echo", tag: 1}, {kind: "ping"}, {kind: "echo", method: "Svc.Echo", tag: 2, flags: fErr}, {kind: "ping"}},
	{{kind: "open", method: "StreamSvc.Push"}, {kind: "data", tag: 0x31}, {kind: "data", tag: 0x32}, {kind: "close"}},
	{{kind: "unknown", method: "Svc.Nope", tag: 5}, {kind: "echo", method: "Svc.Echo", tag: 1}, {kind: "ping"}},
	{{kind: "echoout", method: "Svc.EchoOut", tag: 1, flags: fErr}, {kind: "open", method: "StreamSvc.Push"}, {kind: "echo", method: "Svc.Echo", tag: 2}, {kind: "data", tag: 0x31}},
}

type c04Mode struct {
	sys sysMode
	so  srvOpts
}

func c04Modes() []c04Mode {
	var out []c04Mode
	for _, m := range sysModes {
		for _, so := range []srvOpts{{bufSize: 64}, {bufSize: 64, pipelining: true}, {bufSize: 64, directIO: true}} {
			if m.name == "listen" && (so.pipelining || so.directIO) {
				continue
			}
			out = append(out, c04Mode{m, so})
		}
	}
	return out
}

// rawServer starts the real server in the given mode and returns the client end of a connection.
func rawServer(m sysMode, so srvOpts) (*World, *rpc.Server, *PipeEnd, *FakeNet) {
	w := newWorld()
	if !m.listen {
		cl, sv := NewPipe()
		srv := newServer(w, so)
		serveCodec(srv, sv, so)
		return w, srv, cl, nil
	}
	n := newNet()
	n.pollWorkers = m.workers
	srv := newServer(w, so)
	srv.SetPoll(m.poll)
	vs.GoLib("Listen", func() { srv.ListenWithOptions("srv", so.options(n, 0)) })
	vs.Quiesce()
	c, err := n.Socket(nil).Dial("srv")
	if err != nil {
		vs.Fatal("raw dial failed")
	}
	var msgs socket.Messages = c.Messages()
	return w, srv, msgs.(*PipeEnd), n
}

func c04Body(modes []c04Mode) func(x *X) {
	return func(x *X) {
		mode := modes[x.Choose(len(modes))]
		script := c04Scripts[x.Choose(len(c04Scripts))]
		drop := x.Choose(len(script) + 1) // 0: stay until everything is answered; j: disappear after the j-th frame
		encName := []string{"", "code", "yield-pb"}[x.Choose(3)]
		so := mode.so
		so.enc = encName
		enc := wireEncoder(encName)
		w, srv, cl, n := rawServer(mode.sys, so)
		w.errText[1], w.errText[2] = "handler failed 1", "handler failed 2"
		reqs := make([]rq, len(script))
		copy(reqs, script)
		var streamSeq uint64
		for i := range reqs {
			r := &reqs[i]
			r.seq = uint64(10 + i)
			r.expect = true
			switch r.kind {
			case "ping":
				r.up = upPing
			case "open":
				r.up = upOpen
				streamSeq = r.seq
			case "data":
				r.up, r.seq, r.expect = upData, streamSeq, false
				r.args = streamMsg(r.tag, i)
			case "close":
				r.up, r.seq = upClose, streamSeq
			default:
				r.args = mkPayload(r.tag, r.flags, 20+17*i)
			}
		}
		sent := 0
		for i, r := range reqs {
			if drop > 0 && i >= drop {
				break
			}
			if r.kind == "close" {
				// closing a stream discards what its handler has not read yet: let the data through first
				vs.Quiesce()
			}
			cl.WriteMessage(mkReq(enc, r.seq, r.up, r.method, r.args))
			sent++
		}
		if drop > 0 {
			cl.Close()
		}
		vs.Quiesce()
		// responses on the wire, per sequence number
		nres := map[uint64]int{}
		var echoes [][]byte
		for _, fr := range cl.Wire() {
			if fr.Dir != 1 {
				continue
			}
			res, ok := decodeRes(enc, fr.Data)
			if !ok {
				x.Fail("C04/undecodable-response", "the server wrote a frame that does not decode: %x", fr.Data)
				continue
			}
			if res.Seq == streamSeq && streamSeq != 0 && len(res.Reply) > 0 {
				echoes = append(echoes, res.Reply)
				continue
			}
			nres[res.Seq]++
		}
		out := fmt.Sprintf("%s/%s enc=%s drop=%d", mode.sys.name, modeName(mode.so), encName, drop)
		sentTags := map[byte]bool{}
		for i, r := range reqs {
			delivered := i < sent
			switch r.kind {
			case "echo", "echoctx", "echoout":
				sentTags[r.tag] = delivered
				got := w.execs[r.tag]
				switch {
				case delivered && drop == 0 && got != 1:
					x.Fail(fmt.Sprintf("C04/executions=%d/%s", got, r.kind), "request tag %d (%s) was received on a live connection and executed %d times", r.tag, r.kind, got)
				case got > 1:
					x.Fail(fmt.Sprintf("C04/executions=%d/%s", got, r.kind), "request tag %d (%s) was executed %d times", r.tag, r.kind, got)
				case !delivered && got > 0:
					x.Fail("C04/phantom-execution", "request tag %d was never sent but a handler ran for it", r.tag)
				}
				if got > 0 && !eqBytes(w.seenArgs[r.tag], r.args) {
					x.Fail("C04/arguments-differ", "handler for tag %d saw arguments %x, the client sent %x", r.tag, w.seenArgs[r.tag], r.args)
				}
			}
			if r.kind == "data" {
				continue
			}
			c := nres[r.seq]
			if r.kind == "open" || r.kind == "close" {
				// open acknowledgement and close acknowledgement share the stream's sequence number
				continue
			}
			if delivered && drop == 0 && c != 1 {
				x.Fail(fmt.Sprintf("C04/responses=%d/%s", c, r.kind), "request seq %d (%s) got %d response frames on a live connection", r.seq, r.kind, c)
			} else if c > 1 {
				x.Fail(fmt.Sprintf("C04/responses=%d/%s", c, r.kind), "request seq %d (%s) got %d response frames", r.seq, r.kind, c)
			}
			out += fmt.Sprintf(" %s:%dx%d", r.kind, w.execs[r.tag], c)
		}
		if streamSeq != 0 && drop == 0 {
			wantAcks := 0
			wantData := 0
			for i, r := range reqs {
				if i < sent && (r.kind == "open" || r.kind == "close") {
					wantAcks++
				}
				if i < sent && r.kind == "data" {
					wantData++
				}
			}
			if nres[streamSeq] != wantAcks {
				x.Fail("C04/stream-acks", "stream open/close frames: %d acknowledgements for %d requests", nres[streamSeq], wantAcks)
			}
			if len(echoes) != wantData {
				x.Fail("C04/stream-data-executions", "%d stream messages sent, %d echoed", wantData, len(echoes))
			}
			out += fmt.Sprintf(" acks=%d echoes=%d", nres[streamSeq], len(echoes))
		}
		for tag, cnt := range w.execs {
			if _, ok := sentTags[tag]; !ok && cnt > 0 {
				x.Fail("C04/phantom-execution", "a handler ran for tag %d which no request carried", tag)
			}
		}
		x.Outcome("%s", out)
		if drop == 0 {
			cl.Close()
		}
		if n != nil {
			srv.Close()
		}
		vs.Quiesce()
	}
}

func modeName(so srvOpts) string {
	switch {
	case so.pipelining:
		return "pipelining"
	case so.directIO:
		return "directIO"
	}
	return "plain"
}

// A call whose connection dies between execution and response: the error is surfaced and the
// handler count stays 1 (no retry), also through Transport.
func c04Lost(x *X) {
	via := x.Choose(2)
	n := newNet()
	w := newWorld()
	so := srvOpts{bufSize: 64}
	srv, _ := startListener(n, w, "srv", so, false)
	vs.Quiesce()
	// the response of the judged call is dropped and the link dies
	args := mkPayload(7, 0, 40)
	var reply []byte
	var err error
	var tr *rpc.Transport
	warm := x.Choose(3) // successful exchanges on the connection before the loss
	parked := false
	park := via == 1 && warm > 0 && x.Choose(2) == 1 // the connection is parked in the idle queue before the judged call
	n.onDial = func(string) {
		if len(n.conns) == 1 && !park { // the first connection only: a replacement connection is not cut
			n.conns[0].end.p.cutDrop[1] = 1 + warm
		}
	}
	warmup := func(call func(a *[]byte, r *[]byte) error) {
		for i := 0; i < warm; i++ {
			a := mkPayload(byte(0x30+i), 0, 12)
			var r []byte
			if e := call(&a, &r); e != nil || !eqBytes(r, transform(a)) {
				x.Fail("C04/warm-up-failed", "warm-up call %d: %v", i, e)
			}
		}
	}
	if via == 0 {
		conn, derr := rpc.DialWithOptions("srv", so.options(n, 64))
		if derr != nil {
			vs.Fatal("dial")
		}
		warmup(func(a *[]byte, r *[]byte) error { return conn.Call("Svc.Echo", a, r) })
		err = conn.Call("Svc.Echo", &args, &reply)
		conn.Close()
	} else {
		tr = &rpc.Transport{KeepAlive: tKeepAlive, IdleConnTimeout: tIdle, Options: so.options(n, 64)}
		warmup(func(a *[]byte, r *[]byte) error { return tr.Call("srv", "Svc.Echo", a, r) })
		if park {
			// the connection is left unused until the housekeeping has parked it in the idle queue
			for d := tKeepAlive + tTick; d > 0; d -= tTick {
				vt.Advance(tTick)
				vs.Quiesce()
			}
			parked = true
			// (the housekeeping pings the connection when it parks it: the cut is re-aimed at the next response)
			if k := len(n.conns); k > 0 {
				p := n.conns[k-1].end.p
				p.cutDrop[1] = p.nw[1] + 1
			}
		}
		if x.Choose(2) == 0 {
			err = tr.Call("srv", "Svc.Echo", &args, &reply)
		} else {
			err = tr.CallWithContext(context.Background(), "srv", "Svc.Echo", &args, &reply)
		}
	}
	vs.Quiesce()
	if err == nil && !parked {
		x.Fail("C04/lost-response-reported-success", "the response was lost with the connection but the call returned nil")
	}
	if parked && err == nil && (w.execs[7] != 1 || !eqBytes(reply, transform(args))) {
		// (the liveness probe of a parked connection may be the exchange that hits the cut; the call then runs on a fresh connection)
		x.Fail("C04/success-without-single-execution/after-loss", "the call returned nil, the request was executed %d times", w.execs[7])
	}
	if w.execs[7] > 1 || (!parked && w.execs[7] != 1) {
		x.Fail(fmt.Sprintf("C04/executions=%d/after-loss", w.execs[7]), "the request was executed %d times although its call failed once (no retry is allowed)", w.execs[7])
	}
	x.Outcome("via=%d warm=%d parked=%v err=%s execs=%d dials=%d", via, warm, parked, errStr(err), w.execs[7], n.dials["srv"])
	if parked && os.Getenv("VERIF_DEBUG_C04") != "" {
		x.Fail(fmt.Sprintf("DEBUG/warm=%d err=%s execs=%d dials=%d", warm, errStr(err), w.execs[7], n.dials["srv"]), "debug")
	}
	if tr != nil {
		tr.Close()
	}
	srv.Close()
	vs.Quiesce()
}

func init() {
	register(&Scenario{Prop: "C04", Name: "c04/raw-allmodes", Quick: []Bound{{1, 0}, {2, 0}}, Thorough: []Bound{{2, 0}}, Body: c04Body(c04Modes()), BudgetQ: 45})
	register(&Scenario{Prop: "C04", Name: "c04/raw-poll2", Quick: []Bound{{2, 0}}, Thorough: []Bound{{3, 0}}, Body: c04Body(c04Modes()[7:]), BudgetQ: 25})
	register(&Scenario{Prop: "C04", Name: "c04/lost-response", Quick: []Bound{{2, 0}}, Thorough: []Bound{{3, 0}}, Body: c04Lost})
}

// Structured arguments whose encoding omits zero fields (JSON omitempty; proto3 scalars behave the
// same): the handler must see exactly what the client sent even when the server decodes into
// recycled objects.  Every order of four requests with different sets of present fields, on one
// connection, in several server modes.
type OptReq struct {
	ID   int32            `json:"id"`
	A    int32            `json:"a,omitempty"`
	B    int32            `json:"b,omitempty"`
	Tags []string         `json:"tags,omitempty"`
	M    map[string]int32 `json:"m,omitempty"`
}

type OptRes struct {
	ID  int32 `json:"id"`
	Sum int32 `json:"sum,omitempty"`
	N   int32 `json:"n,omitempty"`
}

type OptSvc struct {
	seen  map[int32]string
	execs map[int32]int
}

func optString(r *OptReq) string {
	keys := ""
	for _, k := range []string{"p", "q", "r"} {
		if v, ok := r.M[k]; ok {
			keys += fmt.Sprintf("%s=%d,", k, v)
		}
	}
	return fmt.Sprintf("{id:%d a:%d b:%d tags:%v m:%s}", r.ID, r.A, r.B, r.Tags, keys)
}

func (s *OptSvc) Sum(req *OptReq, res *OptRes) error {
	s.execs[req.ID]++
	s.seen[req.ID] = optString(req)
	res.ID = req.ID
	res.Sum = req.A + req.B
	res.N = int32(len(req.Tags) + len(req.M))
	return nil
}

var c04OptReqs = []OptReq{
	{ID: 1, A: 1000, B: 3, Tags: []string{"x", "y"}, M: map[string]int32{"p": 1}},
	{ID: 2, B: 3},
	{ID: 3, A: 5, M: map[string]int32{"q": 2}},
	{ID: 4},
}

func c04Partial(x *X) {
	ps := perms(len(c04OptReqs))
	order := ps[x.Choose(len(ps))]
	mode := x.Choose(4)
	so := srvOpts{bufSize: 64, codec: func() rpc.Codec { return rpc.NewJSONCodec() }}
	switch mode {
	case 1:
		so.pipelining = true
	case 2:
		so.directIO = true
	case 3:
		so.shared = true
	}
	w := newWorld()
	svc := &OptSvc{seen: map[int32]string{}, execs: map[int32]int{}}
	srv := newServer(w, so)
	srv.Register(svc)
	cl, sv := NewPipe()
	serveCodec(srv, sv, so)
	conn := newConn(cl, so.enc, 64, so.codec)
	out := fmt.Sprintf("mode=%d order=%v", mode, order)
	for _, i := range order {
		req := c04OptReqs[i]
		var res OptRes
		err := conn.Call("OptSvc.Sum", &req, &res)
		want := OptRes{ID: req.ID, Sum: req.A + req.B, N: int32(len(req.Tags) + len(req.M))}
		switch {
		case err != nil:
			x.Fail("C04/call-failed/partial-encoding", "call %s failed: %v", optString(&req), err)
		case svc.execs[req.ID] != 1:
			x.Fail(fmt.Sprintf("C04/executions=%d/partial-encoding", svc.execs[req.ID]), "request %s was executed %d times", optString(&req), svc.execs[req.ID])
		case svc.seen[req.ID] != optString(&req):
			x.Fail("C04/arguments-differ/partial-encoding", "the client sent %s, the handler was invoked with %s (requests before it in this order: %v)", optString(&req), svc.seen[req.ID], order)
		case res != want:
			x.Fail("C04/reply-differs/partial-encoding", "request %s: reply %+v, want %+v", optString(&req), res, want)
		}
	}
	x.Outcome("%s", out)
	conn.Close()
	vs.Quiesce()
}

func init() {
	register(&Scenario{Prop: "C04", Name: "c04/partial-encodings", Quick: []Bound{{0, 0}, {1, 0}}, Thorough: []Bound{{2, 0}}, Body: c04Partial, BudgetQ: 15, MinHB: 1})
}

// a few hundred calls on one connection that alternate between registered methods whose names
// have the same length (Svc.Echo, Svc.Eco1, Svc.Eco2), an unknown method of that length
// (Svc.Eco9) and failing calls: every request is executed exactly once by the handler it names,
// unknown methods by none.  Default schedule; header encoders default / code / json.
func manyCallsEqualNames(prop string) func(x *X) {
	return func(x *X) {
		enc := []string{"", "code", "json"}[x.Choose(3)]
		pattern := x.Choose(3)
		so := srvOpts{bufSize: 64, enc: enc}
		if x.Choose(2) == 1 {
			so.pipelining = true
		}
		f := newFixture(so, cliOpts{bufSize: 64})
		names := []string{"Echo", "Eco1", "Eco2", "Eco9"}
		n := 200
		for i := 0; i < n; i++ {
			var k int
			switch pattern {
			case 0: // X, X, Y
				k = []int{0, 0, 1, 1, 1, 3, 2, 2, 0}[i%9]
			case 1: // strict alternation
				k = i % 4
			case 2: // long runs
				k = (i / 17) % 4
			}
			tag := byte(i + 1)
			flags := byte(0)
			if i%11 == 10 && k != 3 {
				flags = fErr
				f.w.errText[tag] = fmt.Sprintf("failure of request %d", i)
			}
			c := newUcall(tag, flags, 9, formCall) // equal sizes: every frame has the method name at the same offset
			c.method = "Svc." + names[k]
			c.issue(f.conn)
			ran := f.w.ran[tag]
			switch {
			case k == 3:
				if c.err == nil || c.err.Error() != "can't find service Svc.Eco9" {
					x.Fail(prop+"/unknown-method-outcome/equal-length-names", "request %d for the unknown method Svc.Eco9 returned err=%v", i, c.err)
				}
				if len(ran) != 0 {
					x.Fail(prop+"/phantom-execution/equal-length-names", "request %d names the unknown method Svc.Eco9 but handler %v ran for it", i, ran)
				}
			case len(ran) != 1 || ran[0] != names[k]:
				x.Fail(prop+"/wrong-handler/equal-length-names", "request %d names Svc.%s; handlers invoked for it: %v (header encoder %q, pattern %d)", i, names[k], ran, enc, pattern)
			case flags&fErr != 0:
				if c.err == nil || c.err.Error() != f.w.errText[tag] {
					x.Fail(prop+"/error-text/equal-length-names", "request %d: handler returned %q, the call returned %v", i, f.w.errText[tag], c.err)
				}
			case c.err != nil || !eqBytes(c.reply, c.want()):
				x.Fail(prop+"/wrong-outcome/equal-length-names", "request %d (Svc.%s): err=%v reply %x", i, names[k], c.err, c.reply)
			}
			if len(x.viol) > 3 {
				break
			}
		}
		x.Outcome("enc=%q pattern=%d pipe=%v", enc, pattern, so.pipelining)
		f.conn.Close()
		vs.Quiesce()
	}
}

func init() {
	register(&Scenario{Prop: "C04", Name: "c04/many-calls-equal-length-names", Quick: []Bound{{0, 0}}, Thorough: []Bound{{1, 0}}, Body: manyCallsEqualNames("C04"), MaxSteps: 1000000, BudgetQ: 15, MinHB: 1})
	register(&Scenario{Prop: "C06", Name: "c06/many-calls-equal-length-names", Quick: []Bound{{0, 0}}, Thorough: []Bound{{1, 0}}, Body: manyCallsEqualNames("C06"), MaxSteps: 1000000, BudgetQ: 15, MinHB: 1})
}

// the smallest requests: with the built-in / pb header a frame of zero bytes is a well-formed
// request (sequence number 0, no flags, empty method name, no arguments) and a frame that carries
// only a sequence number is one too: each is answered exactly once ("can't find service"), at any
// position of the conversation, in every server mode, and the requests around it are executed once.
func c04Smallest(modes []c04Mode) func(x *X) {
	return func(x *X) {
		mode := modes[x.Choose(len(modes))]
		pos := x.Choose(3)  // the small frame is the first / second / last of three requests
		kind := x.Choose(2) // empty frame / sequence number only
		enc := wireEncoder("")
		w, srv, cl, net := rawServer(mode.sys, mode.so)
		small := []byte{}
		var smallSeq uint64
		if kind == 1 {
			small = mkReq(enc, 9, nil, "", nil)
			smallSeq = 9
		}
		var sent []uint64
		k := 0
		for i := 0; i < 3; i++ {
			if i == pos {
				cl.WriteMessage(small)
				sent = append(sent, smallSeq)
				continue
			}
			k++
			cl.WriteMessage(mkReq(enc, uint64(20+k), nil, "Svc.Echo", mkPayload(byte(k), 0, 10+k)))
			sent = append(sent, uint64(20+k))
		}
		vs.Quiesce()
		var res []rawRes
		for _, fr := range cl.Wire() {
			if fr.Dir == 1 {
				if r, ok := decodeRes(enc, fr.Data); ok {
					res = append(res, r)
				}
			}
		}
		count := map[uint64]int{}
		for _, r := range res {
			count[r.Seq]++
			if r.Seq == smallSeq && r.Error == "" {
				x.Fail("C04/smallest-request-outcome", "the request without a method name was answered without an error")
			}
		}
		for _, s := range sent {
			if count[s] != 1 {
				x.Fail(fmt.Sprintf("C04/responses=%d/smallest-request", count[s]), "requests with sequence numbers %v were sent (the one numbered %d is a %d-byte frame: no method name, no arguments); %d responses carry the number %d (mode %s/%s)", sent, smallSeq, len(small), count[s], s, mode.sys.name, modeName(mode.so))
			}
		}
		for i := 1; i <= 2; i++ {
			if w.execs[byte(i)] != 1 {
				x.Fail(fmt.Sprintf("C04/executions=%d/next-to-smallest-request", w.execs[byte(i)]), "request %d next to a %d-byte request was executed %d times", i, len(small), w.execs[byte(i)])
			}
		}
		x.Outcome("%s/%s pos=%d kind=%d responses=%d", mode.sys.name, modeName(mode.so), pos, kind, len(res))
		cl.Close()
		if net != nil {
			srv.Close()
		}
		vs.Quiesce()
	}
}

func init() {
	register(&Scenario{Prop: "C04", Name: "c04/smallest-requests", Quick: []Bound{{0, 0}, {1, 0}}, Thorough: []Bound{{2, 0}}, Body: c04Smallest(c04Modes()), BudgetQ: 15})
}

// request bodies the server's body codec cannot decode into the handler's parameter (a number
// that does not fit the field, a value of the wrong type, truncated or empty text - what a client
// built against another version of the message sends): no handler runs for them and the caller gets
// an error; bodies that do decode run the handler once with exactly the decoded values.  The client
// side uses the BYTES codec, so the request body is exactly the text below; every handler shape.
type Calc struct {
	runs []string
}

func (c *Calc) Mul(req *Req, res *Res) error {
	c.runs = append(c.runs, fmt.Sprintf("Mul(%d,%d)", req.A, req.B))
	res.Pro = req.A * req.B
	return nil
}

func (c *Calc) MulCtx(ctx context.Context, req *Req, res *Res) error {
	c.runs = append(c.runs, fmt.Sprintf("MulCtx(%d,%d)", req.A, req.B))
	res.Pro = req.A * req.B
	return nil
}

func (c *Calc) MulOut(req *Req) (*Res, error) {
	c.runs = append(c.runs, fmt.Sprintf("MulOut(%d,%d)", req.A, req.B))
	return &Res{Pro: req.A * req.B}, nil
}

var c04Bodies = []string{
	`{"A":3,"B":4}`, `{"A":1099511627776,"B":2}`, `{"A":"twelve","B":2}`, `{"A":6,"B":7`, ``, `[1,2]`, `{"A":5,"B":5}`, `{"A":2,"B":3.5}`, `"x"`, `{"A":-4,"B":2,"C":9}`, `{"A":7,"B":true}`, `{"A":9,"B":9}`,
}

func c04Undecodable(x *X) { c04UndecodableP("C04")(x) }

func c04UndecodableP(kp string) func(x *X) {
	return func(x *X) {
		shape := []string{"Mul", "MulCtx", "MulOut"}[x.Choose(3)]
		mode := x.Choose(4)
		rot := x.Choose(len(c04Bodies))
		so := srvOpts{bufSize: 64, codec: func() rpc.Codec { return rpc.NewJSONCodec() }}
		switch mode {
		case 1:
			so.pipelining = true
		case 2:
			so.directIO = true
		case 3:
			so.shared = true
		}
		w := newWorld()
		calc := &Calc{}
		srv := newServer(w, so)
		srv.Register(calc)
		cl, sv := NewPipe()
		serveCodec(srv, sv, so)
		conn := newConn(cl, "", 64, nil) // BYTES on the client side: the body is the text itself
		out := ""
		for i := range c04Bodies {
			body := c04Bodies[(i+rot)%len(c04Bodies)]
			var ref Req
			decodes := rpc.NewJSONCodec().Unmarshal([]byte(body), &ref) == nil
			args := []byte(body)
			var reply []byte
			before := len(calc.runs)
			var err error
			returned := false
			vs.GoNamed(fmt.Sprintf("caller%d", i), func() {
				err = conn.Call("Calc."+shape, &args, &reply)
				returned = true
			})
			vs.Quiesce()
			ran := calc.runs[before:]
			switch {
			case !returned:
				x.Fail(kp+"/call-hangs/undecodable", "the call with the body %q did not return", body)
			case !decodes && len(ran) > 0:
				x.Fail(kp+"/handler-ran-for-undecodable-request", "the request body %q cannot be decoded into the handler's parameter, and handler %v ran (shape %s, mode %d); the caller got err=%v reply=%q", body, ran, shape, mode, err, reply)
			case !decodes && err == nil:
				x.Fail(kp+"/undecodable-request-succeeds", "the request body %q cannot be decoded and the call returned nil with the reply %q", body, reply)
			case decodes && len(ran) != 1:
				x.Fail(fmt.Sprintf("%s/executions=%d/decodable-among-undecodable", kp, len(ran)), "the request body %q ran %v", body, ran)
			case decodes && ran[0] != fmt.Sprintf("%s(%d,%d)", shape, ref.A, ref.B):
				x.Fail(kp+"/arguments-differ/decodable-among-undecodable", "the request body %q ran %s", body, ran[0])
			case decodes && (err != nil || string(reply) != fmt.Sprintf(`{"Pro":%d}`, ref.A*ref.B)):
				x.Fail(kp+"/reply-differs/decodable-among-undecodable", "the request body %q: err=%v reply=%q", body, err, reply)
			}
			out += fmt.Sprintf(" %v/%d/%v", decodes, len(ran), err == nil)
		}
		// a second connection of another client, with the JSON codec on both ends: ordinary calls after all that
		cl2, sv2 := NewPipe()
		serveCodec(srv, sv2, so)
		conn2 := newConn(cl2, "", 64, so.codec)
		for i := 0; i < 3; i++ {
			req, res := Req{A: int32(3 + i), B: 5}, Res{}
			if err := conn2.Call("Arith.Mul", &req, &res); err != nil || res.Pro != req.A*req.B {
				x.Fail(kp+"/reply-differs/other-connection-after-undecodable", "after undecodable bodies on another connection, an ordinary JSON call %d on a second connection returned err=%v product=%d", i, err, res.Pro)
			}
		}
		x.Outcome("%s mode=%d rot=%d%s", shape, mode, rot, out)
		conn.Close()
		conn2.Close()
		vs.Quiesce()
	}
}

func init() {
	register(&Scenario{Prop: "C12", Name: "c12/undecodable-json-bodies-then-ordinary-calls", Quick: []Bound{{0, 0}}, Thorough: []Bound{{1, 0}}, Body: c04UndecodableP("C12"), BudgetQ: 15, BudgetT: 100, MinHB: 1})
	register(&Scenario{Prop: "C04", Name: "c04/undecodable-requests", Quick: []Bound{{0, 0}}, Thorough: []Bound{{1, 0}}, Body: c04Undecodable, BudgetQ: 15, BudgetT: 100, MinHB: 1})
}

// arguments that encode to no bytes at all (an empty BYTES value) between ordinary requests, in
// every server mode: the handler is invoked once with exactly that - zero bytes, not whatever a
// recycled buffer held - and the reply is the reply to it.
func c04EmptyArgs(x *X) {
	mode := x.Choose(5)
	so := srvOpts{bufSize: 64}
	switch mode {
	case 1:
		so.pipelining = true
	case 2:
		so.directIO = true
	case 3:
		so.shared = true
	case 4:
		so.bufSize = 0 // the default buffer size
	}
	pattern := x.Choose(3)
	f := newFixture(so, cliOpts{bufSize: 64})
	var want []string
	for i := 0; i < 6; i++ {
		empty := []bool{i%2 == 1, i == 0 || i == 5, i >= 2}[pattern]
		var args []byte
		if !empty {
			args = mkPayload(byte(0x20+i), 0, 9+7*i)
		} else {
			args = []byte{}
		}
		var reply []byte
		err := f.conn.Call("Svc.Plain", &args, &reply)
		want = append(want, fmt.Sprintf("%d:%x", len(args), clipBytes(args, 16)))
		if err != nil {
			x.Fail("C04/call-failed/empty-arguments", "call %d (%d argument bytes, server mode %d) failed: %v", i, len(args), mode, err)
			break
		}
		if len(reply) != len(args) {
			x.Fail("C04/reply-differs/empty-arguments", "call %d was sent with %d argument bytes and answered with %d reply bytes (the handler returns as many bytes as it is given)", i, len(args), len(reply))
			break
		}
	}
	if fmt.Sprint(f.w.plainSeen) != fmt.Sprint(want[:len(f.w.plainSeen)]) || len(f.w.plainSeen) != len(want) {
		x.Fail("C04/arguments-differ/empty-arguments", "the client sent requests with (length:first bytes) %v, the handler was invoked with %v (server mode %d)", want, f.w.plainSeen, mode)
	}
	x.Outcome("mode=%d pattern=%d n=%d", mode, pattern, len(f.w.plainSeen))
	f.conn.Close()
	vs.Quiesce()
}

func init() {
	register(&Scenario{Prop: "C04", Name: "c04/empty-arguments", Quick: []Bound{{0, 0}, {1, 0}}, Thorough: []Bound{{2, 0}}, Body: c04EmptyArgs, BudgetQ: 15, MinHB: 1})
}

// a service name is registered again with another receiver while the server runs (a deployment
// swaps an implementation): requests received afterwards are executed by the receiver registered
// last, once each; calls to other methods in between do not matter.
func c04Reregister(x *X) {
	mode := x.Choose(3)
	between := x.Choose(3) // calls between the first call and the re-registration: none / the same method / another one
	so := srvOpts{bufSize: 64}
	switch mode {
	case 1:
		so.pipelining = true
	case 2:
		so.directIO = true
	}
	f := newFixture(so, cliOpts{bufSize: 64})
	w2 := newWorld()
	c1 := newUcall(1, 0, 20, formCall)
	c1.issue(f.conn)
	switch between {
	case 1:
		c := newUcall(2, 0, 21, formCall)
		c.issue(f.conn)
	case 2:
		c := newUcall(2, 0, 21, formCall)
		c.method = "Svc.Eco1"
		c.issue(f.conn)
	}
	f.srv.RegisterName("Svc", &Svc{w2})
	vs.Quiesce()
	for i := 0; i < 3; i++ {
		c := newUcall(byte(0x11+i), 0, 22+i, formCall)
		c.issue(f.conn)
		switch {
		case c.err != nil || !eqBytes(c.reply, c.want()):
			x.Fail("C04/call-failed/re-register", "call %d after the re-registration: err=%v", c.tag, c.err)
		case w2.execs[c.tag] != 1 || f.w.execs[c.tag] != 0:
			x.Fail(fmt.Sprintf("C04/executions=%d/re-register", w2.execs[c.tag]), "the service name was registered again with another receiver; request %d, received afterwards, was executed %d times by the receiver registered last and %d times by the replaced one (server mode %d, calls before the swap: pattern %d)", c.tag, w2.execs[c.tag], f.w.execs[c.tag], mode, between)
		}
	}
	x.Outcome("mode=%d between=%d", mode, between)
	f.conn.Close()
	vs.Quiesce()
}

func init() {
	register(&Scenario{Prop: "C04", Name: "c04/service-registered-again", Quick: []Bound{{0, 0}, {1, 0}}, Thorough: []Bound{{2, 0}}, Body: c04Reregister, BudgetQ: 10})
}

// poll mode, one connection, a burst of several hundred small asynchronous requests that reach the server
// in one piece (one read(2) takes them all into the messages' user-space buffer, the poller sees an empty
// socket afterwards) and no traffic after it: every request is executed once and answered once.
func c04PollBurst(x *X) {
	n := []int{100, 600, 1100}[x.Choose(3)]
	workers := 1 + x.Choose(2)
	nf := newNetFixture(srvOpts{bufSize: 64}, cliOpts{bufSize: 64}, true, workers)
	done := make(chan *rpc.Call, n)
	calls := make([]*ucall, n)
	for i := range calls {
		c := newUcall(byte(1+i%200), 0, 4+i%12, formGo)
		c.args[1] = 0
		calls[i] = c
		c.call = nf.conn.Go(c.method, &c.args, &c.reply, done)
	}
	vs.Quiesce()
	got := map[*rpc.Call]int{}
	for len(done) > 0 {
		got[<-done]++
	}
	missing, first := 0, -1
	for i, c := range calls {
		switch k := got[c.call]; {
		case k == 0:
			if missing++; first < 0 {
				first = i
			}
		case k > 1:
			x.Fail("C04/responses=2/poll-burst", "request %d of a burst of %d was answered %d times", i, n, k)
		case c.call.Error != nil || !eqBytes(c.reply, c.want()):
			x.Fail("C04/reply-differs/poll-burst", "request %d of a burst of %d: err=%v", i, n, c.call.Error)
		}
	}
	total := 0
	for _, k := range nf.w.execs {
		total += k
	}
	if missing > 0 {
		x.Fail("C04/responses=0/poll-burst", "%d of %d requests sent in one burst on a live connection (poll mode, %d workers) were never answered, the first one is number %d; %d were executed", missing, n, workers, first, total)
	} else if total != n {
		x.Fail("C04/executions/poll-burst", "%d requests were sent, %d handler executions", n, total)
	}
	x.Outcome("n=%d workers=%d answered=%d executed=%d", n, workers, n-missing, total)
	nf.conn.Close()
	nf.srv.Close()
	vs.Quiesce()
}

func init() {
	register(&Scenario{Prop: "C04", Name: "c04/poll-burst", Quick: []Bound{{0, 0}}, Thorough: []Bound{{0, 0}}, Body: c04PollBurst, MaxSteps: 3000000, BudgetQ: 60, BudgetT: 200})
}
