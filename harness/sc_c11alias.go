package main

import (
	"context"
	"errors"
	"fmt"

	"github.com/hslam/rpc"
	vs "verif/shim/vsync"
)

// C11 with the message codecs whose decoded values alias their input and whose encoders write into the
// buffer they are given: "code" (github.com/hslam/code style), "pb" (only the GoGoProtobuf interface is
// needed; the messages this library's own generator emits decode bytes fields as windows of the input)
// and "msgpack" (UnmarshalMsg of a bytes field with zero-copy semantics).

// codeBlob has the shape of a generated code message: Marshal fills the buffer it is given when that is
// large enough, Unmarshal keeps a window of its input.
type codeBlob struct{ Data []byte }

func blobEncode(buf []byte, data []byte) []byte {
	size := len(data) + 1
	if cap(buf) >= size {
		buf = buf[:size]
	} else {
		buf = make([]byte, size)
	}
	buf[0] = 0xC0
	copy(buf[1:], data)
	return buf
}

var errBlob = errors.New("not a blob")

func (b *codeBlob) Marshal(buf []byte) ([]byte, error) { return blobEncode(buf, b.Data), nil }
func (b *codeBlob) Unmarshal(data []byte) (uint64, error) {
	if len(data) < 1 || data[0] != 0xC0 {
		return 0, errBlob
	}
	b.Data = data[1:]
	return uint64(len(data)), nil
}

// pbBlob satisfies rpc.GoGoProtobuf and rpc.MsgPack the same way.
type pbBlob struct{ Data []byte }

func (b *pbBlob) Size() int                { return len(b.Data) + 1 }
func (b *pbBlob) Marshal() ([]byte, error) { return blobEncode(nil, b.Data), nil }
func (b *pbBlob) MarshalTo(buf []byte) (int, error) {
	if len(buf) < b.Size() {
		return 0, errors.New("short buffer")
	}
	buf[0] = 0xC0
	copy(buf[1:], b.Data)
	return b.Size(), nil
}
func (b *pbBlob) Unmarshal(data []byte) error {
	if len(data) < 1 || data[0] != 0xC0 {
		return errBlob
	}
	b.Data = data[1:]
	return nil
}
func (b *pbBlob) MarshalMsg(buf []byte) ([]byte, error) { return blobEncode(buf, b.Data), nil }
func (b *pbBlob) UnmarshalMsg(data []byte) ([]byte, error) {
	return nil, b.Unmarshal(data)
}

// Blob is the service of these scenarios: the reply is the transformed first 8 bytes of the argument
// (shorter than the request), handlers keep what they were given.
type Blob struct{ w *World }

func (s *Blob) handle(in []byte) []byte {
	if s.w.keep {
		s.w.kept = append(s.w.kept, in)
		s.w.keptSum = append(s.w.keptSum, digest(in))
	}
	if len(in) > 0 {
		s.w.execs[in[0]]++
	}
	n := len(in)
	if n > 8 {
		n = 8
	}
	return transform(in[:n])
}
func (s *Blob) Code(req *codeBlob, res *codeBlob) error { res.Data = s.handle(req.Data); return nil }
func (s *Blob) PB(req *pbBlob, res *pbBlob) error       { res.Data = s.handle(req.Data); return nil }
func (s *Blob) CodeCtx(ctx context.Context, req *codeBlob, res *codeBlob) error {
	res.Data = s.handle(req.Data)
	return nil
}
func (s *Blob) PBCtx(ctx context.Context, req *pbBlob, res *pbBlob) error {
	res.Data = s.handle(req.Data)
	return nil
}
func (s *Blob) StreamCode(ss *SS) error {
	st := ss.st
	for {
		var m codeBlob
		if err := st.ReadMessage(nil, &m); err != nil {
			return nil
		}
		out := codeBlob{Data: s.handle(m.Data)}
		if err := st.WriteMessage(&out); err != nil {
			return nil
		}
	}
}
func (s *Blob) StreamPB(ss *SS) error {
	st := ss.st
	for {
		var m pbBlob
		if err := st.ReadMessage(nil, &m); err != nil {
			return nil
		}
		out := pbBlob{Data: s.handle(m.Data)}
		if err := st.WriteMessage(&out); err != nil {
			return nil
		}
	}
}

type blobKind struct {
	name   string
	codec  func() rpc.Codec
	suffix string
	mk     func(data []byte) (msg interface{}, data_ func() []byte)
}

var blobKinds = []blobKind{
	{"code", func() rpc.Codec { return &rpc.CODECodec{} }, "Code", func(d []byte) (interface{}, func() []byte) {
		m := &codeBlob{Data: d}
		return m, func() []byte { return m.Data }
	}},
	{"pb", func() rpc.Codec { return &rpc.GOGOPBCodec{} }, "PB", func(d []byte) (interface{}, func() []byte) {
		m := &pbBlob{Data: d}
		return m, func() []byte { return m.Data }
	}},
	{"msgpack", func() rpc.Codec { return &rpc.MSGPCodec{} }, "PB", func(d []byte) (interface{}, func() []byte) {
		m := &pbBlob{Data: d}
		return m, func() []byte { return m.Data }
	}},
}

// c11Aliasing: a call with a caller-supplied context buffer (capacity below / at / above the reply and above
// the request), plain calls, stream messages in both directions; everything handed out is kept and
// re-hashed after every sequence of L further operations; the caller's buffer beyond the reply is untouched.
func c11Aliasing(L int) func(x *X) {
	return func(x *X) {
		k := blobKinds[x.Choose(len(blobKinds))]
		mode := x.Choose(3) // plain / server pipelining / client pipelining
		capSel := x.Choose(5)
		ops := make([]int, L)
		for i := range ops {
			ops[i] = x.Choose(3)
		}
		so := srvOpts{bufSize: 64, codec: k.codec, pipelining: mode == 1}
		f := newFixture(so, cliOpts{bufSize: 64, pipelining: mode == 2})
		f.w.keep = true
		type keptT struct {
			what string
			b    []byte
			sum  string
		}
		var keep []keptT
		retain := func(what string, b []byte) { keep = append(keep, keptT{what, b, digest(b)}) }
		payload := func(tag byte, n int) []byte { return mkPayload(tag, 0, n) }
		check := func(what string, got, arg []byte) {
			n := len(arg)
			if n > 8 {
				n = 8
			}
			if !eqBytes(got, transform(arg[:n])) {
				x.Fail("C11/reply-wrong-at-return", "%s: got %x for the argument %.16x (codec %s)", what, got, arg, k.name)
			}
		}
		// 1. a call with a caller-supplied buffer
		arg := payload(1, 40)
		req, _ := k.mk(arg)
		res, resData := k.mk(nil)
		n := 9 // the encoded reply: one byte and 8 bytes of data
		caps := []int{0, n - 1, n, 4 * n, 128}
		var ctxbuf []byte
		ctx := context.Background()
		if caps[capSel] > 0 {
			ctxbuf = make([]byte, caps[capSel])
			for j := range ctxbuf {
				ctxbuf[j] = 0xA5
			}
			ctx = context.WithValue(ctx, rpc.BufferContextKey, ctxbuf)
		}
		if err := f.conn.CallWithContext(ctx, "Blob."+k.suffix+"Ctx", req, res); err != nil {
			x.Fail("C11/setup-call-failed", "call with a context buffer (codec %s): %v", k.name, err)
		}
		check("call with a context buffer", resData(), arg)
		retain("reply of the call with a context buffer", resData())
		// 2. a plain call and two stream messages each way
		arg2 := payload(2, 30)
		req2, _ := k.mk(arg2)
		res2, res2Data := k.mk(nil)
		if err := f.conn.Call("Blob."+k.suffix, req2, res2); err != nil {
			x.Fail("C11/setup-call-failed", "plain call (codec %s): %v", k.name, err)
		}
		check("plain call", res2Data(), arg2)
		retain("reply of a plain call", res2Data())
		st, err := f.conn.NewStream("Blob.Stream" + k.suffix)
		if err != nil {
			x.Fail("C11/setup-call-failed", "stream open (codec %s): %v", k.name, err)
			return
		}
		streamRound := func(tag byte, size int) {
			a := payload(tag, size)
			m, _ := k.mk(a)
			if err := st.WriteMessage(m); err != nil {
				x.Fail("C11/setup-call-failed", "stream write (codec %s): %v", k.name, err)
				return
			}
			r, rData := k.mk(nil)
			if err := st.ReadMessage(nil, r); err != nil {
				x.Fail("C11/setup-call-failed", "stream read (codec %s): %v", k.name, err)
				return
			}
			check("stream message", rData(), a)
			retain(fmt.Sprintf("stream message (echo of the %d-byte message %d)", size, tag), rData())
		}
		streamRound(0x31, 20)
		streamRound(0x32, 21)
		// 3. further traffic
		for i, op := range ops {
			switch op {
			case 0:
				a := payload(byte(0x40+i), 12+i)
				rq, _ := k.mk(a)
				rs, rsData := k.mk(nil)
				if err := f.conn.Call("Blob."+k.suffix, rq, rs); err == nil {
					check("later call", rsData(), a)
					retain("reply of a later call", rsData())
				}
			case 1:
				streamRound(byte(0x50+i), 20+i)
			case 2:
				f.conn.Ping()
			}
		}
		vs.Quiesce()
		for _, kp := range keep {
			if d := digest(kp.b); d != kp.sum {
				x.Fail("C11/client-data-mutated", "%s changed after it was handed to the caller: digest %s -> %s, now %.40x (codec %s)", kp.what, kp.sum, d, kp.b, k.name)
			}
		}
		for i, b := range f.w.kept {
			if d := digest(b); d != f.w.keptSum[i] {
				x.Fail("C11/handler-args-mutated", "message bytes kept by a handler changed after the handler went on: digest %s -> %s, now %.40x (codec %s)", f.w.keptSum[i], d, b, k.name)
			}
		}
		if ctxbuf != nil {
			full := ctxbuf[:cap(ctxbuf)]
			from := n
			if len(full) < n {
				from = 0 // too small for the reply: not used at all
			}
			for j := from; j < len(full); j++ {
				if full[j] != 0xA5 {
					x.Fail("C11/buffer-overrun", "byte %d of the caller-supplied buffer (capacity %d) was overwritten although the reply it holds is %d bytes long (request: 41 bytes, codec %s)", j, len(full), n, k.name)
					break
				}
			}
		}
		x.Outcome("%s mode=%d cap=%d ops=%v kept=%d/%d", k.name, mode, capSel, ops, len(keep), len(f.w.kept))
		st.Close()
		f.conn.Close()
		vs.Quiesce()
	}
}

func init() {
	register(&Scenario{Prop: "C11", Name: "c11/aliasing-message-codecs-L2", Quick: []Bound{{0, 0}, {1, 0}}, Thorough: []Bound{{2, 0}}, Body: c11Aliasing(2), MaxSteps: 400000, BudgetQ: 25, BudgetT: 300})
	register(&Scenario{Prop: "C11", Name: "c11/aliasing-message-codecs-L4", Quick: []Bound{}, Thorough: []Bound{{0, 0}, {1, 0}}, Body: c11Aliasing(4), MaxSteps: 400000, BudgetT: 300})
}
