package main

import (
	"context"
	"fmt"
	"strings"
	"unicode/utf8"

	"github.com/hslam/rpc"
	vs "verif/shim/vsync"
)

// C08 — nothing a peer does crashes the process.
//
// (a) every truncation, single-byte corruption, one-byte frame (two-byte frames in the thorough
// tier) and every upgrade byte on an otherwise valid request is delivered to a live server,
// followed by a well-formed probe on the same and on a second connection; (c) the same for
// response frames delivered to a client with a call outstanding; (b) bursts of valid requests
// followed by EOF/reset at every position, racing with the server's teardown (d <= 2).
// A panic in any controlled thread ends the execution and is reported by the engine itself.

type c08Frame struct {
	label string
	data  []byte
}

func corruptValues(b byte, all bool) []byte {
	if all {
		out := make([]byte, 0, 255)
		for v := 0; v < 256; v++ {
			if byte(v) != b {
				out = append(out, byte(v))
			}
		}
		return out
	}
	var out []byte
	for _, v := range []byte{^b, b ^ 1, b ^ 0x80, 0x00, 0xFF, b + 1} {
		dup := v == b
		for _, o := range out {
			if o == v {
				dup = true
			}
		}
		if !dup {
			out = append(out, v)
		}
	}
	return out
}

func mutations(name string, seed []byte, all bool) []c08Frame {
	var out []c08Frame
	for n := 0; n < len(seed); n++ {
		out = append(out, c08Frame{fmt.Sprintf("%s/trunc%d", name, n), append([]byte(nil), seed[:n]...)})
	}
	for i := range seed {
		for _, v := range corruptValues(seed[i], all) {
			g := append([]byte(nil), seed...)
			g[i] = v
			out = append(out, c08Frame{fmt.Sprintf("%s/byte%d=%02x", name, i, v), g})
		}
	}
	return out
}

// craftedFrames: protobuf-style field headers a decoder has not been written for (field numbers 1..8,
// every wire type) followed by lengths / values at the edges of 64 bits, with and without a valid frame
// behind them - what a fuzzer of the wire format sends, as opposed to damaged valid frames.
func craftedFrames(valid []byte) []c08Frame {
	var out []c08Frame
	vals := []uint64{0, 1, 127, 1 << 31, 1<<32 - 1, 1<<63 - 1, 1 << 63, 1<<64 - 11, 1<<64 - 1}
	for field := 1; field <= 8; field++ {
		for wt := 0; wt < 8; wt++ {
			for _, v := range vals {
				b := []byte{byte(field<<3 | wt)}
				b = uvarint(b, v)
				out = append(out, c08Frame{fmt.Sprintf("crafted/f%d/w%d/%x", field, wt, v), b})
				if field%3 == 1 && (wt == 2 || wt == 0) {
					out = append(out, c08Frame{fmt.Sprintf("crafted+valid/f%d/w%d/%x", field, wt, v), append(append([]byte(nil), b...), valid...)})
				}
			}
		}
	}
	return out
}

func c08RequestFrames(encName string, all bool) []c08Frame {
	enc := wireEncoder(encName)
	seeds := []c08Frame{
		{"call", mkReq(enc, 5, nil, "Svc.Plain", mkPayload(1, 0, 12))},
		{"ping", mkReq(enc, 6, upPing, "", nil)},
		{"open", mkReq(enc, 7, upOpen, "StreamSvc.Push", nil)},
		{"data", mkReq(enc, 7, upData, "", streamMsg(0x31, 0))},
		{"close", mkReq(enc, 7, upClose, "", nil)},
	}
	var out []c08Frame
	for _, s := range seeds {
		out = append(out, mutations(s.label, s.data, all)...)
	}
	for b := 0; b < 256; b++ {
		out = append(out, c08Frame{fmt.Sprintf("onebyte/%02x", b), []byte{byte(b)}})
		out = append(out, c08Frame{fmt.Sprintf("upgrade/%02x", b), mkReq(enc, 8, []byte{byte(b)}, "Svc.Plain", mkPayload(2, 0, 12))})
		out = append(out, c08Frame{fmt.Sprintf("upgrade-ctx/%02x", b), mkReq(enc, 8, []byte{byte(b)}, "Svc.EchoOut", mkPayload(2, 0, 12))})
		out = append(out, c08Frame{fmt.Sprintf("upgrade-stream/%02x", b), mkReq(enc, 8, []byte{byte(b)}, "StreamSvc.Push", nil)})
	}
	if all {
		for a := 0; a < 256; a++ {
			for b := 0; b < 256; b += 5 {
				out = append(out, c08Frame{fmt.Sprintf("twobyte/%02x%02x", a, b), []byte{byte(a), byte(b)}})
			}
		}
	}
	out = append(out, craftedFrames(seeds[0].data)...)
	return out
}

func c08ResponseFrames(encName string, all bool) []c08Frame {
	enc := wireEncoder(encName)
	seeds := []c08Frame{
		{"ok", mkRes(enc, 0, "", transform(mkPayload(1, 0, 12)))},
		{"error", mkRes(enc, 0, "some error text", nil)},
		{"otherseq", mkRes(enc, 77, "", []byte{1, 2, 3})},
	}
	var out []c08Frame
	for _, s := range seeds {
		out = append(out, mutations(s.label, s.data, all)...)
	}
	for b := 0; b < 256; b++ {
		out = append(out, c08Frame{fmt.Sprintf("onebyte/%02x", b), []byte{byte(b)}})
	}
	out = append(out, craftedFrames(seeds[0].data)...)
	return out
}

var c08SrvModes = []c04Mode{
	{sysModes[0], srvOpts{bufSize: 64}},
	{sysModes[0], srvOpts{bufSize: 64, pipelining: true}},
	{sysModes[0], srvOpts{bufSize: 64, directIO: true}},
	{sysModes[2], srvOpts{bufSize: 64}},
	{sysModes[3], srvOpts{bufSize: 64, pipelining: true}},
}

// probe sends a well-formed request on cl and reports whether the right answer comes back.
func c08Probe(x *X, cl *PipeEnd, enc rpc.Encoder, seq uint64, tag byte) (answered bool) {
	args := mkPayload(tag, 0, 16)
	before := len(cl.Wire())
	cl.WriteMessage(mkReq(enc, seq, nil, "Svc.Echo", args))
	vs.Quiesce()
	for _, fr := range cl.Wire()[before:] {
		if fr.Dir != 1 {
			continue
		}
		if res, ok := decodeRes(enc, fr.Data); ok && res.Seq == seq {
			if res.Error != "" || !eqBytes(res.Reply, transform(args)) {
				x.Fail("C08/probe-wrong-answer", "a well-formed probe after a malformed frame was answered with error %q reply %x", res.Error, res.Reply)
			}
			return true
		}
	}
	return false
}

func c08Server(all bool, modes []c04Mode) func(x *X) {
	frames := map[string][]c08Frame{}
	for _, e := range encNames {
		frames[e] = c08RequestFrames(e, all)
	}
	return func(x *X) {
		encName := encNames[x.Choose(len(encNames))]
		mode := modes[x.Choose(len(modes))]
		fs := frames[encName]
		fr := fs[x.Choose(len(fs))]
		so := mode.so
		so.enc = encName
		enc := wireEncoder(encName)
		w, srv, cl, n := rawServer(mode.sys, so)
		_ = w
		// an established stream so that data/close frames (and their corruptions) have a target
		cl.WriteMessage(mkReq(enc, 7, upOpen, "StreamSvc.Push", nil))
		vs.Quiesce()
		cl.WriteMessage(fr.data)
		vs.Quiesce()
		x.Case(fmt.Sprintf("%s/%s/%s", encName, mode.sys.name, fr.label[:minInt(len(fr.label), 12)]))
		same := c08Probe(x, cl, enc, 999, 0x61)
		if !same && !cl.p.closed[1] && !cl.p.dead {
			x.Fail("C08/connection-wedged", "after the frame %s (%x) the connection is still open but a well-formed request is not answered (enc %q, mode %s/%s)", fr.label, fr.data, encName, mode.sys.name, modeName(mode.so))
		}
		// a second connection is always served
		var cl2 *PipeEnd
		if n == nil {
			var sv2 *PipeEnd
			cl2, sv2 = NewPipe()
			serveCodec(srv, sv2, so)
		} else {
			c, err := n.Socket(nil).Dial("srv")
			if err != nil {
				x.Fail("C08/second-connection-refused", "dial failed after a malformed frame: %v", err)
				return
			}
			cl2 = c.Messages().(*PipeEnd)
		}
		if !c08Probe(x, cl2, enc, 1000, 0x62) {
			x.Fail("C08/other-connection-not-served", "after the frame %s (%x) on one connection a well-formed request on another connection is not answered", fr.label, fr.data)
		}
		x.Outcome("same=%v", same)
		cl.Close()
		cl2.Close()
		if n != nil {
			srv.Close()
		}
		vs.Quiesce()
		// threads left behind (e.g. a second handler started by a duplicate stream-open frame) are
		// recorded, not judged: C08 is about crashes and about well-formed traffic being served
		x.Outcome("left=%d", len(blockedThreads(nil)))
	}
}

func minInt(a, b int) int {
	if a < b {
		return a
	}
	return b
}

func c08Client(all bool) func(x *X) {
	frames := map[string][]c08Frame{}
	for _, e := range encNames {
		frames[e] = c08ResponseFrames(e, all)
	}
	return func(x *X) {
		encName := encNames[x.Choose(len(encNames))]
		dio := x.Choose(2) == 1
		fs := frames[encName]
		fr := fs[x.Choose(len(fs))]
		enc := wireEncoder(encName)
		cl, sv := NewPipe()
		conn := newConn(cl, encName, 64, nil)
		if dio {
			conn.SetDirectIO(true)
		}
		first := true
		vs.GoNamed("peer", func() {
			for {
				m, err := sv.ReadMessage(nil)
				if err != nil {
					return
				}
				rq, ok := decodeReq(enc, m)
				if !ok {
					continue
				}
				if first {
					first = false
					sv.WriteMessage(fr.data)
					continue
				}
				sv.WriteMessage(mkRes(enc, rq.Seq, "", transform(rq.Args)))
			}
		})
		done := make(chan *rpc.Call, 4)
		a1 := mkPayload(1, 0, 12)
		var r1 []byte
		conn.Go("Svc.Echo", &a1, &r1, done)
		vs.Quiesce()
		n1 := len(done)
		x.Case(fmt.Sprintf("client/%s/%s", encName, fr.label[:minInt(len(fr.label), 12)]))
		// the next call is served
		c2 := newUcall(2, 0, 30, formCall)
		c2.spawn(conn)
		vs.Quiesce()
		if !c2.ret {
			x.Fail("C08/client-wedged", "after the response frame %s (%x) the next call on the connection never returns", fr.label, fr.data)
		} else if c2.err != nil || !eqBytes(c2.reply, c2.want()) {
			x.Fail("C08/client-next-call-failed", "after the response frame %s (%x) the next call returned err=%v reply=%x", fr.label, fr.data, c2.err, c2.reply)
		}
		if len(done) > 1 {
			x.Fail("C08/client-double-completion", "a malformed response made the outstanding call complete %d times", len(done))
		}
		x.Outcome("first=%d", n1)
		conn.Close()
		vs.Quiesce()
		x.Outcome("left=%d", len(blockedThreads(nil)))
	}
}

// (b) bursts of valid requests followed by a disconnect at every position
func c08Burst(modes []c04Mode, maxN int) func(x *X) {
	return func(x *X) {
		mode := modes[x.Choose(len(modes))]
		n := 1 + x.Choose(maxN)
		how := x.Choose(3) // close / reset / close after the first frame only
		withStream := x.Choose(2) == 1
		enc := wireEncoder("")
		w, srv, cl, net := rawServer(mode.sys, mode.so)
		if withStream {
			cl.WriteMessage(mkReq(enc, 50, upOpen, "StreamSvc.Push", nil))
			cl.WriteMessage(mkReq(enc, 50, upData, "", streamMsg(0x31, 0)))
		}
		for i := 0; i < n; i++ {
			flags := byte(0)
			if i == 0 {
				flags = fYield
			}
			cl.WriteMessage(mkReq(enc, uint64(i+1), nil, "Svc.Echo", mkPayload(byte(i+1), flags, 10+i)))
			if how == 2 && i == 0 {
				break
			}
		}
		switch how {
		case 1:
			cl.Reset()
			cl.Close()
		default:
			cl.Close()
		}
		vs.Quiesce()
		// the server is still healthy
		var cl2 *PipeEnd
		if net == nil {
			var sv2 *PipeEnd
			cl2, sv2 = NewPipe()
			serveCodec(srv, sv2, mode.so)
		} else {
			c, err := net.Socket(nil).Dial("srv")
			if err != nil {
				x.Fail("C08/second-connection-refused", "dial failed after a disconnect: %v", err)
				return
			}
			cl2 = c.Messages().(*PipeEnd)
		}
		if !c08Probe(x, cl2, enc, 1000, 0x62) {
			x.Fail("C08/other-connection-not-served", "after a client disconnected in the middle of a burst of %d requests another connection is not served", n)
		}
		for tag, cnt := range w.execs {
			if cnt > 1 {
				x.Fail("C08/executed-twice-during-teardown", "request %d was executed %d times", tag, cnt)
			}
		}
		x.Outcome("%s/%s n=%d how=%d stream=%v", mode.sys.name, modeName(mode.so), n, how, withStream)
		cl2.Close()
		if net != nil {
			srv.Close()
		}
		vs.Quiesce()
		x.Outcome("left=%d", len(blockedThreads(nil)))
	}
}

// well-formed but unusual traffic: a stream opened, written to and closed back to back (the close
// frame can overtake queued data frames inside the server), and arguments larger than every
// buffer for handlers that take a context (context-buffer mode)
func c08Unusual(modes []c04Mode) func(x *X) {
	return func(x *X) {
		mode := modes[x.Choose(len(modes))]
		script := x.Choose(8)
		shared := x.Choose(2) == 1
		so := mode.so
		so.shared = shared
		enc := wireEncoder("")
		w, srv, cl, net := rawServer(mode.sys, so)
		_ = w
		switch script {
		case 0, 1:
			k := 2 + script*3
			cl.WriteMessage(mkReq(enc, 7, upOpen, "StreamSvc.Push", nil))
			for i := 0; i < k; i++ {
				cl.WriteMessage(mkReq(enc, 7, upData, "", streamMsg(0x31, i)))
			}
			cl.WriteMessage(mkReq(enc, 7, upClose, "", nil))
			cl.WriteMessage(mkReq(enc, 7, upData, "", streamMsg(0x31, 9))) // a data frame after the close
		case 2:
			for i, n := range []int{63, 64, 65, 200, 5000} {
				cl.WriteMessage(mkReq(enc, uint64(20+i), nil, "Svc.EchoCtx", mkPayload(byte(0x40+i), 0, n)))
			}
		case 3, 4, 5:
			// a stream open the server refuses (unknown method / a method that is not a stream
			// handler), then what the library's own client sends next: data, the close frame
			method := []string{"Nope.Nope", "Svc.Echo", "Nope.Nope"}[script-3]
			cl.WriteMessage(mkReq(enc, 7, upOpen, method, nil))
			vs.Quiesce()
			if script != 5 {
				cl.WriteMessage(mkReq(enc, 7, upData, "", streamMsg(0x31, 0)))
				cl.WriteMessage(mkReq(enc, 7, upClose, "", nil))
			}
			// (script 5: nothing more — the connection is dropped with the refused stream still registered)
		case 6, 7:
			// handlers that close their own streams (from the handler's goroutine) while the client
			// keeps opening streams and sending on the same connection; script 7 reuses a stream id
			for i := 0; i < 3; i++ {
				id := uint64(7 + i)
				if script == 7 {
					id = 7
				}
				cl.WriteMessage(mkReq(enc, id, upOpen, "StreamSvc.CloseSelf", nil))
				cl.WriteMessage(mkReq(enc, id, upData, "", streamMsg(0x31, i)))
				if script == 7 {
					cl.WriteMessage(mkReq(enc, id, upClose, "", nil))
				}
			}
		}
		vs.Quiesce()
		if !c08Probe(x, cl, enc, 999, 0x61) && !cl.p.closed[1] && !cl.p.dead {
			x.Fail("C08/connection-wedged", "after well-formed but unusual traffic (script %d, mode %s/%s, context buffer %v) a request on the same connection is not answered", script, mode.sys.name, modeName(so), shared)
		}
		x.Outcome("%s/%s script=%d shared=%v", mode.sys.name, modeName(so), script, shared)
		cl.Close()
		if net != nil {
			srv.Close()
		}
		vs.Quiesce()
	}
}

func init() {
	register(&Scenario{Prop: "C08", Name: "c08/unusual-wellformed", Quick: []Bound{{1, 0}, {2, 0}}, Thorough: []Bound{{3, 0}}, Body: c08Unusual(c08SrvModes), BudgetQ: 20})
	// the same with the map-race detector (shim/vsync/race.go): a map of the library touched by two goroutines
	// without synchronisation is the runtime's "fatal error: concurrent map writes" waiting to happen
	register(&Scenario{Prop: "C08", Name: "c08/unusual-wellformed-map-races", Quick: []Bound{{1, 0}}, Thorough: []Bound{{2, 0}}, Body: c08Unusual(c08SrvModes), MapRaces: true, BudgetQ: 20})
	register(&Scenario{Prop: "C08", Name: "c08/burst-disconnect-map-races", Quick: []Bound{{1, 0}}, Thorough: []Bound{{2, 0}}, Body: c08Burst(c08SrvModes, 3), MapRaces: true, BudgetQ: 20})
	register(&Scenario{Prop: "C08", Name: "c08/server-frames", Quick: []Bound{{0, 0}}, Thorough: []Bound{{0, 0}}, Body: c08Server(false, c08SrvModes), MinHB: 1, BudgetQ: 40})
	register(&Scenario{Prop: "C08", Name: "c08/server-frames-all-values", Quick: []Bound{}, Thorough: []Bound{{0, 0}}, Body: c08Server(true, c08SrvModes[:1]), MinHB: 1, BudgetT: 400})
	register(&Scenario{Prop: "C08", Name: "c08/client-frames", Quick: []Bound{{0, 0}}, Thorough: []Bound{{0, 0}}, Body: c08Client(false), MinHB: 1})
	register(&Scenario{Prop: "C08", Name: "c08/client-frames-all-values", Quick: []Bound{}, Thorough: []Bound{{0, 0}}, Body: c08Client(true), MinHB: 1, BudgetT: 200})
	register(&Scenario{Prop: "C08", Name: "c08/burst-disconnect", Quick: []Bound{{1, 0}, {2, 0}}, Thorough: []Bound{{3, 0}}, Body: c08Burst(c08SrvModes, 3), BudgetQ: 40})
}

// method names as adversarial data: a peer may put any bytes where the method name goes.  Names
// made of UTF-8 continuation bytes only, of a character cut at every offset around 64, empty,
// without a dot, 300 bytes and 70 KB long, as a unary call and as a stream open, under every header
// encoder: the caller gets an error, nothing panics, the connection serves the next call.
var c08Names = []string{
	strings.Repeat("\x80", 100), strings.Repeat("\xbf", 65) + ".x", strings.Repeat("a", 63) + "é", strings.Repeat("a", 62) + "世界", strings.Repeat("a", 61) + "\U0001F600.",
	"", ".", "nodot", "Svc.", ".Echo", "Svc.Echo\x00", "Svc.echo", " Svc.Echo", strings.Repeat("S", 300) + ".Echo", strings.Repeat("Svc.Echo", 9000), "\xff\xfe.\xfd", strings.Repeat("\xe4\xb8", 40),
}

func c08NamesBody(x *X) {
	enc := encNames[x.Choose(len(encNames))]
	kind := x.Choose(2)
	ni := x.Choose(len(c08Names))
	name := c08Names[ni]
	so := srvOpts{bufSize: 64, enc: enc}
	if ni%2 == 1 {
		so.pipelining = true
	}
	f := newFixture(so, cliOpts{bufSize: 64})
	ret := false
	var err error
	vs.GoNamed("caller", func() {
		if kind == 0 {
			args := mkPayload(0x31, 0, 12)
			var reply []byte
			err = f.conn.Call(name, &args, &reply)
		} else {
			_, err = f.conn.NewStream(name)
		}
		ret = true
	})
	vs.Quiesce()
	valid := utf8.ValidString(name)
	switch {
	case !ret && (enc != "json" || valid):
		x.Fail("C08/unknown-method-hangs", "a %s for the method name %q (%d bytes, header encoder %q) did not return", []string{"call", "stream open"}[kind], clip(name), len(name), enc)
	case ret && err == nil:
		x.Fail("C08/unknown-method-succeeds", "a %s for the method name %q returned nil", []string{"call", "stream open"}[kind], clip(name))
	}
	after := newUcall(0x32, 0, 20, formCall)
	after.spawn(f.conn)
	vs.Quiesce()
	if !after.ret || after.err != nil || !eqBytes(after.reply, after.want()) {
		x.Fail("C08/connection-wedged/method-names", "after a %s for the method name %q (%d bytes, header encoder %q) a request on the same connection: returned=%v err=%v", []string{"call", "stream open"}[kind], clip(name), len(name), enc, after.ret, after.err)
	}
	x.Outcome("enc=%q kind=%d name=%d ret=%v err=%v", enc, kind, ni, ret, err != nil)
	f.conn.Close()
	vs.Quiesce()
}

// three live targets, some calls, one target goes away, some calls within the same detector
// period, two detector periods, six more calls: no call panics or blocks.
func c08Shrink(x *X) {
	sched := []rpc.Scheduling{rpc.RoundRobinScheduling, rpc.LeastTimeScheduling}[x.Choose(2)]
	form := []int{cfCall, cfGo, cfPing, cfRoundTrip}[x.Choose(4)]
	k := x.Choose(5)
	dying := []string{"a", "b", "c"}[x.Choose(3)]
	h := x.Choose(3)
	s := newCliSys(x, sched, "a", "b", "c")
	s.rt.up["a"], s.rt.up["b"], s.rt.up["c"] = true, true, true
	s.tick(2)
	for i := 0; i < k; i++ {
		clientCall(s.c, form)
	}
	s.rt.up[dying] = false
	for i := 0; i < h; i++ {
		clientCall(s.c, form)
	}
	s.tick(2)
	n := 0
	for i := 0; i < 6; i++ {
		vs.GoNamed(fmt.Sprintf("caller%d", i), func() { clientCall(s.c, form); n++ })
		vs.Quiesce()
	}
	if n != 6 {
		x.Fail("C08/client-blocked-after-target-died", "one of three targets went away: %d of 6 later %s calls returned", n, cfNames[form])
	}
	x.Outcome("sched=%d form=%s k=%d dying=%s h=%d", sched, cfNames[form], k, dying, h)
	s.close()
}

func init() {
	register(&Scenario{Prop: "C08", Name: "c08/method-names-as-data", Quick: []Bound{{0, 0}}, Thorough: []Bound{{1, 0}}, Body: c08NamesBody, BudgetQ: 20, BudgetT: 100, MaxSteps: 400000, MinHB: 1})
	register(&Scenario{Prop: "C08", Name: "c08/one-of-three-targets-dies", Quick: []Bound{{0, 0}}, Thorough: []Bound{{1, 0}}, Body: c08Shrink, BudgetQ: 20, BudgetT: 100, MaxSteps: 100000, MinHB: 1})
}

// response writes that fail for different reasons on one Server (the peer has gone: a broken
// pipe; the server's own end was closed by Server.Close: EOF - errors of different concrete types),
// in both orders, with a third connection being served afterwards: nothing panics.
func c08FailedWrites(x *X) {
	order := x.Choose(2)
	dio := x.Choose(2) == 1
	n := newNet()
	w := newWorld()
	so := srvOpts{bufSize: 64, directIO: dio}
	srv, _ := startListener(n, w, "srv", so, false)
	vs.Quiesce()
	dial := func() *rpc.Conn {
		c, err := rpc.DialWithOptions("srv", so.options(n, 64))
		if err != nil {
			vs.Fatal("dial failed: " + err.Error())
		}
		return c
	}
	c1, c2 := dial(), dial()
	u1 := newUcall(1, fGate, 20, formCall)
	u2 := newUcall(2, fGate, 20, formCall)
	u1.spawn(c1)
	u2.spawn(c2)
	vs.Quiesce()
	peerGone := func() {
		// the peer of connection 1 goes away while its call executes; the response write fails
		n.conns[0].end.Kill()
		n.conns[0].end.p.closed[0] = true
		vs.Quiesce()
		w.open(1)
		vs.Quiesce()
	}
	ownClosed := func() {
		// the server closes connection 2 itself while its call executes
		for _, a := range n.lis["srv"].accepted {
			if a.id == n.conns[1].id {
				a.end.Close()
			}
		}
		vs.Quiesce()
		w.open(2)
		vs.Quiesce()
	}
	if order == 0 {
		peerGone()
		ownClosed()
	} else {
		ownClosed()
		peerGone()
	}
	c3 := dial()
	u3 := newUcall(3, 0, 20, formCall)
	u3.spawn(c3)
	vs.Quiesce()
	if !u3.ret || u3.err != nil || !eqBytes(u3.reply, u3.want()) {
		x.Fail("C08/server-not-serving/failed-writes", "after two response writes failed (a broken pipe and a closed connection, order %d) a new connection is not served: returned=%v err=%v", order, u3.ret, u3.err)
	}
	x.Outcome("order=%d dio=%v execs=%d/%d/%d", order, dio, w.execs[1], w.execs[2], w.execs[3])
	c1.Close()
	c2.Close()
	c3.Close()
	srv.Close()
	vs.Quiesce()
}

func init() {
	register(&Scenario{Prop: "C08", Name: "c08/failed-response-writes", Quick: []Bound{{0, 0}, {1, 0}}, Thorough: []Bound{{2, 0}}, Body: c08FailedWrites, MaxSteps: 100000, BudgetQ: 15})
}

// a service whose exported methods have signatures the library's calling conventions do not cover
// (a value instead of a pointer, a context and nothing else, no parameters, three results, a variadic):
// registering such a type is the application's business; a peer that names one of these methods -
// as a call or as a stream open - gets an error or an answer, never a crashed server.
type Odd struct{}

func (o *Odd) Val(a int, res *int) error                       { *res = a; return nil }
func (o *Odd) OnlyCtx(ctx context.Context) error               { return nil }
func (o *Odd) NoArgs() error                                   { return nil }
func (o *Odd) CtxArgs(ctx context.Context, a *[]byte) error    { return nil }
func (o *Odd) CtxVal(ctx context.Context, a int, r *int) error { return nil }
func (o *Odd) ThreeOut(a *int) (int, int, error)               { return 0, 0, nil }
func (o *Odd) Variadic(a *[]byte, more ...*[]byte) error       { return nil }
func (o *Odd) NoErr(a *[]byte, res *[]byte)                    {}
func (o *Odd) Iface(a interface{}, res *[]byte) error          { return nil }
func (o *Odd) Chan(a chan int, res *[]byte) error              { return nil }
func (o *Odd) Good(a *[]byte, res *[]byte) error               { *res = *a; return nil }

var oddMethods = []string{"Val", "OnlyCtx", "CtxArgs", "CtxVal", "NoArgs", "ThreeOut", "Variadic", "NoErr", "Iface", "Chan"}

func c08OddSignatures(x *X) {
	mi := x.Choose(len(oddMethods))
	kind := x.Choose(2)
	cname := []string{"bytes", "json"}[x.Choose(2)]
	svcName := []string{"Odd", "geo.v1", "a.b.c", "Box[time.Duration]", ".odd", "odd."}[x.Choose(6)] // (a registered name may contain dots)
	so := srvOpts{bufSize: 64}
	if cname == "json" {
		so.codec = func() rpc.Codec { return rpc.NewJSONCodec() }
	}
	w := newWorld()
	srv := newServer(w, so)
	regPanic := ""
	func() {
		defer func() {
			if r := recover(); r != nil {
				regPanic = fmt.Sprint(r)
			}
		}()
		if svcName == "Odd" {
			srv.Register(&Odd{})
		} else {
			srv.RegisterName(svcName, &Odd{})
		}
	}()
	if regPanic != "" {
		x.Outcome("Register panicked: %s", regPanic) // (the application's own call: not something a peer does)
		return
	}
	cl, sv := NewPipe()
	serveCodec(srv, sv, so)
	conn := newConn(cl, "", 64, nil) // BYTES on the client: the body is the text below
	ret := false
	var err error
	vs.GoNamed("caller", func() {
		if kind == 0 {
			args := []byte(`5`)
			var reply []byte
			err = conn.Call(svcName+"."+oddMethods[mi], &args, &reply)
		} else {
			_, err = conn.NewStream(svcName + "." + oddMethods[mi])
		}
		ret = true
	})
	vs.Quiesce()
	after := []byte(`"eHl6"`) // (the JSON form of a byte slice)
	if cname == "bytes" {
		after = []byte("xyz")
	}
	var areply []byte
	aret := false
	var aerr error
	vs.GoNamed("caller2", func() { aerr = conn.Call(svcName+".Good", &after, &areply); aret = true })
	vs.Quiesce()
	if !aret || aerr != nil {
		x.Fail("C08/connection-wedged/odd-signatures", "after a %s naming the registered method %s.%s (body codec %s) a well-formed call on the same connection: returned=%v err=%v", []string{"call", "stream open"}[kind], svcName, oddMethods[mi], cname, aret, aerr)
	}
	x.Outcome("%s.%s kind=%d codec=%s ret=%v err=%v", svcName, oddMethods[mi], kind, cname, ret, err)
	conn.Close()
	vs.Quiesce()
}

func init() {
	register(&Scenario{Prop: "C08", Name: "c08/odd-method-signatures", Quick: []Bound{{0, 0}}, Thorough: []Bound{{1, 0}}, Body: c08OddSignatures, BudgetQ: 10, MinHB: 1})
}
