package main

import (
	"context"
	"fmt"
	"sort"
	"strings"
	"time"

	"github.com/hslam/rpc"
	vs "verif/shim/vsync"
	vt "verif/shim/vtime"
)

// C17 — scheduling policies do what their names say.
//
// n stable live targets with scripted latencies that may change between calls; every call
// sequence up to the bound is enumerated (latency changes, pauses and rand.Intn outcomes are
// driver choices).  LeastTime is compared with a reference model of the documented policy.

const maxLatency = int64(time.Minute) // the client's "unreachable / unknown" estimate (clientLatency)

type ltModel struct {
	addrs []string // sorted: the order of the client's live list
	est   map[string]int64
	pos   int
	last  time.Duration // virtual time of the last probe
	first bool
	alpha float64
	tick  time.Duration
}

func newLTModel(addrs []string, alpha float64, tick time.Duration) *ltModel {
	m := &ltModel{addrs: addrs, est: map[string]int64{}, alpha: alpha, tick: tick, first: true}
	for _, a := range addrs {
		m.est[a] = maxLatency
	}
	return m
}

// observe updates the estimate of addr with one observed duration (documented EWMA).
func (m *ltModel) observe(addr string, d time.Duration) {
	old := m.est[addr]
	if old >= maxLatency {
		m.est[addr] = int64(d)
	} else {
		m.est[addr] = int64(float64(old)*m.alpha + float64(d)*(1-m.alpha))
	}
}

// allowed returns the targets a call at virtual time now may legitimately go to.
func (m *ltModel) allowed(now time.Duration) (probe string, mins []string) {
	// a probe is due when no probe happened within the last Tick
	if m.first || now-m.last > m.tick {
		probe = m.addrs[m.pos]
	}
	min := int64(-1)
	for _, a := range m.addrs {
		if min < 0 || m.est[a] < min {
			min = m.est[a]
		}
	}
	for _, a := range m.addrs {
		if m.est[a] == min {
			mins = append(mins, a)
		}
	}
	return
}

func (m *ltModel) probed(now time.Duration) {
	m.first = false
	m.last = now
	m.pos = (m.pos + 1) % len(m.addrs)
}

var c17Lat = []time.Duration{time.Millisecond, 5 * time.Millisecond, 50 * time.Millisecond}

func c17LeastTime(n, ncalls int) func(x *X) { return c17LeastTimeM(n, ncalls, []int{0, 1, 2, 3}) }

// c17LeastTimeM: moves is the alphabet of environment moves before a call (0 nothing, 1 pause 30ms, 2 pause 120ms,
// 3 a latency change, 5 Client.Tick is changed (40 ms <-> 1 s), 4 the application pauses routing for 50 ms with Client.Fallback: the call waits inside the
// Client first - time that is not the target's latency)
func c17LeastTimeM(n, ncalls int, moves []int) func(x *X) {
	return func(x *X) {
		alphas := []float64{0.8, 0.5, 0}
		ai := x.Choose(len(alphas))
		ticks := []time.Duration{100 * time.Millisecond, 10 * time.Millisecond}
		ti := x.Choose(len(ticks))
		addrs := []string{"a", "b", "c", "d"}[:n]
		s := newCliSys(x, rpc.LeastTimeScheduling, addrs...)
		s.c.Alpha = alphas[ai]
		s.c.Tick = ticks[ti]
		rot := x.Choose(n) // which target is fastest initially
		for i, a := range addrs {
			s.rt.up[a] = true
			s.rt.lat[a] = c17Lat[(i+rot)%len(c17Lat)]
		}
		s.tick(2) // detector marks everybody alive and builds the list
		model := newLTModel(addrs, alphas[ai], ticks[ti])
		// the probes of the detector are Pings and do not update estimates
		var trace []string
		for i := 0; i < ncalls; i++ {
			// environment move before the call: nothing / pause 30ms / pause 120ms / a latency change
			move := moves[x.Choose(len(moves))]
			switch move {
			case 1:
				vt.Advance(30 * time.Millisecond)
				vs.Quiesce()
			case 2:
				vt.Advance(120 * time.Millisecond)
				vs.Quiesce()
			case 3:
				a := addrs[x.Choose(n)]
				s.rt.lat[a] = c17Lat[(indexOf(c17Lat, s.rt.lat[a])+1)%len(c17Lat)]
			case 4:
				s.c.Fallback(50 * time.Millisecond)
			case 5:
				// the application changes Client.Tick at run time: "at most one probe per Tick" is about the Tick in force
				nt := time.Second
				if s.c.Tick == time.Second {
					nt = 40 * time.Millisecond
				}
				s.c.Tick, model.tick = nt, nt
			}
			from := len(s.rt.routed)
			var err error
			if move == 4 {
				done := false
				vs.GoNamed(fmt.Sprintf("caller%d", i), func() { err = s.c.Call("X.Y", nil, nil); done = true })
				vs.Quiesce()
				for k := 0; k < 30 && !done; k++ {
					vt.Advance(10 * time.Millisecond)
					vs.Quiesce()
				}
				if !done {
					x.Fail("C17/call-failed", "call %d did not return after a 50 ms Fallback", i)
					break
				}
			} else {
				err = s.c.Call("X.Y", nil, nil)
			}
			rs := s.rt.userRoutes(from)
			if err != nil || len(rs) != 1 {
				x.Fail("C17/call-failed", "call %d: err=%v routes=%d", i, err, len(rs))
				break
			}
			got := rs[0].addr
			now := rs[0].at // when the call was routed (after any wait inside the Client)
			probe, mins := model.allowed(now)
			dur := s.rt.lat[got] // the round trip itself: what the latency estimate is an estimate of
			switch {
			case probe != "" && got == probe:
				model.probed(now)
				trace = append(trace, got+"*")
			case probe != "":
				x.Fail("C17/leasttime-probe-skipped", "call %d at %v: a probe of %q was due (no probe within Tick=%v) but the call went to %q; calls so far %v", i, now, probe, model.tick, got, trace)
				trace = append(trace, got+"!")
			case !member(mins, got):
				x.Fail("C17/leasttime-not-minimal", "call %d at %v went to %q (estimate %v) but the minimal estimate belongs to %v; estimates %v; calls so far %v (alpha %.1f)", i, now, got, time.Duration(model.est[got]), mins, estString(model), trace, model.alpha)
				trace = append(trace, got+"!")
			default:
				trace = append(trace, got)
			}
			model.observe(got, dur)
		}
		x.Outcome("n=%d alpha=%.1f tick=%v rot=%d %v", n, alphas[ai], ticks[ti], rot, trace)
		s.close()
	}
}

// more targets than a binary heap has levels to hide mistakes in: the fastest target sits deep in the heap
func c17LeastTimeMany(n int) func(x *X) {
	return func(x *X) {
		addrs := []string{"a", "b", "c", "d", "e", "f"}[:n]
		s := newCliSys(x, rpc.LeastTimeScheduling, addrs...)
		s.c.Alpha = []float64{0.8, 0}[x.Choose(2)]
		s.c.Tick = 100 * time.Millisecond
		fast := x.Choose(n)
		mid := x.Choose(n)
		for i, a := range addrs {
			s.rt.up[a] = true
			s.rt.lat[a] = 30 * time.Millisecond
			if i == mid {
				s.rt.lat[a] = 10 * time.Millisecond
			}
			if i == fast {
				s.rt.lat[a] = time.Millisecond
			}
		}
		s.tick(2)
		model := newLTModel(addrs, s.c.Alpha, s.c.Tick)
		var trace []string
		ncalls := 2*n + 3
		for i := 0; i < ncalls; i++ {
			if i < n {
				vt.Advance(120 * time.Millisecond) // one probe per call: every target is measured once
				vs.Quiesce()
			} else if x.Choose(3) == 1 {
				vt.Advance(30 * time.Millisecond)
				vs.Quiesce()
			}
			now := vt.Elapsed()
			probe, mins := model.allowed(now)
			from := len(s.rt.routed)
			err := s.c.Call("X.Y", nil, nil)
			rs := s.rt.userRoutes(from)
			if err != nil || len(rs) != 1 {
				x.Fail("C17/call-failed", "call %d: err=%v routes=%d", i, err, len(rs))
				break
			}
			got := rs[0].addr
			dur := vt.Elapsed() - now
			switch {
			case probe != "" && got == probe:
				model.probed(now)
				trace = append(trace, got+"*")
			case probe != "":
				x.Fail("C17/leasttime-probe-skipped", "call %d at %v: a probe of %q was due but the call went to %q; calls so far %v", i, now, probe, got, trace)
			case !member(mins, got):
				x.Fail("C17/leasttime-not-minimal", "%d targets: call %d at %v went to %q (estimate %v) but the minimal estimate belongs to %v; estimates %v; calls so far %v", n, i, now, got, time.Duration(model.est[got]), mins, estString(model), trace)
			default:
				trace = append(trace, got)
			}
			model.observe(got, dur)
		}
		x.Outcome("n=%d fast=%d mid=%d %v", n, fast, mid, trace)
		s.close()
	}
}

func estString(m *ltModel) string {
	out := ""
	for _, a := range m.addrs {
		out += fmt.Sprintf("%s=%v ", a, time.Duration(m.est[a]))
	}
	return out
}

func indexOf(l []time.Duration, d time.Duration) int {
	for i, v := range l {
		if v == d {
			return i
		}
	}
	return 0
}

// unreachable targets are reset to the maximum and leave the live list; estimates restart.
func c17Unreachable(x *X) {
	s := newCliSys(x, rpc.LeastTimeScheduling, "a", "b", "c")
	for i, a := range []string{"a", "b", "c"} {
		s.rt.up[a] = true
		s.rt.lat[a] = c17Lat[i]
	}
	s.tick(2)
	for i := 0; i < 4; i++ {
		s.c.Call("X.Y", nil, nil)
	}
	// the fastest target goes away: after detection nothing is routed to it, and the next best wins
	s.rt.up["a"] = false
	for i := 0; i < 3; i++ {
		s.c.Call("X.Y", nil, nil)
		s.tick(1)
	}
	s.tick(3)
	from := len(s.rt.routed)
	for i := 0; i < 4; i++ {
		s.c.Call("X.Y", nil, nil)
	}
	for _, r := range s.rt.userRoutes(from) {
		if r.addr == "a" {
			x.Fail("C17/unreachable-still-chosen", "target a is unreachable but still receives calls")
		}
	}
	// it comes back: its estimate restarts from the maximum, so it is only used again through a probe or once measured
	s.rt.up["a"] = true
	s.tick(3)
	vt.Advance(150 * time.Millisecond)
	from = len(s.rt.routed)
	var seq []string
	for i := 0; i < 8; i++ {
		s.c.Call("X.Y", nil, nil)
		vt.Advance(40 * time.Millisecond)
		vs.Quiesce()
	}
	for _, r := range s.rt.userRoutes(from) {
		seq = append(seq, r.addr)
	}
	x.Outcome("%v", seq)
	if !member(seq, "a") {
		x.Fail("C17/recovered-target-never-probed", "target a recovered but was not probed within 8 calls spread over 3 Ticks: %v", seq)
	}
	s.close()
}

func c17RoundRobinRandom(n int) func(x *X) {
	return func(x *X) {
		pol := x.Choose(2)
		addrs := []string{"a", "b", "c", "d"}[:n]
		s := newCliSys(x, rpc.Scheduling(pol), addrs...)
		for _, a := range addrs {
			s.rt.up[a] = true
		}
		extra := "e"
		s.rt.up[extra] = false
		startShift := x.Choose(n) // some earlier calls so that the cursor is not at its initial position
		s.tick(2)
		for i := 0; i < startShift; i++ {
			s.c.Call("X.Y", nil, nil)
		}
		forms := []int{cfCall, cfGo, cfPing, cfCallCtx, cfRoundTrip, cfStream}
		fo := x.Choose(len(forms))
		from := len(s.rt.routed)
		total := 2*n + 1
		for i := 0; i < total; i++ {
			if err := clientCall(s.c, forms[(fo+i)%len(forms)]); err != nil {
				x.Fail("C17/call-failed", "call failed: %v", err)
			}
			if pol == 0 && i%2 == 0 && x.Choose(2) == 1 {
				s.tick(1) // detector ticks between calls must not disturb the rotation
			}
		}
		rs := s.rt.userRoutes(from)
		var seq []string
		for _, r := range rs {
			seq = append(seq, r.addr)
			if !member(addrs, r.addr) {
				x.Fail("C17/not-a-live-target", "policy %d routed to %q which is not a live target", pol, r.addr)
			}
		}
		if pol == 0 {
			for i := 0; i+n <= len(seq); i++ {
				w := append([]string{}, seq[i:i+n]...)
				sort.Strings(w)
				for j := 1; j < len(w); j++ {
					if w[j] == w[j-1] {
						x.Fail("C17/roundrobin-repeats", "round robin over %d live targets sent %d consecutive calls to %v (full sequence %v)", n, n, seq[i:i+n], seq)
					}
				}
			}
		}
		x.Outcome("pol=%d n=%d %v", pol, n, seq)
		s.close()
	}
}

func init() {
	register(&Scenario{Prop: "C17", Name: "c17/roundrobin-random-2", Quick: []Bound{{0, 0}, {1, 0}}, Thorough: []Bound{{2, 0}}, Body: c17RoundRobinRandom(2), MaxSteps: 100000})
	register(&Scenario{Prop: "C17", Name: "c17/roundrobin-random-3", Quick: []Bound{{0, 0}}, Thorough: []Bound{{1, 0}}, Body: c17RoundRobinRandom(3), MaxSteps: 100000})
	register(&Scenario{Prop: "C17", Name: "c17/leasttime-2x5", Quick: []Bound{{0, 0}}, Thorough: []Bound{{0, 0}}, Body: c17LeastTime(2, 5), MaxSteps: 100000})
	register(&Scenario{Prop: "C17", Name: "c17/leasttime-with-fallback-2x5", Quick: []Bound{{0, 0}}, Thorough: []Bound{{0, 0}}, Body: c17LeastTimeM(2, 5, []int{0, 4, 3}), MaxSteps: 100000})
	register(&Scenario{Prop: "C17", Name: "c17/leasttime-tick-changes-2x6", Quick: []Bound{{0, 0}}, Thorough: []Bound{{0, 0}}, Body: c17LeastTimeM(2, 6, []int{0, 5, 1, 2}), MaxSteps: 100000})
	register(&Scenario{Prop: "C17", Name: "c17/leasttime-with-fallback-3x4", Quick: []Bound{{0, 0}}, Thorough: []Bound{{0, 0}}, Body: c17LeastTimeM(3, 4, []int{0, 4, 2}), MaxSteps: 100000})
	register(&Scenario{Prop: "C17", Name: "c17/leasttime-3x5", Quick: []Bound{{0, 0}}, Thorough: []Bound{{0, 0}}, Body: c17LeastTime(3, 5), MaxSteps: 100000})
	register(&Scenario{Prop: "C17", Name: "c17/leasttime-3x7", Quick: []Bound{}, Thorough: []Bound{{0, 0}}, Body: c17LeastTime(3, 7), MaxSteps: 100000, BudgetT: 400})
	register(&Scenario{Prop: "C17", Name: "c17/leasttime-4targets", Quick: []Bound{{0, 0}}, Thorough: []Bound{{0, 0}}, Body: c17LeastTimeMany(4), MaxSteps: 100000})
	register(&Scenario{Prop: "C17", Name: "c17/leasttime-5targets", Quick: []Bound{{0, 0}}, Thorough: []Bound{{0, 0}}, Body: c17LeastTimeMany(5), MaxSteps: 100000, BudgetQ: 25})
	register(&Scenario{Prop: "C17", Name: "c17/leasttime-6targets", Quick: []Bound{}, Thorough: []Bound{{0, 0}}, Body: c17LeastTimeMany(6), MaxSteps: 100000})
	register(&Scenario{Prop: "C17", Name: "c17/unreachable", Quick: []Bound{{1, 0}}, Thorough: []Bound{{2, 0}}, Body: c17Unreachable, MaxSteps: 100000})
}

// concurrent callers: scheduling decisions are taken one at a time, so whatever the interleaving
// of k callers, 2n calls over n stable live targets give every target exactly two calls, and
// (LeastTime, all estimates unknown, within one Tick) at most one call is a rotation probe.
func c17Concurrent(n, ncallers int) func(x *X) {
	return func(x *X) {
		addrs := []string{"a", "b", "c", "d"}[:n]
		s := newCliSys(x, rpc.RoundRobinScheduling, addrs...)
		for _, a := range addrs {
			s.rt.up[a] = true
		}
		startShift := x.Choose(n)
		s.tick(2)
		for i := 0; i < startShift; i++ {
			s.c.Call("X.Y", nil, nil)
		}
		forms := []int{cfCall, cfGo, cfPing, cfCallCtx, cfRoundTrip, cfStream}
		fo := x.Choose(len(forms))
		from := len(s.rt.routed)
		total := 2 * n
		// how many calls each caller makes: the first ncallers-1 callers make k calls each (a choice)
		k := 1 + x.Choose((total-1)/(ncallers-1))
		nerr := 0
		for t := 0; t < ncallers; t++ {
			t := t
			cnt := k
			if t == ncallers-1 {
				cnt = total - k*(ncallers-1)
			}
			vs.GoNamed(fmt.Sprintf("caller%d", t), func() {
				for i := 0; i < cnt; i++ {
					if err := clientCall(s.c, forms[(fo+t+i)%len(forms)]); err != nil {
						nerr++
					}
				}
			})
		}
		vs.Quiesce()
		if nerr > 0 {
			x.Fail("C17/call-failed", "%d calls failed although every target is up", nerr)
		}
		counts := map[string]int{}
		var seq []string
		for _, r := range s.rt.userRoutes(from) {
			counts[r.addr]++
			seq = append(seq, r.addr)
		}
		if len(seq) != total {
			x.Fail("C17/calls-not-routed", "%d calls issued, %d routed: %v", total, len(seq), seq)
		}
		for _, a := range addrs {
			if counts[a] != 2 {
				x.Fail("C17/roundrobin-unbalanced", "%d concurrent callers made %d calls over %d live targets; every target must get exactly 2, got %v (arrival order %v)", ncallers, total, n, counts, seq)
				break
			}
		}
		x.Outcome("n=%d k=%d %v", n, k, seq)
		s.close()
	}
}

func init() {
	register(&Scenario{Prop: "C17", Name: "c17/roundrobin-2callers-3targets", Quick: []Bound{{1, 0}, {2, 0}}, Thorough: []Bound{{3, 0}}, Body: c17Concurrent(3, 2), MaxSteps: 100000})
	register(&Scenario{Prop: "C17", Name: "c17/roundrobin-3callers-2targets", Quick: []Bound{{1, 0}, {2, 0}}, Thorough: []Bound{{3, 0}}, Body: c17Concurrent(2, 3), MaxSteps: 100000})
}

// map iteration order is unspecified: with one configured target that stays unreachable the
// client re-examines its target table on every detector tick; whatever order that walk takes,
// the rotation over the stable live targets goes on undisturbed.  The iteration order of every
// instrumented map range is an environment choice here (fault bound = number of walks that
// deviate from the canonical order).
func c17MapOrder(x *X) {
	vs.MapOrderChoices = true
	defer func() { vs.MapOrderChoices = false }()
	n := 3
	addrs := []string{"a", "b", "c"}
	s := newCliSys(x, rpc.RoundRobinScheduling, "c", "x", "b", "a")
	for _, a := range addrs {
		s.rt.up[a] = true
	}
	s.rt.up["x"] = false
	s.tick(2)
	startShift := x.Choose(n)
	for i := 0; i < startShift; i++ {
		s.c.Call("X.Y", nil, nil)
	}
	from := len(s.rt.routed)
	for i := 0; i < 2*n+1; i++ {
		if err := clientCall(s.c, cfCall); err != nil {
			x.Fail("C17/call-failed", "call failed: %v", err)
		}
		if i%2 == 1 {
			s.tick(1)
		}
	}
	var seq []string
	for _, r := range s.rt.userRoutes(from) {
		seq = append(seq, r.addr)
		if !member(addrs, r.addr) {
			x.Fail("C17/not-a-live-target", "round robin routed to %q which is not a live target", r.addr)
		}
	}
	for i := 0; i+n <= len(seq); i++ {
		w := append([]string{}, seq[i:i+n]...)
		sort.Strings(w)
		for j := 1; j < len(w); j++ {
			if w[j] == w[j-1] {
				x.Fail("C17/roundrobin-repeats", "round robin over %d stable live targets (one more configured target is unreachable) sent %d consecutive calls to %v (full sequence %v)", n, n, seq[i:i+n], seq)
			}
		}
	}
	x.Outcome("shift=%d %v", startShift, seq)
	s.close()
}

func init() {
	register(&Scenario{Prop: "C17", Name: "c17/roundrobin-map-order", Quick: []Bound{{0, 1}, {0, 2}}, Thorough: []Bound{{1, 2}, {0, 3}}, Body: c17MapOrder, MaxSteps: 100000})
}

// several callers wait out a Fallback pause together and are released in one go: with n live
// targets and round robin, n callers released together go to n distinct targets (each released
// caller takes its own turn of the rotation).
func c17ReleasedTogether(x *X) {
	n := 2 + x.Choose(2)
	addrs := []string{"a", "b", "c"}[:n]
	s := newCliSys(x, rpc.RoundRobinScheduling, addrs...)
	for _, a := range addrs {
		s.rt.up[a] = true
	}
	s.tick(2)
	k := x.Choose(n) // calls made before: the rotation stands anywhere
	for i := 0; i < k; i++ {
		clientCall(s.c, cfCall)
	}
	s.c.Fallback(150 * time.Millisecond)
	from := len(s.rt.routed)
	forms := make([]int, n)
	for i := range forms {
		forms[i] = []int{cfCall, cfGo, cfCallCtx}[(i+k)%3]
	}
	ws := spawnWaiters(s, forms)
	vs.Quiesce()
	s.tick(4)
	var seq []string
	for _, r := range s.rt.userRoutes(from) {
		seq = append(seq, r.addr)
	}
	for _, w := range ws {
		if !w.done || w.err != nil {
			x.Fail("C17/released-caller-failed", "a %s caller that waited out a 150 ms Fallback: returned=%v err=%v", cfNames[w.form], w.done, w.err)
		}
	}
	if len(seq) == n && len(dedup(seq)) != n {
		x.Fail("C17/roundrobin-repeats/released-together", "%d callers waited out a Fallback pause and were released together; with %d live targets and round robin they were sent to %v", n, n, seq)
	}
	x.Outcome("n=%d k=%d seq=%v", n, k, seq)
	s.close()
}

// a client that uses one call form only (streams only, Go only, ...): one of three live targets
// starts refusing connections; after the call that hits it and two detector periods no call is sent
// to it any more, and round robin alternates between the two live ones.  Registered under C17 and C18.
func oneFormWorkload(prop string) func(x *X) {
	return func(x *X) {
		form := x.Choose(nCForms)
		sched := []rpc.Scheduling{rpc.RoundRobinScheduling, rpc.LeastTimeScheduling, rpc.RandomScheduling}[x.Choose(3)]
		dying := []string{"a", "b", "c"}[x.Choose(3)]
		s := newCliSys(x, sched, "a", "b", "c")
		s.c.Tick = 50 * time.Millisecond
		for i, a := range []string{"a", "b", "c"} {
			s.rt.up[a] = true
			s.rt.lat[a] = time.Duration(3-i) * time.Millisecond
		}
		s.tick(2)
		one := func() {
			done := false
			vs.GoNamed("caller", func() { clientCall(s.c, form); done = true })
			vs.Quiesce()
			for k := 0; k < 7 && !done; k++ {
				s.tick(1)
			}
		}
		for i := 0; i < 3; i++ {
			one()
		}
		s.rt.up[dying] = false
		ncalls := 4
		if sched == rpc.RandomScheduling {
			ncalls = 2
		}
		det := len(s.rt.routed)
		for i := 0; i < ncalls; i++ { // one of them hits the dying target (LeastTime: when it is probed)
			one()
			s.tick(1)
		}
		noticed := false // a target is only found dead by a call that fails on it
		for _, r := range s.rt.userRoutes(det) {
			if r.addr == dying {
				noticed = true
			}
		}
		s.tick(2)
		from := len(s.rt.routed)
		for i := 0; i < ncalls; i++ {
			one()
			s.tick(1)
		}
		var seq []string
		hits := 0
		for _, r := range s.rt.userRoutes(from) {
			seq = append(seq, r.addr)
			if r.addr == dying {
				hits++
			}
		}
		if noticed && (hits > 1 || hits == 1 && sched != rpc.LeastTimeScheduling) {
			// (LeastTime may still have had its first probe of the dead target ahead of it)
			if prop == "C18" {
				x.Fail("C18/no-failover/one-form", "target %s has refused connections for %d calls and %d detector periods and a client that only uses %s (scheduling %d) still sends calls to it: %v", dying, ncalls, ncalls+2, cfNames[form], sched, seq)
			} else {
				x.Fail("C17/not-a-live-target/one-form", "a client that only uses %s (scheduling %d) routed to %q, which has refused connections for %d calls and %d detector periods: %v", cfNames[form], sched, dying, ncalls, ncalls+2, seq)
			}
		}
		x.Outcome("form=%s sched=%d dying=%s noticed=%v seq=%v", cfNames[form], sched, dying, noticed, seq)
		s.close()
	}
}

func init() {
	register(&Scenario{Prop: "C17", Name: "c17/released-together", Quick: []Bound{{0, 0}, {1, 0}}, Thorough: []Bound{{2, 0}}, Body: c17ReleasedTogether, MaxSteps: 100000, BudgetQ: 15})
	register(&Scenario{Prop: "C17", Name: "c17/one-form-workload", Quick: []Bound{{0, 0}}, Thorough: []Bound{{1, 0}}, Body: oneFormWorkload("C17"), MaxSteps: 200000, BudgetQ: 20, BudgetT: 200})
	register(&Scenario{Prop: "C18", Name: "c18/one-form-workload", Quick: []Bound{{0, 0}}, Thorough: []Bound{{1, 0}}, Body: oneFormWorkload("C18"), MaxSteps: 200000, BudgetQ: 20, BudgetT: 200})
}

// the whole stack (Client, Transport, Conn, the fake network, two servers whose handlers take 1 ms and
// 30 ms): what a handler answers is the answer of a reachable target, whatever its text - including the
// texts of the package's own error values, which a gateway passes on when its own downstream call
// failed.  Differential oracle: the same sequence of calls is made twice on fresh clients, once with a
// neutral error text and once with the text under test; the sequence of targets the calls were executed
// on must be the same (RoundRobin: it also alternates; LeastTime, after both targets were observed and
// with no probe due: every call goes to the fast one), every call is executed exactly once and returns
// exactly the handler's text.
var c17Texts = []string{rpc.ErrDial.Error(), rpc.ErrTimeout.Error(), rpc.ErrStreamShutdown.Error(), "There is no alive target", "EOF"}

func c17HandlerErrors(x *X) {
	sched := []rpc.Scheduling{rpc.RoundRobinScheduling, rpc.LeastTimeScheduling}[x.Choose(2)]
	text := c17Texts[x.Choose(len(c17Texts))]
	const K = 6
	failing := 1 + x.Choose(K-2) // which call fails
	form := []int{formCall, formGo, formCallCtx}[x.Choose(3)]
	pause := x.Choose(2) == 1 // a round of health probes passes after the failing call
	n := newNet()
	wa, wb := newWorld(), newWorld()
	wa.delay, wb.delay = time.Millisecond, 30*time.Millisecond
	so := srvOpts{bufSize: 64}
	sa, _ := startListener(n, wa, "a", so, false)
	sb, _ := startListener(n, wb, "b", so, false)
	vs.Quiesce()
	tagNo := byte(0x10)
	run := func(text string) (trace string) {
		c := rpc.NewClient(so.options(n, 64), "a", "b")
		c.Scheduling = sched
		c.DialTimeout = 700 * 1e6
		c.Tick = time.Nanosecond // LeastTime: every call is a probe (plain rotation) until both targets were observed
		vs.Quiesce()
		vt.Advance(cTick)
		vs.Quiesce()
		one := func(fail bool, f int) (where string, err error) {
			tagNo++
			tag := tagNo
			fl := byte(0)
			if fail {
				fl = fErr
				wa.errText[tag], wb.errText[tag] = text, text
			}
			u := newUcall(tag, fl, 16, formCall)
			done := false
			vs.GoNamed(fmt.Sprintf("caller%d", tag), func() {
				switch f {
				case formGo:
					ch := make(chan *rpc.Call, 1)
					call := c.Go(u.method, &u.args, &u.reply, ch)
					recvCall(ch)
					err = call.Error
				case formCallCtx:
					err = c.CallWithContext(context.Background(), u.method, &u.args, &u.reply)
				default:
					err = c.Call(u.method, &u.args, &u.reply)
				}
				done = true
			})
			vs.Quiesce()
			for k := 0; k < 40 && !done; k++ {
				vt.Advance(time.Millisecond)
				vs.Quiesce()
			}
			if !done {
				x.Fail("C17/call-failed", "a call to two live targets has not returned after 40 ms")
				return "?", nil
			}
			if !fail && (err != nil || !eqBytes(u.reply, u.want())) {
				x.Fail("C17/call-failed", "a call (error text under test %q): %v", text, err)
			}
			ea, eb := wa.execs[tag], wb.execs[tag]
			switch {
			case ea == 1 && eb == 0:
				where = "a"
			case ea == 0 && eb == 1:
				where = "b"
			default:
				where = "?"
				x.Fail("C17/not-executed-once", "a call was executed %d times on a and %d times on b", ea, eb)
			}
			return
		}
		for i := 0; i < 4; i++ {
			w, _ := one(false, formCall)
			trace += w
		}
		trace += "|"
		c.Tick = time.Hour
		for i := 0; i < K; i++ {
			w, err := one(i == failing, form)
			trace += w
			if i == failing {
				if err == nil || err.Error() != text {
					x.Fail("C17/handler-error-changed", "the handler on a reachable target returned %q, the Client call returned %v", text, err)
				}
				if pause {
					vt.Advance(3 * cTick)
					vs.Quiesce()
				}
			}
		}
		c.Close()
		vs.Quiesce()
		return
	}
	ref := run("boom")
	got := run(text)
	if ref != got {
		x.Fail("C17/handler-error-reroutes", "scheduling %d, two live targets (handlers take 1 ms on a, 30 ms on b): with a handler error %q at call %d the calls went to %s, with the error text %q to %s", sched, "boom", failing, ref, text, got)
	}
	tail := got[strings.Index(got, "|")+1:]
	if sched == rpc.RoundRobinScheduling {
		for i := 1; i < len(tail); i++ {
			if tail[i] == tail[i-1] {
				x.Fail("C17/roundrobin-order", "two live targets, handler error %q at call %d: calls went to %s", text, failing, got)
				break
			}
		}
	} else if strings.Trim(tail, "a") != "" {
		x.Fail("C17/leasttime-not-minimal", "two live targets, both observed (1 ms on a, 30 ms on b), no probe due, handler error %q at call %d: calls went to %s", text, failing, got)
	}
	x.Outcome("sched=%d text=%q failing=%d form=%d pause=%v %s %s", sched, text, failing, form, pause, ref, got)
	sa.Close()
	sb.Close()
	vs.Quiesce()
}

func init() {
	register(&Scenario{Prop: "C17", Name: "c17/handler-error-texts", Quick: []Bound{{0, 0}}, Thorough: []Bound{{1, 0}}, Body: c17HandlerErrors, MaxSteps: 400000, BudgetQ: 25, BudgetT: 200})
}
