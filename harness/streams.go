package main

import (
	"fmt"

	"github.com/hslam/rpc"
	vs "verif/shim/vsync"
)

// SS is the argument type of stream handlers: the library connects the stream through Connect.
type SS struct{ st rpc.Stream }

// Connect implements rpc.SetStream.
func (s *SS) Connect(st rpc.Stream) error {
	s.st = st
	if ssConnectGate != nil {
		ssConnectGate()
	}
	return nil
}

// ssConnectGate, when set by a scenario (and cleared at its end), runs inside every Connect: user
// code that is slow while the library is connecting the stream.
var ssConnectGate func()

// StreamSvc is the registered stream service.
type StreamSvc struct{ w *World }

// Push pushes w.pushN messages right after the stream was opened, then echoes every message
// (transformed) until the stream ends.
func (a *StreamSvc) Push(s *SS) error {
	w := a.w
	w.streamsIn++
	defer func() { w.streamsEx++ }()
	for i := 0; i < w.pushN; i++ {
		m := []byte{0xEE, byte(i), 0xEE, byte(i)}
		if err := s.st.WriteMessage(&m); err != nil {
			return err
		}
	}
	for {
		var in []byte
		if err := s.st.ReadMessage(nil, &in); err != nil {
			// what the handler sees when its stream ends, and what later operations return
			var again []byte
			msg := []byte{0xDD}
			w.streamEnd = append(w.streamEnd, [3]string{errStr(err), errStr(s.st.WriteMessage(&msg)), errStr(s.st.ReadMessage(nil, &again))})
			return err
		}
		if w.streamHold {
			// the handler is slow: later messages pile up in the stream's receive queue
			vs.Block("stream handler held", func() bool { return !w.streamHold })
		}
		if w.badPush && len(in) > 0 && in[0] == 0xBD {
			// answer with a message the body codec refuses (see rejectCodec): that write fails,
			// the stream goes on
			bad := []byte{0xEE, 0xEE, 1}
			w.badPushErr = errStr(s.st.WriteMessage(&bad))
		}
		if w.keep {
			w.kept = append(w.kept, in)
			w.keptSum = append(w.keptSum, digest(in))
		}
		if len(in) > 0 {
			w.streamLog[in[0]] = append(w.streamLog[in[0]], fmt.Sprintf("%x", in))
		}
		out := transform(in)
		if err := s.st.WriteMessage(&out); err != nil {
			return err
		}
	}
}

// CloseSelf: a handler that closes its own stream after the first message (user code may call
// Stream.Close from the handler's goroutine) and returns when told to.
func (a *StreamSvc) CloseSelf(s *SS) error {
	w := a.w
	w.streamsIn++
	defer func() { w.streamsEx++ }()
	var in []byte
	err := s.st.ReadMessage(nil, &in)
	s.st.Close()
	return err
}

// Duplex: a full-duplex handler: the handler's own goroutine blocks in ReadMessage (and echoes), a second
// goroutine of the same handler pushes a message each time the scenario opens the next gate.
func (a *StreamSvc) Duplex(s *SS) error {
	w := a.w
	w.streamsIn++
	defer func() { w.streamsEx++ }()
	vs.GoNamed("duplex-pusher", func() {
		for i := 0; i < 3; i++ {
			tag := byte(0xD0 + i)
			vs.Block(fmt.Sprintf("pusher gate %d", i), func() bool { return w.gates[tag] })
			m := []byte{0xEE, byte(i), 0xEE, byte(i)}
			w.duplexPush = append(w.duplexPush, errStr(s.st.WriteMessage(&m)))
		}
	})
	for {
		var in []byte
		if err := s.st.ReadMessage(nil, &in); err != nil {
			return err
		}
		out := transform(in)
		if err := s.st.WriteMessage(&out); err != nil {
			return err
		}
	}
}
