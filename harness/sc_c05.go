package main

import (
	"fmt"
	"github.com/hslam/socket"

	"github.com/hslam/rpc"
	vs "verif/shim/vsync"
)

// C05 — pipelining executes and completes a connection's calls in order.
//
// One thread issues n asynchronous Go calls (different sizes, every second one fails in the
// handler) on one shared Done channel; the handler has scheduling points inside so that overlap
// is expressible.  Server pipelining on; client pipelining off / on; ServeCodec with and without
// direct I/O (poll emulation: see sc_poll.go).

type c05conn struct {
	f       *fixture
	done    chan *rpc.Call
	calls   []*rpc.Call
	tags    []byte
	order   []byte
	unknown []byte // tags of calls that name an unknown method (never executed)
}

// c05Sizes: the argument sizes of the calls a scenario issues, in turn.
var c05Sizes = []int{40, 300, 3, 90, 64}

func c05Issue(f *fixture, base byte, n int) *c05conn { return c05IssueU(f, base, n, -1) }

// c05IssueU: the call at position unknown (if >= 0) names a method that does not exist.
func c05IssueU(f *fixture, base byte, n int, unknown int) *c05conn {
	c := &c05conn{f: f, done: make(chan *rpc.Call, 16)}
	sizes := c05Sizes
	for i := 0; i < n; i++ {
		tag := base + byte(i)
		flags := byte(fYield)
		method := "Svc.Echo"
		if i == unknown {
			method = "Svc.Nope"
			f.w.errText[tag] = "can't find service Svc.Nope"
			flags |= fErr
		} else if i%2 == 1 {
			flags |= fErr
			f.w.errText[tag] = fmt.Sprintf("fail-%d", tag)
		}
		args := mkPayload(tag, flags, sizes[i%len(sizes)])
		var reply []byte
		c.calls = append(c.calls, f.conn.Go(method, &args, &reply, c.done))
		c.tags = append(c.tags, tag)
		if i == unknown {
			c.unknown = append(c.unknown, tag)
		}
	}
	return c
}

func (c *c05conn) collect() {
	for len(c.done) > 0 {
		call := <-c.done
		c.order = append(c.order, (*call.Args.(*[]byte))[0])
	}
}

func wireSeqs(enc rpc.Encoder, frames []Frame, dir int) []uint64 {
	var out []uint64
	for _, fr := range frames {
		if fr.Dir != dir {
			continue
		}
		if dir == 0 {
			if r, ok := decodeReq(enc, fr.Data); ok {
				out = append(out, r.Seq)
			}
		} else {
			if r, ok := decodeRes(enc, fr.Data); ok {
				out = append(out, r.Seq)
			}
		}
	}
	return out
}

func c05Judge(x *X, c *c05conn, w *World, clientPipe bool, label string) string {
	c.collect()
	var mine []byte
	for _, t := range w.startSeq {
		for _, own := range c.tags {
			if t == own {
				mine = append(mine, t)
			}
		}
	}
	var exec []byte
	for _, t := range c.tags {
		skip := false
		for _, u := range c.unknown {
			if u == t {
				skip = true
			}
		}
		if !skip {
			exec = append(exec, t)
		}
	}
	if fmt.Sprint(mine) != fmt.Sprint(exec) {
		x.Fail("C05/execution-order/"+label, "handlers of one connection started in order %v, requests were sent in order %v", mine, c.tags)
	}
	req := wireSeqs(wireEncoder(c.f.so.enc), c.f.cl.Wire(), 0)
	res := wireSeqs(wireEncoder(c.f.so.enc), c.f.cl.Wire(), 1)
	if fmt.Sprint(req) != fmt.Sprint(res) {
		x.Fail("C05/response-order/"+label, "responses were written in order %v, requests in order %v", res, req)
	}
	if len(c.order) != len(c.tags) {
		x.Fail("C05/incomplete/"+label, "%d of %d calls were signalled", len(c.order), len(c.tags))
	} else if clientPipe && fmt.Sprint(c.order) != fmt.Sprint(c.tags) {
		x.Fail("C05/completion-order/"+label, "calls issued in order %v were signalled complete in order %v (client pipelining on)", c.tags, c.order)
	}
	for i, call := range c.calls {
		tag := c.tags[i]
		args := *call.Args.(*[]byte)
		if args[1]&fErr != 0 {
			if call.Error == nil || call.Error.Error() != w.errText[tag] {
				x.Fail("C05/wrong-result/"+label, "call %d should fail with %q, got %v", tag, w.errText[tag], call.Error)
			}
		} else if call.Error != nil || !eqBytes(*call.Reply.(*[]byte), transform(args)) {
			x.Fail("C05/wrong-result/"+label, "call %d: error %v, reply %x", tag, call.Error, *call.Reply.(*[]byte))
		}
	}
	return fmt.Sprintf("%s exec=%v wire=%v done=%v", label, mine, res, c.order)
}

func c05Body(n int) func(x *X) { return c05BodyM(n, sysModes[:1]) }

func c05BodyM(n int, modes []sysMode) func(x *X) {
	return func(x *X) {
		mode := modes[x.Choose(len(modes))]
		clientPipe := x.Choose(2) == 1
		directIO := x.Choose(2) == 1
		unknown := x.Choose(n+1) - 1 // position of a call to an unknown method (-1: none)
		so := srvOpts{bufSize: 64, pipelining: true, directIO: directIO}
		cliDio := clientPipe && x.Choose(2) == 1 // client-side direct I/O together with client pipelining
		s := newSys(mode, so, cliOpts{bufSize: 64, pipelining: clientPipe, directIO: cliDio})
		f := &fixture{w: s.w, cl: s.cl, srv: s.srv, conn: s.conn, so: so}
		c := c05IssueU(f, 1, n, unknown)
		vs.Quiesce()
		out := c05Judge(x, c, f.w, clientPipe, "single")
		if f.w.overlap > 0 {
			x.Fail("C05/overlap", "%d handler executions of one pipelined connection overlapped", f.w.overlap)
		}
		x.Outcome("%s cp=%v dio=%v cdio=%v unk=%d %s overlap=%d", mode.name, clientPipe, directIO, cliDio, unknown, out, f.w.overlap)
		s.finish()
	}
}

// two pipelined connections on one server: each ordered, and a stalled connection does not
// hold up the other one.
func c05TwoConns(x *X) {
	clientPipe := x.Choose(2) == 1
	w := newWorld()
	so := srvOpts{bufSize: 64, pipelining: true}
	srv := newServer(w, so)
	mk := func() *fixture {
		f := &fixture{w: w, so: so, srv: srv}
		f.cl, f.sv = NewPipe()
		serveCodec(srv, f.sv, so)
		f.conn = newConn(f.cl, "", 64, nil)
		if clientPipe {
			f.conn.SetPipelining(true)
		}
		return f
	}
	fa, fb := mk(), mk()
	// connection A: first call is gated
	done := make(chan *rpc.Call, 4)
	gargs := mkPayload(0x41, fGate, 10)
	var grep []byte
	fa.conn.Go("Svc.Echo", &gargs, &grep, done)
	ca := c05Issue(fa, 0x42, 2)
	cb := c05Issue(fb, 0x51, 2)
	vs.Quiesce()
	cb.collect()
	if len(cb.order) != 2 {
		x.Fail("C05/connections-not-independent", "connection B completed %d of 2 calls while connection A's first call was still executing", len(cb.order))
	}
	w.open(0x41)
	vs.Quiesce()
	outB := c05Judge(x, cb, w, clientPipe, "connB")
	ca.tags = append([]byte{0x41}, ca.tags...)
	ca.done = done
	// the gated call and the two later ones share one order on connection A
	var allA []byte
	for len(done) > 0 {
		call := <-done
		allA = append(allA, (*call.Args.(*[]byte))[0])
	}
	ca.collect()
	allA = append(allA, ca.order...)
	var startA []byte
	for _, t := range w.startSeq {
		if t >= 0x41 && t < 0x50 {
			startA = append(startA, t)
		}
	}
	if fmt.Sprint(startA) != fmt.Sprint(ca.tags) {
		x.Fail("C05/execution-order/connA", "handlers of connection A started in order %v, sent %v", startA, ca.tags)
	}
	x.Outcome("cp=%v %s A=%v", clientPipe, outB, startA)
	fa.conn.Close()
	fb.conn.Close()
	vs.Quiesce()
}

// a raw client writes a burst of requests and disappears while the first one is still executing:
// whatever is executed is still executed one at a time and in order, in every server mode.
func c05Disconnect(modes []c04Mode) func(x *X) {
	return func(x *X) {
		mode := modes[x.Choose(len(modes))]
		n := 2 + x.Choose(3)
		gated := x.Choose(2) == 1
		enc := wireEncoder("")
		so := mode.so
		so.pipelining = true
		w, srv, cl, net := rawServer(mode.sys, so)
		for i := 0; i < n; i++ {
			flags := byte(fYield)
			if i == 0 && gated {
				flags |= fGate
			}
			cl.WriteMessage(mkReq(enc, uint64(i+1), nil, "Svc.Echo", mkPayload(byte(i+1), flags, 12+5*i)))
		}
		cl.Close()
		vs.Quiesce()
		w.open(1)
		vs.Quiesce()
		for i := 1; i < len(w.startSeq); i++ {
			if w.startSeq[i] <= w.startSeq[i-1] {
				x.Fail("C05/execution-order/after-disconnect", "requests were sent in order 1..%d, the handlers started in order %v after the client disconnected (mode %s/%s)", n, w.startSeq, mode.sys.name, modeName(so))
			}
		}
		if w.overlap > 0 {
			x.Fail("C05/overlap/after-disconnect", "%d handler executions of one pipelined connection overlapped after the client disconnected (start order %v, end order %v)", w.overlap, w.startSeq, w.endSeq)
		}
		res := wireSeqs(enc, cl.Wire(), 1)
		for i := 1; i < len(res); i++ {
			if res[i] <= res[i-1] {
				x.Fail("C05/response-order/after-disconnect", "responses were written in order %v", res)
			}
		}
		x.Outcome("%s/%s n=%d gated=%v start=%v", mode.sys.name, modeName(so), n, gated, w.startSeq)
		if net != nil {
			srv.Close()
		}
		vs.Quiesce()
	}
}

func init() {
	register(&Scenario{Prop: "C05", Name: "c05/burst-then-disconnect", Quick: []Bound{{1, 0}, {2, 0}}, Thorough: []Bound{{3, 0}}, Body: c05Disconnect(c08SrvModes)})
	register(&Scenario{Prop: "C05", Name: "c05/3calls", Quick: []Bound{{1, 0}, {2, 0}}, Thorough: []Bound{{3, 0}}, Body: c05Body(3)})
	register(&Scenario{Prop: "C05", Name: "c05/3calls-poll", Quick: []Bound{{1, 0}, {2, 0}}, Thorough: []Bound{{3, 0}}, Body: c05BodyM(3, sysModes[2:]), BudgetQ: 25})
	register(&Scenario{Prop: "C05", Name: "c05/4calls", Quick: []Bound{{1, 0}}, Thorough: []Bound{{2, 0}, {3, 0}}, Body: c05Body(4)})
	register(&Scenario{Prop: "C05", Name: "c05/two-conns", Quick: []Bound{{1, 0}}, Thorough: []Bound{{2, 0}}, Body: c05TwoConns})
}

// a big burst: the client has written n = 40 / 150 / 300 requests before the server reads the
// first one (so hundreds of requests wait to be decoded / executed at once); optionally the
// first handler is held.  Execution and response order are the send order.  Default schedule.
func c05BigBurst(modes []c04Mode) func(x *X) {
	return func(x *X) {
		mode := modes[x.Choose(len(modes))]
		n := []int{40, 150, 300}[x.Choose(3)]
		gated := x.Choose(2) == 1
		enc := wireEncoder("")
		so := mode.so
		so.pipelining = true
		w, srv, cl, net := rawServer(mode.sys, so)
		for i := 0; i < n; i++ {
			flags := byte(0)
			if i == 0 && gated {
				flags |= fGate
			}
			cl.WriteMessage(mkReq(enc, uint64(i+1), nil, "Svc.Echo", mkPayload(byte(i%250+1), flags, 6+i%23)))
		}
		vs.Quiesce()
		w.open(1)
		vs.Quiesce()
		if len(w.startSeq) != n {
			x.Fail("C05/burst-not-executed", "%d requests were sent in one burst, %d handlers ran (mode %s/%s)", n, len(w.startSeq), mode.sys.name, modeName(so))
		}
		for i := range w.startSeq {
			if w.startSeq[i] != byte(i%250+1) {
				x.Fail("C05/execution-order/burst", "a burst of %d requests: the handler at position %d ran request %d (mode %s/%s)", n, i, w.startSeq[i], mode.sys.name, modeName(so))
				break
			}
		}
		if w.overlap > 0 {
			x.Fail("C05/overlap/burst", "%d handler executions of one pipelined connection overlapped", w.overlap)
		}
		res := wireSeqs(enc, cl.Wire(), 1)
		if len(res) != n {
			x.Fail("C05/burst-not-answered", "%d requests, %d responses", n, len(res))
		}
		for i := 1; i < len(res); i++ {
			if res[i] != res[i-1]+1 {
				x.Fail("C05/response-order/burst", "a burst of %d requests: responses were written in order %v...", n, res[:i+1])
				break
			}
		}
		x.Outcome("%s/%s n=%d gated=%v", mode.sys.name, modeName(so), n, gated)
		cl.Close()
		if net != nil {
			srv.Close()
		}
		vs.Quiesce()
	}
}

// many pipelining connections on one server: a held handler on the first connection delays
// nobody else.  Default schedule.
func c05ManyConns(x *X) {
	nconn := []int{5, 17, 33, 70}[x.Choose(4)]
	clientPipe := x.Choose(2) == 1
	w := newWorld()
	so := srvOpts{bufSize: 64, pipelining: true}
	srv := newServer(w, so)
	var conns []*rpc.Conn
	for i := 0; i < nconn; i++ {
		cl, sv := NewPipe()
		serveCodec(srv, sv, so)
		c := newConn(cl, "", 64, nil)
		if clientPipe {
			c.SetPipelining(true)
		}
		conns = append(conns, c)
	}
	held := newUcall(0xF1, fGate, 10, formGo)
	held.done = make(chan *rpc.Call, 1)
	held.call = conns[0].Go(held.method, &held.args, &held.reply, held.done)
	vs.Quiesce()
	var calls []*ucall
	for i := 1; i < nconn; i++ {
		c := newUcall(byte(i), 0, 10+i%30, formGo)
		c.done = make(chan *rpc.Call, 1)
		c.call = conns[i].Go(c.method, &c.args, &c.reply, c.done)
		calls = append(calls, c)
	}
	vs.Quiesce()
	for i, c := range calls {
		select {
		case <-c.done:
			c.ret, c.err = true, c.call.Error
		default:
		}
		if !c.ret || c.err != nil || !eqBytes(c.reply, c.want()) {
			x.Fail("C05/connections-not-independent", "%d pipelining connections, a handler of connection 0 is held: the call on connection %d has completed=%v err=%v", nconn, i+1, c.ret, c.err)
			break
		}
	}
	w.open(0xF1)
	vs.Quiesce()
	if len(held.done) != 1 {
		x.Fail("C05/held-call-lost", "the held call did not complete after its handler was released")
	}
	x.Outcome("nconn=%d cp=%v", nconn, clientPipe)
	for _, c := range conns {
		c.Close()
	}
	vs.Quiesce()
}

func init() {
	register(&Scenario{Prop: "C05", Name: "c05/big-burst", Quick: []Bound{{0, 0}}, Thorough: []Bound{{1, 0}}, Body: c05BigBurst(c08SrvModes), MaxSteps: 2000000, BudgetQ: 20, BudgetT: 150, MinHB: 1})
	register(&Scenario{Prop: "C05", Name: "c05/many-connections", Quick: []Bound{{0, 0}}, Thorough: []Bound{{1, 0}}, Body: c05ManyConns, MaxSteps: 2000000, BudgetQ: 20, BudgetT: 150, MinHB: 1})
}

// many connections, one of which does not read: the server's writes to that connection block
// (its link takes one unread frame), whatever part of the server is answering it stalls, and the
// other connections are still served.  The stuck connection sends heartbeats, a stream open and
// calls, so that every stage that writes a response gets stuck once.
func c05BlockedWriter(x *X) {
	nconn := []int{3, 17, 33, 70}[x.Choose(4)]
	kind := x.Choose(3) // what the stuck connection sent: heartbeats / stream opens / calls
	pipelining := x.Choose(2) == 1
	w := newWorld()
	so := srvOpts{bufSize: 64, pipelining: pipelining}
	srv := newServer(w, so)
	enc := wireEncoder("")
	stuck, sv0 := NewPipe()
	stuck.p.capacity = 1
	serveCodec(srv, sv0, so)
	var conns []*rpc.Conn
	for i := 1; i < nconn; i++ {
		cl, sv := NewPipe()
		serveCodec(srv, sv, so)
		conns = append(conns, newConn(cl, "", 64, nil))
	}
	stuck.p.capacity = 0 // (the requests themselves are not limited: only the way back is)
	for i := 0; i < 3; i++ {
		switch kind {
		case 0:
			stuck.WriteMessage(mkReq(enc, uint64(i+1), upPing, "", nil))
		case 1:
			stuck.WriteMessage(mkReq(enc, uint64(i+1), upOpen, "StreamSvc.Push", nil))
		case 2:
			stuck.WriteMessage(mkReq(enc, uint64(i+1), nil, "Svc.Echo", mkPayload(byte(0xE0+i), 0, 9)))
		}
	}
	stuck.p.capacity = 1
	vs.Quiesce()
	var calls []*ucall
	for i, c := range conns {
		u := newUcall(byte(i+1), 0, 10+i%30, formGo)
		u.done = make(chan *rpc.Call, 1)
		u.call = c.Go(u.method, &u.args, &u.reply, u.done)
		calls = append(calls, u)
	}
	vs.Quiesce()
	for i, c := range calls {
		select {
		case <-c.done:
			c.ret, c.err = true, c.call.Error
		default:
		}
		if !c.ret || c.err != nil || !eqBytes(c.reply, c.want()) {
			x.Fail("C05/connections-not-independent", "%d connections; connection 0 does not read its responses (it sent %s): the call on connection %d has completed=%v err=%v", nconn, []string{"heartbeats", "stream opens", "calls"}[kind], i+1, c.ret, c.err)
			break
		}
	}
	x.Outcome("nconn=%d kind=%d pipe=%v", nconn, kind, pipelining)
	stuck.p.capacity = 0
	stuck.Close()
	for _, c := range conns {
		c.Close()
	}
	vs.Quiesce()
}

// replies that encode to nothing (an empty BYTES value) between ordinary ones, client pipelining:
// asynchronous calls issued from one goroutine are still signalled in issue order.
func c05EmptyReplies(x *X) {
	cliDio := x.Choose(2) == 1
	pattern := x.Choose(4)
	f := newFixture(srvOpts{bufSize: 64, pipelining: true, codec: yieldBytesCodec}, cliOpts{bufSize: 64, pipelining: true, directIO: cliDio})
	done := make(chan *rpc.Call, 8)
	n := 5
	var args [5][]byte
	var replies [5][]byte
	var calls []*rpc.Call
	for i := 0; i < n; i++ {
		empty := (pattern>>uint(i%2))&1 == 1 && i > 0
		if empty {
			args[i] = []byte{}
		} else {
			args[i] = mkPayload(byte(i+1), 0, 8+i)
		}
		calls = append(calls, f.conn.Go("Svc.Plain", &args[i], &replies[i], done))
	}
	vs.Quiesce()
	var order []int
	for len(done) > 0 {
		c := <-done
		for i, k := range calls {
			if k == c {
				order = append(order, i)
			}
		}
	}
	if len(order) != n {
		x.Fail("C05/calls-not-completed/empty-replies", "%d of %d asynchronous calls completed", len(order), n)
	}
	for i := 1; i < len(order); i++ {
		if order[i] < order[i-1] {
			x.Fail("C05/completion-order/empty-replies", "calls issued in order 0..%d from one goroutine (pattern %d: some replies are empty) were signalled in order %v", n-1, pattern, order)
			break
		}
	}
	x.Outcome("dio=%v pattern=%d order=%v", cliDio, pattern, order)
	f.conn.Close()
	vs.Quiesce()
}

func init() {
	register(&Scenario{Prop: "C05", Name: "c05/one-connection-does-not-read", Quick: []Bound{{0, 0}}, Thorough: []Bound{{1, 0}}, Body: c05BlockedWriter, MaxSteps: 2000000, BudgetQ: 20, BudgetT: 150, MinHB: 1})
	register(&Scenario{Prop: "C05", Name: "c05/empty-replies", Quick: []Bound{{1, 0}, {2, 0}}, Thorough: []Bound{{3, 0}}, Body: c05EmptyReplies, BudgetQ: 20})
}

// several pipelined Go calls share ONE Done channel that is smaller than the number of calls
// (capacity 1 or 2): whatever is delivered on it arrives in issue order (completions that find the
// channel full may be dropped, as in net/rpc, but never overtake).  The first handler is held, so
// that the responses arrive in a burst; the collector takes one completion at a time.
func c05SmallDone(x *X) {
	capa := 1 + x.Choose(2)
	cliDio := x.Choose(2) == 1
	n := 4
	f := newFixture(srvOpts{bufSize: 64, pipelining: true}, cliOpts{bufSize: 64, pipelining: true, directIO: cliDio})
	done := make(chan *rpc.Call, capa)
	var tags []byte
	for i := 0; i < n; i++ {
		tag := byte(0x21 + i)
		fl := byte(0)
		if i == 0 {
			fl = fGate
		}
		args := mkPayload(tag, fl, []int{40, 90, 3, 64}[i])
		var reply []byte
		f.conn.Go("Svc.Echo", &args, &reply, done)
		tags = append(tags, tag)
	}
	vs.Quiesce()
	f.w.open(0x21)
	vs.Quiesce()
	var order []byte
	for round := 0; round < 2*n && len(done) > 0; round++ {
		call := <-done
		order = append(order, (*call.Args.(*[]byte))[0])
		vs.Quiesce()
	}
	last := byte(0)
	for _, t := range order {
		if t <= last {
			x.Fail("C05/completion-order/small-done-channel", "pipelined calls issued in order %v on one Done channel of capacity %d were delivered in order %v", tags, capa, order)
			break
		}
		last = t
	}
	if len(order) == 0 {
		x.Fail("C05/incomplete/small-done-channel", "no completion at all was delivered on the shared Done channel")
	}
	x.Outcome("cap=%d dio=%v delivered=%v", capa, cliDio, order)
	f.conn.Close()
	vs.Quiesce()
}

func init() {
	register(&Scenario{Prop: "C05", Name: "c05/small-done-channel", Quick: []Bound{{1, 0}}, Thorough: []Bound{{3, 0}}, Body: c05SmallDone, BudgetQ: 15})
}

// replies of very different sizes (5 KB / 70 KB next to a few bytes: whatever threshold an
// implementation may treat "large" replies differently at) in one pipelined sequence
func c05BigSmall(x *X) {
	c05Sizes = [][]int{{5000, 3, 9000, 40}, {3, 70000, 8, 5000}, {4097, 4096, 4095, 2}}[x.Choose(3)]
	defer func() { c05Sizes = []int{40, 300, 3, 90, 64} }()
	c05BodyM(3, sysModes[:1])(x)
}

func init() {
	register(&Scenario{Prop: "C05", Name: "c05/big-and-small-replies", Quick: []Bound{{1, 0}}, Thorough: []Bound{{2, 0}}, Body: c05BigSmall, BudgetQ: 20, MaxSteps: 400000})
}

// the options of a client connection set in every order around Dial: rpc.NewConn(), then
// SetPipelining / SetDirectIO before or after Conn.Dial, or DialWithOptions followed by the setters:
// with client pipelining on, asynchronous calls from one goroutine complete in issue order whichever
// way the connection was made.
func c05ConnConstruction(x *X) {
	how := x.Choose(3) // NewConn+SetPipelining+Dial / NewConn+Dial+SetPipelining / DialWithOptions+SetPipelining
	cliDio := x.Choose(2) == 1
	n := newNet()
	w := newWorld()
	so := srvOpts{bufSize: 64, pipelining: true, codec: yieldBytesCodec}
	srv, _ := startListener(n, w, "srv", so, false)
	vs.Quiesce()
	newCodec := func(m socket.Messages) rpc.ClientCodec { return rpc.NewClientCodec(yieldBytesCodec(), nil, m, 64) }
	var conn *rpc.Conn
	var err error
	switch how {
	case 0:
		conn = rpc.NewConn()
		conn.SetPipelining(true)
		if cliDio {
			conn.SetDirectIO(true)
		}
		_, err = conn.Dial(n.Socket(nil), "srv", newCodec)
	case 1:
		conn = rpc.NewConn()
		_, err = conn.Dial(n.Socket(nil), "srv", newCodec)
		conn.SetPipelining(true)
		if cliDio {
			conn.SetDirectIO(true)
		}
	case 2:
		conn, err = rpc.DialWithOptions("srv", so.options(n, 64))
		if err == nil {
			conn.SetPipelining(true)
			if cliDio {
				conn.SetDirectIO(true)
			}
		}
	}
	if err != nil || conn == nil {
		x.Fail("C05/dial-failed/construction", "making the connection (way %d) failed: %v", how, err)
		return
	}
	f := &fixture{w: w, srv: srv, conn: conn, so: so}
	f.cl = n.conns[0].end
	c := c05IssueU(f, 1, 4, 2)
	vs.Quiesce()
	c.collect()
	if len(c.order) != len(c.tags) {
		x.Fail("C05/incomplete/construction", "%d of %d calls were signalled (connection made in way %d)", len(c.order), len(c.tags), how)
	} else if fmt.Sprint(c.order) != fmt.Sprint(c.tags) {
		x.Fail("C05/completion-order/construction", "calls issued in order %v on a pipelining connection (made by %s, client direct I/O %v) were signalled complete in order %v", c.tags, []string{"NewConn, SetPipelining, Dial", "NewConn, Dial, SetPipelining", "DialWithOptions, SetPipelining"}[how], cliDio, c.order)
	}
	x.Outcome("how=%d dio=%v order=%v", how, cliDio, c.order)
	conn.Close()
	srv.Close()
	vs.Quiesce()
}

func init() {
	register(&Scenario{Prop: "C05", Name: "c05/connection-construction-orders", Quick: []Bound{{1, 0}}, Thorough: []Bound{{2, 0}}, Body: c05ConnConstruction, BudgetQ: 15, MaxSteps: 200000})
}
