package main

import (
	"errors"
	"fmt"
	"io"

	vs "verif/shim/vsync"
)

// ---- message pipe: a pair of socket.Messages ends with per-direction FIFO queues.

var errInjectedWrite = errors.New("injected write failure")

// errBrokenPipe has a concrete type of its own (as *net.OpError has): code that stores "the last error"
// in a typed container sees another type than io.EOF's.
type pipeError struct{ s string }

func (e *pipeError) Error() string { return e.s }

var errBrokenPipe error = &pipeError{"write: broken pipe"}

// errReadIO is what a read on a reset link returns: like the error of an expired read deadline or
// of TCP keep-alive giving up, it is a net.Error that calls itself a timeout and "temporary".
var errReadIO error = &timeoutError{}

type timeoutError struct{}

func (*timeoutError) Error() string   { return "read: i/o timeout" }
func (*timeoutError) Timeout() bool   { return true }
func (*timeoutError) Temporary() bool { return true }

// Frame is one message seen on the wire.
type Frame struct {
	Dir  int // 0: A->B (client->server), 1: B->A
	Data []byte
	Step int
}

type pipeState struct {
	q         [2][][]byte // q[0]: written by A, read by B
	closed    [2]bool     // end A / end B closed locally
	dead      bool        // link cut: reads drain then EOF, writes fail
	blackhole [2]bool     // what this side writes from now on is silently lost
	reset     bool        // undelivered data dropped, reads fail with an I/O error
	stall     [2]bool     // this side's output stays in its buffered writer (the peer has stopped reading, the socket is full): writes return at once, nothing reaches the peer, Close waits for the flush
	held      [2][][]byte // what this side has written while stalled
	halfShut  [2]bool     // this side has shut down its sending direction (FIN): the peer drains and reads EOF, the other direction is unchanged
	wire      []Frame
	nw        [2]int // frames written per direction
	cutAfter  [2]int // cut the link after the k-th frame of this direction was delivered (0 = never)
	cutDrop   [2]int // cut the link instead of delivering the k-th frame
	capacity  int    // 0 = unbounded
	obj       [2]vs.Obj
	id        int
	opens     int
}

// PipeEnd implements socket.Messages.
type PipeEnd struct {
	p    *pipeState
	side int // 0 = A (writes q[0], reads q[1]), 1 = B
	// WriteFaults: number of the write (1-based) at which an injected failure is offered to the
	// explorer as an environment alternative; 0 = every write, -1 = never.
	WriteFaults int
	// FailNext: the next FailNext writes fail (scripted, no choice); with FailKeepsLink the link stays up
	FailNext      int
	FailKeepsLink bool
	ReadFault     bool // offer "read fails with an I/O error" when blocked reads are released by EOF
	nwrites       int
	nonblock      bool
	ubuf          [][]byte // nonblocking mode: frames already read from the kernel into the messages' own buffer
	closes        int
	Injected      int // injected write failures so far
	OnClose       func()
	wRead         string
	wWrite        string
	wClose        string
	wPoll         string
	wPollWait     string
}

var pipeSeq int

func init() { vs.OnReset(func() { pipeSeq = 0 }) }

// NewPipe returns the two ends (A = client side, B = server side).
func NewPipe() (*PipeEnd, *PipeEnd) {
	pipeSeq++
	p := &pipeState{id: pipeSeq}
	a := &PipeEnd{p: p, side: 0, WriteFaults: -1}
	b := &PipeEnd{p: p, side: 1, WriteFaults: -1}
	for _, e := range []*PipeEnd{a, b} {
		n := e.String()
		e.wRead, e.wWrite, e.wClose, e.wPoll, e.wPollWait = "env:read "+n, "env:write "+n, "env:close "+n, "env:poll-read "+n, "env:poll-wait "+n
	}
	vs.RegisterObj(a)
	vs.RegisterObj(b)
	return a, b
}

func (e *PipeEnd) String() string { return fmt.Sprintf("pipe%d.%c", e.p.id, "AB"[e.side]) }

func (e *PipeEnd) inq() *[][]byte { return &e.p.q[1-e.side] }

// ReadMessage blocks until a message, EOF or a cut.
func (e *PipeEnd) ReadMessage(buf []byte) ([]byte, error) {
	p := e.p
	if e.nonblock {
		return e.readNonblock(buf)
	}
	vs.BlockObj(e.wRead, &p.obj[e.side], func() bool {
		return len(*e.inq()) > 0 || p.closed[e.side] || p.closed[1-e.side] || p.dead || p.reset || p.halfShut[1-e.side]
	})
	return e.take(buf)
}

func (e *PipeEnd) take(buf []byte) ([]byte, error) {
	p := e.p
	if p.closed[e.side] {
		return nil, io.EOF // "use of closed network connection" is mapped to io.EOF by socket.messages
	}
	if p.reset {
		return nil, errReadIO
	}
	q := e.inq()
	if len(*q) == 0 {
		return nil, io.EOF
	}
	m := (*q)[0]
	*q = (*q)[1:]
	var out []byte
	if cap(buf) >= len(m) {
		out = buf[:len(m)]
	} else {
		out = make([]byte, len(m))
	}
	copy(out, m)
	return out, nil
}

// WriteMessage is a scheduling point; the data is copied (as the kernel would).
func (e *PipeEnd) WriteMessage(b []byte) error {
	p := e.p
	vs.BlockObj(e.wWrite, &p.obj[1-e.side], func() bool {
		return p.capacity == 0 || len(p.q[e.side]) < p.capacity || p.closed[e.side] || p.closed[1-e.side] || p.dead || p.reset
	})
	if p.closed[e.side] {
		return io.EOF
	}
	if p.dead || p.reset || p.closed[1-e.side] {
		return errBrokenPipe
	}
	e.nwrites++
	if e.FailNext > 0 {
		// scripted by the scenario: this write fails; the link dies with it unless FailKeepsLink
		e.FailNext--
		e.Injected++
		if !e.FailKeepsLink {
			p.dead = true
		}
		return errInjectedWrite
	}
	if e.WriteFaults == 0 || e.WriteFaults == e.nwrites {
		if vs.Choose(vs.KEnv, 2) == 1 {
			vs.Logf("%s: write %d fails (injected)", e, e.nwrites)
			e.Injected++
			// a failed write means the connection is broken: the link dies with it
			p.dead = true
			return errInjectedWrite
		}
	}
	if p.stall[e.side] {
		// buffered output that does not reach the socket: the writer accepts it and returns
		p.held[e.side] = append(p.held[e.side], append([]byte(nil), b...))
		return nil
	}
	if p.blackhole[e.side] {
		// a peer that has gone silent (a half-open connection): what this side writes is lost, nobody is told
		return nil
	}
	p.nw[e.side]++
	if p.cutDrop[e.side] > 0 && p.nw[e.side] == p.cutDrop[e.side] {
		p.dead = true
		vs.Logf("%s: link cut instead of delivering frame %d", e, p.nw[e.side])
		return errBrokenPipe
	}
	c := append([]byte(nil), b...)
	p.q[e.side] = append(p.q[e.side], c)
	p.wire = append(p.wire, Frame{Dir: e.side, Data: c, Step: vs.Steps()})
	if p.cutAfter[e.side] > 0 && p.nw[e.side] == p.cutAfter[e.side] {
		p.dead = true
		vs.Logf("%s: link cut after frame %d", e, p.nw[e.side])
	}
	return nil
}

// Unstall: the peer reads again; what was held back is delivered in order.
func (e *PipeEnd) Unstall() { e.p.unstall(e.side) }

func (p *pipeState) unstall(side int) {
	p.stall[side] = false
	for _, m := range p.held[side] {
		p.nw[side]++
		p.q[side] = append(p.q[side], m)
		p.wire = append(p.wire, Frame{Dir: side, Data: m, Step: vs.Steps()})
	}
	p.held[side] = nil
}

// Close closes this end: its own reads and writes fail, the peer drains and then reads EOF.
func (e *PipeEnd) Close() error {
	if p := e.p; p.stall[e.side] {
		// closing a buffered writer flushes it first: it waits until the socket takes the data (or fails)
		vs.BlockObj(e.wClose, &p.obj[e.side], func() bool {
			return !p.stall[e.side] || len(p.held[e.side]) == 0 || p.dead || p.reset || p.closed[1-e.side]
		})
	} else {
		vs.BlockObj(e.wClose, &e.p.obj[e.side], nil)
	}
	e.closes++
	if !e.p.closed[e.side] {
		e.p.closed[e.side] = true
		if e.OnClose != nil {
			e.OnClose()
		}
	}
	return nil
}

// Kill cuts the link from outside (harness event): both ends see EOF after draining.
func (e *PipeEnd) Kill() { e.p.dead = true }

// Reset drops undelivered data; reads fail with an I/O error.
func (e *PipeEnd) Reset() { e.p.reset = true; e.p.q[0], e.p.q[1] = nil, nil }

// Wire returns the frames written so far.
func (e *PipeEnd) Wire() []Frame { return e.p.wire }

// Closed reports whether this end was closed locally.
func (e *PipeEnd) Closed() bool { return e.p.closed[e.side] }

// Pending returns the number of undelivered frames towards this end.
func (e *PipeEnd) Pending() int { return len(*e.inq()) + len(e.ubuf) }
