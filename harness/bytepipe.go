package main

import (
	"io"

	"github.com/hslam/socket"
	vs "verif/shim/vsync"
)

// ---- byte pipe: an io.ReadWriteCloser pair under the real (instrumented) socket.NewMessages
// framing.  Reads return the bytes up to the next split boundary (so every fragmentation of the
// stream can be produced), a direction can be cut at a byte offset (EOF or reset).

type byteDir struct {
	buf    []byte
	total  int   // bytes written so far
	read   int   // bytes read so far
	splits []int // absolute offsets at which a Read must stop
	cutAt  int   // the link dies when this many bytes have been written (0 = never)
}

type bytePipe struct {
	d      [2]byteDir // d[0]: written by A
	closed [2]bool
	dead   bool
	reset  bool
	obj    [2]vs.Obj
	chunk  int // maximum bytes per Read (0 = unlimited)
}

// ByteEnd is one end of a byte pipe.
type ByteEnd struct {
	p    *bytePipe
	side int
	wR   string
	wW   string
}

func newBytePipe() (*ByteEnd, *ByteEnd) {
	p := &bytePipe{}
	return &ByteEnd{p: p, side: 0, wR: "env:byte-read A", wW: "env:byte-write A"}, &ByteEnd{p: p, side: 1, wR: "env:byte-read B", wW: "env:byte-write B"}
}

func (e *ByteEnd) Read(b []byte) (int, error) {
	p := e.p
	in := &p.d[1-e.side]
	vs.BlockObj(e.wR, &p.obj[e.side], func() bool {
		return len(in.buf) > 0 || p.closed[e.side] || p.closed[1-e.side] || p.dead || p.reset
	})
	if p.closed[e.side] {
		return 0, io.ErrClosedPipe
	}
	if p.reset {
		return 0, errReadIO
	}
	if len(in.buf) == 0 {
		return 0, io.EOF
	}
	n := len(in.buf)
	if n > len(b) {
		n = len(b)
	}
	if p.chunk > 0 && n > p.chunk {
		n = p.chunk
	}
	for _, s := range in.splits {
		if s > in.read && s < in.read+n {
			n = s - in.read
		}
	}
	copy(b, in.buf[:n])
	in.buf = in.buf[n:]
	in.read += n
	return n, nil
}

func (e *ByteEnd) Write(b []byte) (int, error) {
	p := e.p
	out := &p.d[e.side]
	vs.BlockObj(e.wW, &p.obj[1-e.side], nil)
	if p.closed[e.side] {
		return 0, io.ErrClosedPipe
	}
	if p.dead || p.reset || p.closed[1-e.side] {
		return 0, errBrokenPipe
	}
	if out.cutAt > 0 && out.total+len(b) >= out.cutAt {
		k := out.cutAt - out.total
		out.buf = append(out.buf, b[:k]...)
		out.total += k
		p.dead = true
		vs.Logf("byte pipe: link cut after %d bytes of direction %d", out.total, e.side)
		return k, errBrokenPipe
	}
	out.buf = append(out.buf, b...)
	out.total += len(b)
	return len(b), nil
}

func (e *ByteEnd) Close() error {
	vs.BlockObj("env:byte-close", &e.p.obj[e.side], nil)
	e.p.closed[e.side] = true
	return nil
}

// onlyMessages hides the BufferedOutput/BufferedInput methods of socket.messages, so that the
// uninstrumented hslam/writer batching goroutine is not part of controlled runs; batching is
// modelled by the fragmentation of the byte stream instead.
type onlyMessages struct{ m socket.Messages }

func (o onlyMessages) ReadMessage(b []byte) ([]byte, error) { return o.m.ReadMessage(b) }
func (o onlyMessages) WriteMessage(b []byte) error          { return o.m.WriteMessage(b) }
func (o onlyMessages) Close() error                         { return o.m.Close() }

func framed(e *ByteEnd) socket.Messages { return onlyMessages{socket.NewMessages(e, false)} }

// withInput is the real framing with its SetBufferedInput method visible (Conn.SetBufferSize and
// the server codec call it); SetBufferedOutput stays hidden (see onlyMessages).
type withInput struct {
	onlyMessages
	in socket.BufferedInput
}

func (w withInput) SetBufferedInput(n int) { w.in.SetBufferedInput(n) }

func framedIn(e *ByteEnd) socket.Messages {
	m := socket.NewMessages(e, false)
	return withInput{onlyMessages{m}, m.(socket.BufferedInput)}
}
