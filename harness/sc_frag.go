package main

import (
	"fmt"
	"io"

	"github.com/hslam/rpc"
	vs "verif/shim/vsync"
)

// Byte-level scenarios through the real length-prefix framing (hslam/socket messages.go,
// instrumented): every single split offset (thorough: every pair) of either direction of a
// two-call conversation (C01), and a cut at every byte offset of either direction (C03).

func fragFixture() (*World, *rpc.Conn, *ByteEnd, *ByteEnd) {
	w := newWorld()
	ce, se := newBytePipe()
	so := srvOpts{bufSize: 64}
	srv := newServer(w, so)
	serveCodec(srv, framed(se), so)
	conn := newConn(framed(ce), "", 64, nil)
	return w, conn, ce, se
}

const fragMaxC2S, fragMaxS2C = 420, 760

func c01Frag(pairs bool) func(x *X) {
	return func(x *X) {
		dir := x.Choose(2)
		max := fragMaxC2S
		if dir == 1 {
			max = fragMaxS2C
		}
		k1 := 1 + x.Choose(max)
		k2 := 0
		if pairs {
			k2 = 1 + x.Choose(max/7)*7
		}
		chunk := []int{0, 1, 3}[x.Choose(3)]
		w, conn, ce, _ := fragFixture()
		_ = w
		ce.p.chunk = chunk
		ce.p.d[dir].splits = []int{k1, k2}
		c1 := newUcall(1, 0, 5, formCall)
		c2 := newUcall(2, fDouble, 300, formGo)
		c1.spawn(conn)
		c2.spawn(conn)
		vs.Quiesce()
		out := c01Check(x, []*ucall{c1, c2}, "fragmented-stream")
		for _, c := range []*ucall{c1, c2} {
			if !c.ret || c.err != nil {
				x.Fail("C01/fragmentation-breaks-call", "stream of direction %d split at byte %d/%d (chunk %d): call %d returned=%v err=%v", dir, k1, k2, chunk, c.tag, c.ret, c.err)
			}
		}
		l := newUcall(3, 0, 70, formCall)
		l.issue(conn)
		out += c01Check(x, []*ucall{l}, "fragmented-stream-followup")
		x.Outcome("dir=%d chunk=%d %s", dir, chunk, out)
		x.Case(fmt.Sprintf("frag/dir%d/k%d/chunk%d", dir, k1/16, chunk))
		conn.Close()
		vs.Quiesce()
	}
}

func c03ByteCut(x *X) {
	dir := x.Choose(2)
	max := fragMaxC2S
	if dir == 1 {
		max = fragMaxS2C
	}
	k := 1 + x.Choose(max)
	how := x.Choose(2) // EOF / reset after the cut
	w, conn, ce, _ := fragFixture()
	ce.p.d[dir].cutAt = k
	c1 := newUcall(1, fGate, 5, formCall)
	c2 := newUcall(2, fDouble, 300, formGo)
	c3 := newUcall(3, 0, 0, formPing)
	c1.spawn(conn)
	c2.spawn(conn)
	c3.spawn(conn)
	vs.Quiesce()
	if how == 1 && ce.p.dead {
		ce.p.reset = true
	}
	w.open(1)
	vs.Quiesce()
	ended := ce.p.dead || ce.p.reset
	label := fmt.Sprintf("byte-cut-dir%d", dir)
	out := ""
	for _, c := range []*ucall{c1, c2, c3} {
		switch {
		case !c.ret:
			x.Fail("C03/caller-hangs/"+label, "the stream of direction %d was cut after %d bytes: call %d never returned", dir, k, c.tag)
			out += fmt.Sprintf(" %d:HANG", c.tag)
		case c.err == nil:
			if c.form != formPing && !eqBytes(c.reply, c.want()) {
				x.Fail("C03/wrong-reply-after-cut", "cut after %d bytes of direction %d: call %d succeeded with a wrong reply", k, dir, c.tag)
			}
			out += fmt.Sprintf(" %d:ok", c.tag)
		default:
			if !ended {
				x.Fail("C03/error-without-loss", "call %d failed with %v although the stream was not cut (offset %d beyond the conversation)", c.tag, c.err, k)
			} else if !(c.err == rpc.ErrShutdown || c.err == io.EOF || c.err == errBrokenPipe || c.err == io.ErrClosedPipe || c.err == errReadIO || c.err == io.ErrUnexpectedEOF) {
				x.Fail("C03/unexpected-error/"+label, "call %d failed with %q", c.tag, c.err.Error())
			}
			out += fmt.Sprintf(" %d:E", c.tag)
		}
	}
	late := newUcall(9, 0, 20, formCall)
	late.spawn(conn)
	vs.Quiesce()
	if !late.ret {
		x.Fail("C03/late-call-hangs/"+label, "a call started after the cut at byte %d blocks", k)
	} else if ended && late.err == nil {
		x.Fail("C03/late-call-error/"+label, "a call started after the connection was cut succeeded")
	}
	x.Outcome("dir=%d how=%d ended=%v%s late=%s", dir, how, ended, out, errStr(late.err))
	x.Case(fmt.Sprintf("cut/dir%d/k%d/how%d", dir, k/16, how))
	conn.Close()
	vs.Quiesce()
}

func init() {
	register(&Scenario{Prop: "C01", Name: "c01/fragmentation-1split", Quick: []Bound{{0, 0}}, Thorough: []Bound{{1, 0}, {2, 0}}, Body: c01Frag(false), BudgetQ: 20})
	register(&Scenario{Prop: "C01", Name: "c01/fragmentation-2splits", Quick: []Bound{}, Thorough: []Bound{{0, 0}}, Body: c01Frag(true), BudgetT: 300})
	register(&Scenario{Prop: "C03", Name: "c03/byte-cuts", Quick: []Bound{{0, 0}}, Thorough: []Bound{{1, 0}, {2, 0}}, Body: c03ByteCut, BudgetQ: 20})
}
