package main

import (
	"context"
	"errors"
	"fmt"

	vs "verif/shim/vsync"
)

// C19 — context cancellation returns promptly and harms no other call.
//
// CallWithContext with a gated handler and a harness-owned context next to live calls on the
// same connection; events cancel / deadline / open gate in every order; context buffers of
// capacity 0, len-1, len, len+1, 4*len pre-filled with a sentinel.

func c19Body(nAbandon int) func(x *X) {
	return c19BodyOpt(nAbandon, srvOpts{bufSize: 64}, cliOpts{bufSize: 64})
}

func c19BodyOpt(nAbandon int, so srvOpts, co cliOpts) func(x *X) {
	return func(x *X) {
		order := x.Choose(3)  // 0: cancel then (later) response; 1: cancel races with the response; 2: response first, cancel later
		capSel := x.Choose(5) // context buffer capacity class
		errKind := x.Choose(2)
		cerr := context.Canceled
		if errKind == 1 {
			cerr = context.DeadlineExceeded
		}
		f := newFixture(so, co)
		type ab struct {
			c   *ucall
			ctx *hctx
			buf []byte
		}
		var abandoned []*ab
		for i := 0; i < nAbandon; i++ {
			c := newUcall(byte(0x41+i), fGate, 24+8*i, formCallCtx)
			n := len(c.want())
			caps := []int{0, n - 1, n, n + 1, 4 * n}
			var buf []byte
			if caps[capSel] > 0 {
				buf = make([]byte, caps[capSel])
				for j := range buf {
					buf[j] = 0xA5
				}
			}
			a := &ab{c: c, ctx: newCtx(buf), buf: buf}
			if buf == nil {
				a.ctx.buf = nil
			}
			c.hctx = a.ctx
			abandoned = append(abandoned, a)
			c.spawn(f.conn)
		}
		sib := newUcall(0x11, 0, 90, formCall)
		sib.spawn(f.conn)
		sib2 := newUcall(0x12, fGate, 10, formGo)
		sib2.spawn(f.conn)
		returnedWhileGated := make([]bool, nAbandon)
		switch order {
		case 0:
			vs.GoNamed("canceller", func() {
				for _, a := range abandoned {
					a.ctx.cancel(cerr)
				}
			})
			vs.Quiesce()
			for i, a := range abandoned {
				returnedWhileGated[i] = a.c.ret
			}
			for _, a := range abandoned {
				f.w.open(a.c.tag)
			}
		case 1:
			vs.GoNamed("canceller", func() {
				for _, a := range abandoned {
					a.ctx.cancel(cerr)
				}
			})
			vs.GoNamed("opener", func() {
				for _, a := range abandoned {
					f.w.open(a.c.tag)
				}
			})
		case 2:
			for _, a := range abandoned {
				f.w.open(a.c.tag)
			}
			vs.Quiesce()
			for _, a := range abandoned {
				a.ctx.cancel(cerr)
			}
		}
		f.w.open(0x12)
		vs.Quiesce()
		out := fmt.Sprintf("order=%d cap=%d", order, capSel)
		for i, a := range abandoned {
			c := a.c
			if !c.ret {
				x.Fail("C19/call-with-context-hangs", "CallWithContext %d did not return although its context is done (order %d)", c.tag, order)
				continue
			}
			switch {
			case order == 0 && !returnedWhileGated[i]:
				x.Fail("C19/not-prompt", "the context of call %d was cancelled but CallWithContext only returned after the server answered", c.tag)
			case order == 0 && c.err != cerr:
				x.Fail("C19/wrong-error", "call %d returned %v, want the context's error %v", c.tag, c.err, cerr)
			case order == 2 && (c.err != nil || !eqBytes(c.reply, c.want())):
				x.Fail("C19/reply-first-lost", "the response of call %d arrived before the cancellation but the call returned err=%v reply=%x", c.tag, c.err, c.reply)
			case order == 1 && !(c.err == cerr || c.err == nil && eqBytes(c.reply, c.want())):
				x.Fail("C19/race-outcome", "call %d returned err=%v reply=%x; want the context's error or the right reply", c.tag, c.err, c.reply)
			}
			// context buffer: used when large enough, never written beyond the reported length
			if a.buf != nil && c.err == nil {
				n := len(c.reply)
				if cap(a.buf) >= n && n > 0 && &c.reply[0] != &a.buf[:1][0] {
					// the reply may legitimately be decoded elsewhere by other codecs; BYTES aliases its input
					x.Fail("C19/buffer-not-used", "context buffer of capacity %d was large enough for the %d-byte reply but was not used", cap(a.buf), n)
				}
			}
			if a.buf != nil {
				n := len(c.want())
				full := a.buf[:cap(a.buf)]
				for j := n; j < len(full); j++ {
					if full[j] != 0xA5 {
						x.Fail("C19/buffer-overrun", "context buffer byte %d beyond the %d-byte reply was overwritten (capacity %d)", j, n, cap(a.buf))
						break
					}
				}
			}
			out += fmt.Sprintf(" %d:%s", c.tag, errStr(c.err))
		}
		out += c01Check(x, []*ucall{sib, sib2}, "sibling-of-abandoned-call")
		if !sib.ret || sib.err != nil || !sib2.ret || sib2.err != nil {
			x.Fail("C19/sibling-disturbed", "sibling calls: %v/%v %v/%v", sib.ret, sib.err, sib2.ret, sib2.err)
		}
		// later users of recycled Call objects
		var later []*ucall
		for j := 0; j < 3; j++ {
			c := newUcall(byte(0x61+j), 0, 12+31*j, []int{formCall, formCallCtx, formCall}[j])
			c.issue(f.conn)
			later = append(later, c)
			if c.err != nil {
				x.Fail("C19/later-call-failed", "a call after the abandoned one failed: %v", c.err)
			}
		}
		out += " later:" + c01Check(x, later, "after-abandoned-call")
		x.Outcome("%s", out)
		f.conn.Close()
		vs.Quiesce()
	}
}

// a pipelined client: a live call holds sequence number 0 while a call whose context is already
// done (or is cancelled before its request leaves the writer queue) is abandoned
func c19Pipelined(prop string) func(x *X) {
	return func(x *X) {
		pre := x.Choose(2) == 1 // context already cancelled when CallWithContext is entered
		f := newFixture(srvOpts{bufSize: 64}, cliOpts{bufSize: 64, pipelining: true})
		live := newUcall(0x11, fGate, 40, formCall)
		live.spawn(f.conn)
		vs.Quiesce()
		ab := newUcall(0x41, fGate, 24, formCallCtx)
		ab.hctx = newCtx(nil)
		if pre {
			ab.hctx.cancel(context.Canceled)
		}
		ab.spawn(f.conn)
		if !pre {
			vs.GoNamed("canceller", func() { ab.hctx.cancel(context.Canceled) })
		}
		vs.Quiesce()
		if !ab.ret {
			x.Fail("C19/call-with-context-hangs", "CallWithContext did not return although its context is done")
		} else if ab.err != context.Canceled {
			x.Fail("C19/wrong-error", "CallWithContext returned %v, want context.Canceled", ab.err)
		}
		f.w.open(0x11)
		f.w.open(0x41)
		vs.Quiesce()
		out := c01Check(x, []*ucall{live}, "live-call-next-to-abandoned")
		if prop == "C02" && !live.ret {
			x.Fail("C02/call-never-completes/next-to-abandoned", "a call (the connection's first, sequence number 0) was outstanding while a CallWithContext whose context was done (before its request left the writer queue: %v) was abandoned; the server answered it and it never completed", pre)
			f.conn.Close()
			vs.Quiesce()
			if !live.ret {
				x.Fail("C02/call-never-completes/even-after-close", "... and it did not complete when the connection was closed either")
			}
			return
		}
		if !live.ret || live.err != nil {
			x.Fail("C19/sibling-disturbed", "the live call that was outstanding when another call was abandoned: returned=%v err=%v", live.ret, live.err)
		}
		var later []*ucall
		for j := 0; j < 2; j++ {
			c := newUcall(byte(0x61+j), 0, 12+31*j, formCall)
			c.spawn(f.conn)
			later = append(later, c)
		}
		vs.Quiesce()
		for _, c := range later {
			if !c.ret || c.err != nil {
				x.Fail("C19/later-call-failed", "a call after the abandoned one: returned=%v err=%v", c.ret, c.err)
			}
		}
		out += c01Check(x, later, "after-abandoned-call")
		x.Outcome("pre=%v %s", pre, out)
		f.conn.Close()
		vs.Quiesce()
	}
}

func init() {
	register(&Scenario{Prop: "C19", Name: "c19/pipelined-client", Quick: []Bound{{1, 0}, {2, 0}}, Thorough: []Bound{{3, 0}}, Body: c19Pipelined("C19")})
	register(&Scenario{Prop: "C02", Name: "c02/pipelined-client-abandons", Quick: []Bound{{1, 0}}, Thorough: []Bound{{3, 0}}, Body: c19Pipelined("C02"), OnlyKeys: []string{"C02/", "panic/", "livelock/"}, BudgetQ: 15})
	register(&Scenario{Prop: "C19", Name: "c19/1abandoned-yieldcodec", Quick: []Bound{{1, 0}}, Thorough: []Bound{{2, 0}}, Body: c19BodyOpt(1, srvOpts{bufSize: 64, codec: yieldBytesCodec}, cliOpts{bufSize: 64})})
	register(&Scenario{Prop: "C19", Name: "c19/1abandoned", Quick: []Bound{{1, 0}, {2, 0}}, Thorough: []Bound{{3, 0}}, Body: c19Body(1), BudgetQ: 35})
	register(&Scenario{Prop: "C01", Name: "c01/next-to-abandoned-calls", Quick: []Bound{{1, 0}}, Thorough: []Bound{{3, 0}}, Body: c19Body(1), OnlyKeys: []string{"C01/", "panic/", "livelock/"}, BudgetQ: 20})
	register(&Scenario{Prop: "C19", Name: "c19/2abandoned", Quick: []Bound{{1, 0}}, Thorough: []Bound{{2, 0}}, Body: c19Body(2)})
}

// the usual shape of a caller: CallWithContext fails with the context's error and the same
// goroutine at once issues its next call.  The cancellation races with the arrival of the
// abandoned call's response, so the next call can be handed objects (Call, buffers) that the
// reader is still finishing the abandoned call with.
func c01NextAfterAbandon(so srvOpts, co cliOpts) func(x *X) {
	return func(x *X) {
		nextForm := []int{formCall, formGo, formCallCtx}[x.Choose(3)]
		first := x.Choose(2) // which of the cancellation and the response is under way first
		f := newFixture(so, co)
		ab := newUcall(0x41, fGate, 24, formCallCtx)
		ab.hctx = newCtx(nil)
		next := newUcall(0x61, fGate, 37, nextForm)
		next2 := newUcall(0x62, 0, 24, formCall)
		vs.GoNamed("caller", func() {
			ab.issue(f.conn)
			next.issue(f.conn)
			next2.issue(f.conn)
		})
		vs.QuiesceKeep()
		if first == 0 {
			vs.GoNamed("canceller", func() { ab.hctx.cancel(context.Canceled) })
			vs.GoNamed("opener", func() { f.w.open(0x41) })
		} else {
			vs.GoNamed("opener", func() { f.w.open(0x41) })
			vs.GoNamed("canceller", func() { ab.hctx.cancel(context.Canceled) })
		}
		vs.QuiesceKeep()
		f.w.open(0x61)
		vs.Quiesce()
		if !ab.ret || !next.ret || !next2.ret {
			x.Fail("C01/call-never-completes/after-abandoned-call", "abandoned call returned=%v, the caller's next calls returned=%v,%v", ab.ret, next.ret, next2.ret)
		}
		out := c01Check(x, []*ucall{next, next2}, "after-abandoned-call")
		if ab.err == nil {
			out += c01Check(x, []*ucall{ab}, "abandoned-call-answered-in-time")
		}
		x.Outcome("form=%d first=%d ab=%s %s", nextForm, first, errStr(ab.err), out)
		f.conn.Close()
		vs.Quiesce()
	}
}

func init() {
	register(&Scenario{Prop: "C01", Name: "c01/caller-continues-after-abandoned-call", Quick: []Bound{{1, 0}, {2, 0}}, Thorough: []Bound{{3, 0}}, Body: c01NextAfterAbandon(srvOpts{bufSize: 64}, cliOpts{bufSize: 64}), OnlyKeys: []string{"C01/", "panic/", "livelock/", "hang/"}})
	register(&Scenario{Prop: "C01", Name: "c01/caller-continues-after-abandoned-call-yieldcodec", Quick: []Bound{{1, 0}, {2, 0}}, Thorough: []Bound{{3, 0}}, Body: c01NextAfterAbandon(srvOpts{bufSize: 64, codec: yieldBytesCodec}, cliOpts{bufSize: 64}), OnlyKeys: []string{"C01/", "panic/", "livelock/", "hang/"}})
	register(&Scenario{Prop: "C01", Name: "c01/caller-continues-after-abandoned-call-pipelined", Quick: []Bound{{1, 0}, {2, 0}}, Thorough: []Bound{{3, 0}}, Body: c01NextAfterAbandon(srvOpts{bufSize: 64, codec: yieldBytesCodec}, cliOpts{bufSize: 64, pipelining: true}), OnlyKeys: []string{"C01/", "panic/", "livelock/", "hang/"}})
}

// through a Transport: a CallWithContext whose cancellation races with its response, then a live
// call on the same pooled connection while the Transport's housekeeping (CloseIdleConnections,
// keep-alive retirement, idle timeout) runs: the abandoned call must not make the connection
// look unused.
func c19Transport(x *X) {
	first := x.Choose(2)
	hk := x.Choose(3)
	t := newTrSys(x, "C19", 1, 1)
	t.call("a", formCall) // warm connection
	ab := newUcall(0x41, fGate, 24, formCallCtx)
	ab.hctx = newCtx(nil)
	vs.GoNamed("caller", func() {
		ab.err = t.tr.CallWithContext(ab.hctx, "a", ab.method, &ab.args, &ab.reply)
		ab.ret = true
	})
	vs.QuiesceKeep()
	if first == 0 {
		vs.GoNamed("canceller", func() { ab.hctx.cancel(context.Canceled) })
		vs.GoNamed("opener", func() { t.w["a"].open(0x41) })
	} else {
		vs.GoNamed("opener", func() { t.w["a"].open(0x41) })
		vs.GoNamed("canceller", func() { ab.hctx.cancel(context.Canceled) })
	}
	vs.Quiesce()
	if !ab.ret {
		x.Fail("C19/call-with-context-hangs", "Transport.CallWithContext did not return although its context is done")
	} else if !(ab.err == context.Canceled || ab.err == nil && eqBytes(ab.reply, ab.want())) {
		x.Fail("C19/race-outcome", "Transport.CallWithContext returned err=%v reply=%x; want the context's error or the right reply", ab.err, ab.reply)
	}
	t.longCall("a")
	switch hk {
	case 0:
		t.tr.CloseIdleConnections()
		vs.Quiesce()
	case 1:
		t.advance(tKeepAlive+tTick, ">keepalive")
	case 2:
		t.advance(tKeepAlive+tIdle+2*tTick, ">keepalive+idle")
	}
	t.release()
	for _, l := range t.long {
		if !l.c.ret || l.c.err != nil || !eqBytes(l.c.reply, l.c.want()) {
			x.Fail("C19/later-call-harmed", "a call that was in flight on the pooled connection while the Transport's housekeeping ran (after an earlier CallWithContext was cancelled, order %d, housekeeping %d): returned=%v err=%v", first, hk, l.c.ret, l.c.err)
		}
	}
	x.Outcome("first=%d hk=%d ab=%s", first, hk, errStr(ab.err))
	t.shutdown()
}

func init() {
	register(&Scenario{Prop: "C19", Name: "c19/transport-housekeeping-after-abandon", Quick: []Bound{{1, 0}, {2, 0}}, Thorough: []Bound{{3, 0}}, Body: c19Transport, MaxSteps: 200000, BudgetQ: 20})
}

// many abandoned calls on one connection (the server answers none of them before the end): each
// CallWithContext returns promptly with its context's error, however many were abandoned before
// it; a live call next to them works; finally the late answers harm nobody.  Default schedule.
func c19ManyAbandoned(x *X) {
	n := []int{5, 17, 40, 130}[x.Choose(4)]
	pipelined := x.Choose(2) == 1
	kind := x.Choose(2) // cancellation / deadline
	cerr := context.Canceled
	if kind == 1 {
		cerr = context.DeadlineExceeded
	}
	f := newFixture(srvOpts{bufSize: 64}, cliOpts{bufSize: 64, pipelining: pipelined})
	for i := 0; i < n; i++ {
		c := newUcall(byte(i+1), fGate, 9+i%20, formCallCtx)
		c.hctx = newCtx(nil)
		c.spawn(f.conn)
		vs.Quiesce()
		c.hctx.cancel(cerr)
		vs.Quiesce()
		if !c.ret {
			x.Fail("C19/call-with-context-hangs", "abandoned call number %d on one connection (none of the earlier ones has been answered): CallWithContext did not return although its context is done", i+1)
			break
		}
		if c.err != cerr {
			x.Fail("C19/wrong-error", "abandoned call number %d returned %v, want %v", i+1, c.err, cerr)
		}
	}
	live := newUcall(0xF0, 0, 30, formCall)
	live.spawn(f.conn)
	vs.Quiesce()
	if !live.ret || live.err != nil || !eqBytes(live.reply, live.want()) {
		x.Fail("C19/sibling-disturbed", "a call next to %d abandoned, unanswered calls: returned=%v err=%v", n, live.ret, live.err)
	}
	for i := 0; i < n; i++ {
		f.w.open(byte(i + 1))
	}
	vs.Quiesce()
	later := newUcall(0xF1, 0, 44, formCall)
	later.spawn(f.conn)
	vs.Quiesce()
	if !later.ret || later.err != nil || !eqBytes(later.reply, later.want()) {
		x.Fail("C19/later-call-failed", "a call after the late answers to %d abandoned calls: returned=%v err=%v", n, later.ret, later.err)
	}
	x.Outcome("n=%d pipelined=%v kind=%d", n, pipelined, kind)
	f.conn.Close()
	vs.Quiesce()
	for _, t := range blockedThreads(nil) {
		x.Fail("C19/thread-left-behind", "after Conn.Close following %d abandoned calls: %s", n, t)
	}
}

func init() {
	register(&Scenario{Prop: "C19", Name: "c19/many-abandoned", Quick: []Bound{{0, 0}}, Thorough: []Bound{{1, 0}}, Body: c19ManyAbandoned, MaxSteps: 1000000, BudgetQ: 15, BudgetT: 150, MinHB: 1})
}

// the caller's context buffer after an abandoned call: CallWithContext has returned the context's
// error, so the buffer is the caller's again - it uses it for its next call (what a relay handler
// does with the buffer of its own context).  The late response of the abandoned call must not end
// up in that buffer: the reply of the next call, which may live there, does not change.
func c19BufferAfterAbandon(x *X) {
	pipelined := x.Choose(2) == 1
	sizes := [][2]int{{24, 30}, {30, 24}, {40, 40}, {60, 12}}[x.Choose(4)]
	race := x.Choose(2) == 1 // the context ends while the response is on its way (decoded by a yielding body codec)
	so := srvOpts{bufSize: 64}
	if race {
		so.codec = yieldBytesCodec
	}
	f := newFixture(so, cliOpts{bufSize: 64, pipelining: pipelined})
	buf := make([]byte, 64)
	ab := newUcall(0x41, fGate, sizes[0], formCallCtx)
	ab.hctx = newCtx(buf)
	next := newUcall(0x61, 0, sizes[1], formCallCtx)
	next.hctx = newCtx(buf)
	if race {
		// one caller: the abandoned (or just completed) call, then at once the next one with the same buffer
		var abReply []byte
		vs.GoNamed("caller", func() {
			ab.issue(f.conn)
			abReply = append([]byte(nil), ab.reply...) // (it may live in the buffer that the next call uses)
			next.issue(f.conn)
		})
		vs.QuiesceKeep()
		vs.GoNamed("opener", func() { f.w.open(0x41) })
		vs.GoNamed("canceller", func() { ab.hctx.cancel(context.DeadlineExceeded) })
		vs.Quiesce()
		if !ab.ret || !(ab.err == context.DeadlineExceeded || ab.err == nil && eqBytes(abReply, ab.want())) {
			x.Fail("C19/race-outcome", "CallWithContext whose context ended while the response was arriving: returned=%v err=%v", ab.ret, ab.err)
		}
	} else {
		early := pipelined && x.Choose(2) == 1 // the context is done before the request has left the writer queue
		if early {
			ab.hctx.cancel(context.DeadlineExceeded)
		}
		ab.spawn(f.conn)
		vs.Quiesce()
		ab.hctx.cancel(context.DeadlineExceeded)
		vs.Quiesce()
		if !ab.ret || ab.err != context.DeadlineExceeded {
			x.Fail("C19/call-with-context-hangs", "CallWithContext: returned=%v err=%v after its context was done", ab.ret, ab.err)
		}
		next.spawn(f.conn)
		vs.Quiesce()
	}
	if !next.ret || next.err != nil || !eqBytes(next.reply, next.want()) {
		x.Fail("C19/later-call-failed", "the call after the abandoned one: returned=%v err=%v", next.ret, next.err)
	}
	sum := digest(next.reply)
	f.w.open(0x41) // the abandoned call's handler answers now
	vs.Quiesce()
	if digest(next.reply) != sum || !eqBytes(next.reply, next.want()) {
		x.Fail("C19/late-response-written-into-callers-buffer", "the caller used its context buffer (64 bytes) for a CallWithContext that it abandoned (%d-byte reply outstanding) and then for its next call (%d-byte reply, received intact); when the abandoned call's response arrived it was copied into that buffer: the next call's reply changed from %x to %x", sizes[0], sizes[1], next.want(), next.reply)
	}
	x.Outcome("pipelined=%v race=%v sizes=%v ab=%s", pipelined, race, sizes, errStr(ab.err))
	f.conn.Close()
	vs.Quiesce()
}

func init() {
	register(&Scenario{Prop: "C19", Name: "c19/context-buffer-after-abandon", Quick: []Bound{{0, 0}, {1, 0}, {2, 0}}, Thorough: []Bound{{2, 0}}, Body: c19BufferAfterAbandon, BudgetQ: 15})
}

// through a Transport, a peer that has gone silent (a half-open connection: nothing the server
// sends arrives any more, heartbeats included): CallWithContext returns the context's error -
// cancellation or deadline - as soon as the context is done, and the Transport goes on working
// (a call to another address, Close).
func c19SilentPeer(x *X) {
	cerr := []error{context.Canceled, context.DeadlineExceeded}[x.Choose(2)]
	lim := [][2]int{{1, 1}, {2, 2}}[x.Choose(2)]
	t := newTrSys(x, "C19", lim[0], lim[1])
	t.call("a", formCall) // warm connection
	t.n.silent["a"] = true
	for _, c := range t.n.conns {
		if c.addr == "a" {
			c.end.p.blackhole[1] = true
		}
	}
	ab := newUcall(0x41, 0, 24, formCallCtx)
	ab.hctx = newCtx(nil)
	vs.GoNamed("caller", func() {
		ab.err = t.tr.CallWithContext(ab.hctx, "a", ab.method, &ab.args, &ab.reply)
		ab.ret = true
	})
	vs.Quiesce()
	if ab.ret {
		x.Fail("C19/returned-before-context-done", "CallWithContext to a silent peer returned %v before its context was done", ab.err)
	}
	ab.hctx.cancel(cerr)
	vs.Quiesce()
	if !ab.ret {
		x.Fail("C19/call-with-context-hangs/silent-peer", "Transport.CallWithContext did not return although its context is done (%v); the peer has gone silent (it answers nothing, heartbeats included)", cerr)
	} else if ab.err != cerr {
		x.Fail("C19/wrong-error", "Transport.CallWithContext returned %v, want %v", ab.err, cerr)
	}
	other := false
	oc := newUcall(0x51, 0, 20, formCall)
	vs.GoNamed("other", func() { oc.err = t.tr.Call("b", oc.method, &oc.args, &oc.reply); other = true })
	vs.Quiesce()
	if !other {
		x.Fail("C19/transport-blocked/silent-peer", "a call to another address through the same Transport does not return")
	}
	closed := false
	vs.GoNamed("closer", func() { t.tr.Close(); closed = true })
	vs.Quiesce()
	if !closed {
		x.Fail("C19/transport-blocked/silent-peer", "Transport.Close does not return")
	} else {
		t.shutdown()
	}
	x.Outcome("err=%v lim=%v ret=%v", cerr, lim, ab.ret)
}

func init() {
	register(&Scenario{Prop: "C19", Name: "c19/transport-silent-peer", Quick: []Bound{{0, 0}, {1, 0}}, Thorough: []Bound{{2, 0}}, Body: c19SilentPeer, MaxSteps: 200000, BudgetQ: 15})
}

// contexts that end with a cause (context.WithCancelCause / WithTimeoutCause): CallWithContext
// returns the context's error - context.Canceled or context.DeadlineExceeded - not the cause; on a
// Conn and through a Transport.
func c19Cause(x *X) {
	via := x.Choose(2)
	cerr := []error{context.Canceled, context.DeadlineExceeded}[x.Choose(2)]
	cause := errors.New("the request was superseded")
	hc := newCtxCause(nil)
	var err error
	ret := false
	var t *trSys
	var f *fixture
	if via == 0 {
		f = newFixture(srvOpts{bufSize: 64}, cliOpts{bufSize: 64})
		c := newUcall(0x41, fGate, 24, formCallCtx)
		vs.GoNamed("caller", func() { err = f.conn.CallWithContext(hc, c.method, &c.args, &c.reply); ret = true })
	} else {
		t = newTrSys(x, "C19", 1, 1)
		c := newUcall(0x41, fGate, 24, formCallCtx)
		vs.GoNamed("caller", func() { err = t.tr.CallWithContext(hc, "a", c.method, &c.args, &c.reply); ret = true })
	}
	vs.Quiesce()
	hc.cancelCause(cerr, cause)
	vs.Quiesce()
	if !ret {
		x.Fail("C19/call-with-context-hangs/cause", "CallWithContext did not return although its context is done")
	} else if err != cerr {
		x.Fail("C19/wrong-error/cause", "the context ended with %v (cause: %q): CallWithContext returned %v, want the context's error", cerr, cause.Error(), err)
	}
	x.Outcome("via=%d err=%v", via, err)
	if f != nil {
		f.w.open(0x41)
		f.conn.Close()
		vs.Quiesce()
	} else {
		t.w["a"].open(0x41)
		vs.Quiesce()
		t.shutdown()
	}
}

// a CallWithContext through a Transport whose context ends while the caller is still waiting for a
// connection (another caller's dial to another address takes long, and the pool is locked while it
// dials): the call returns (at the latest when the pool is free again), and the call in flight on
// the pooled connection of its own address, and later calls, are unharmed.
func c19SlowDialElsewhere(x *X) {
	cerr := []error{context.Canceled, context.DeadlineExceeded}[x.Choose(2)]
	t := newTrSys(x, "C19", 1, 1)
	t.call("a", formCall) // warm connection to a
	t.longCall("a")
	t.n.holdDial["b"] = true
	ob := newUcall(0x51, 0, 20, formCall)
	vs.GoNamed("caller-b", func() { ob.err = t.tr.Call("b", ob.method, &ob.args, &ob.reply); ob.ret = true })
	vs.Quiesce()
	ab := newUcall(0x41, 0, 24, formCallCtx)
	ab.hctx = newCtx(nil)
	vs.GoNamed("caller-a", func() {
		ab.err = t.tr.CallWithContext(ab.hctx, "a", ab.method, &ab.args, &ab.reply)
		ab.ret = true
	})
	vs.Quiesce()
	ab.hctx.cancel(cerr)
	vs.Quiesce()
	t.n.holdDial["b"] = false
	vs.Quiesce()
	if !ab.ret {
		x.Fail("C19/call-with-context-hangs/slow-dial", "Transport.CallWithContext has not returned although its context is done and the pool is free again")
	} else if !(ab.err == cerr || ab.err == nil && eqBytes(ab.reply, ab.want())) {
		x.Fail("C19/wrong-error/slow-dial", "Transport.CallWithContext returned %v", ab.err)
	}
	if !ob.ret || ob.err != nil {
		x.Fail("C19/other-address-harmed/slow-dial", "the call to the other address: returned=%v err=%v", ob.ret, ob.err)
	}
	t.release()
	for _, l := range t.long {
		if !l.c.ret || l.c.err != nil || !eqBytes(l.c.reply, l.c.want()) {
			x.Fail("C19/later-call-harmed/slow-dial", "the call that was in flight on the pooled connection while a CallWithContext to the same address was abandoned before it had a connection: returned=%v err=%v", l.c.ret, l.c.err)
		}
	}
	vs.Quiesce()
	if e := t.call("a", formCall); e != nil {
		x.Fail("C19/later-call-harmed/slow-dial", "a call to the same address afterwards failed: %v", e)
	}
	x.Outcome("err=%v ab=%s", cerr, errStr(ab.err))
	t.shutdown()
}

func init() {
	register(&Scenario{Prop: "C19", Name: "c19/contexts-with-cause", Quick: []Bound{{0, 0}, {1, 0}}, Thorough: []Bound{{2, 0}}, Body: c19Cause, MaxSteps: 200000, BudgetQ: 10})
	register(&Scenario{Prop: "C19", Name: "c19/transport-slow-dial-elsewhere", Quick: []Bound{{0, 0}, {1, 0}}, Thorough: []Bound{{2, 0}}, Body: c19SlowDialElsewhere, MaxSteps: 200000, BudgetQ: 15})
}

// the clause "a caller-supplied context buffer is used for the reply when large enough and safely
// ignored when not", for contexts that can end and for contexts that never end (Done() == nil:
// context.Background() with values - what a server hands to a context-style handler): with the
// aliasing BYTES codec the reply lives in the buffer exactly when it fits.
type nodoneCtx struct{ *hctx }

func (c nodoneCtx) Done() <-chan struct{} { return nil }

func c19BufferUsed(x *X) {
	nodone := x.Choose(2) == 1
	size := []int{12, 40, 64, 65, 120}[x.Choose(5)]
	pipelined := x.Choose(2) == 1
	f := newFixture(srvOpts{bufSize: 64}, cliOpts{bufSize: 64, pipelining: pipelined})
	buf := make([]byte, 64)
	for i := range buf {
		buf[i] = 0xA5
	}
	c := newUcall(0x31, 0, size, formCallCtx)
	hc := newCtx(buf)
	var ctx context.Context = hc
	if nodone {
		ctx = nodoneCtx{hc}
	}
	ret := false
	vs.GoNamed("caller", func() { c.err = f.conn.CallWithContext(ctx, c.method, &c.args, &c.reply); ret = true })
	vs.Quiesce()
	if !ret || c.err != nil || !eqBytes(c.reply, c.want()) {
		x.Fail("C19/call-failed/buffer-used", "CallWithContext: returned=%v err=%v", ret, c.err)
	} else {
		inBuf := len(c.reply) > 0 && &c.reply[0] == &buf[0]
		fits := len(c.want()) <= len(buf)
		switch {
		case fits && !inBuf:
			x.Fail("C19/context-buffer-not-used", "the reply (%d bytes) fits the caller-supplied context buffer (64 bytes) and was not placed in it (context that never ends: %v, client pipelining %v)", len(c.reply), nodone, pipelined)
		case !fits && inBuf:
			x.Fail("C19/context-buffer-overrun", "the reply (%d bytes) does not fit the 64-byte context buffer and was placed in it", len(c.reply))
		case !fits:
			for i, b := range buf {
				if b != 0xA5 {
					x.Fail("C19/context-buffer-overrun", "the reply does not fit the context buffer, which was written at offset %d", i)
					break
				}
			}
		}
	}
	x.Outcome("nodone=%v size=%d pipelined=%v", nodone, size, pipelined)
	f.conn.Close()
	vs.Quiesce()
}

func init() {
	register(&Scenario{Prop: "C19", Name: "c19/context-buffer-used-when-large-enough", Quick: []Bound{{0, 0}}, Thorough: []Bound{{1, 0}}, Body: c19BufferUsed, BudgetQ: 10, MinHB: 1})
}
