package main

import (
	"context"
	"fmt"

	"github.com/hslam/rpc"
	vs "verif/shim/vsync"
)

// cliOpts configures the client Conn of a fixture.
type cliOpts struct {
	pipelining, directIO, noCopy bool
	bufSize                      int
}

// fixture is a client Conn connected to a real Server.ServeCodec over a message pipe.
type fixture struct {
	w      *World
	cl, sv *PipeEnd
	srv    *rpc.Server
	conn   *rpc.Conn
	so     srvOpts
}

func newFixture(so srvOpts, co cliOpts) *fixture {
	f := &fixture{w: newWorld(), so: so}
	f.cl, f.sv = NewPipe()
	f.srv = newServer(f.w, so)
	serveCodec(f.srv, f.sv, so)
	f.conn = newConn(f.cl, so.enc, co.bufSize, so.codec)
	if co.pipelining {
		f.conn.SetPipelining(true)
	}
	if co.directIO {
		f.conn.SetDirectIO(true)
	}
	if co.noCopy {
		f.conn.SetNoCopy(true)
	}
	return f
}

// ucall is one unary call issued by a scenario.
type ucall struct {
	tag    byte
	flags  byte
	size   int
	form   int
	method string
	args   []byte
	reply  []byte
	err    error
	ret    bool
	call   *rpc.Call
	done   chan *rpc.Call
	ctxbuf []byte
	hctx   *hctx
}

func newUcall(tag, flags byte, size, form int) *ucall {
	c := &ucall{tag: tag, flags: flags, size: size, form: form, method: "Svc.Echo"}
	c.args = mkPayload(tag, flags, size)
	return c
}

func (c *ucall) want() []byte { return transform(c.args) }

// issue performs the call on conn in the calling thread (blocking forms return when complete;
// async forms wait for their Done channel).
func (c *ucall) issue(conn *rpc.Conn) {
	switch c.form {
	case formCall:
		c.err = conn.Call(c.method, &c.args, &c.reply)
	case formCallCtx:
		var ctx context.Context = context.Background()
		if c.hctx != nil {
			ctx = c.hctx
		}
		c.err = conn.CallWithContext(ctx, c.method, &c.args, &c.reply)
	case formGo:
		c.done = make(chan *rpc.Call, 1)
		c.call = conn.Go(c.method, &c.args, &c.reply, c.done)
		recvCall(c.done)
		c.err = c.call.Error
	case formRoundTrip:
		c.done = make(chan *rpc.Call, 1)
		c.call = conn.RoundTrip(&rpc.Call{ServiceMethod: c.method, Args: &c.args, Reply: &c.reply, Done: c.done})
		recvCall(c.done)
		c.err = c.call.Error
	case formPing:
		c.err = conn.Ping()
	}
	c.ret = true
}

func (c *ucall) spawn(conn *rpc.Conn) {
	vs.GoNamed(fmt.Sprintf("caller%d", c.tag), func() { c.issue(conn) })
}

// perms of small n
func perms(n int) [][]int {
	if n == 1 {
		return [][]int{{0}}
	}
	var out [][]int
	for _, p := range perms(n - 1) {
		for i := 0; i <= len(p); i++ {
			q := append(append(append([]int{}, p[:i]...), n-1), p[i:]...)
			out = append(out, q)
		}
	}
	return out
}

func digest(b []byte) string {
	var h uint64 = 14695981039346656037
	for _, c := range b {
		h ^= uint64(c)
		h *= 1099511628211
	}
	return fmt.Sprintf("%d:%016x", len(b), h)
}

// server mode table used by several properties
type modeT struct {
	name string
	so   srvOpts
	co   cliOpts
}

var basicModes = []modeT{
	{"plain", srvOpts{bufSize: 64}, cliOpts{bufSize: 64}},
	{"srv-pipelining", srvOpts{bufSize: 64, pipelining: true}, cliOpts{bufSize: 64}},
	{"srv-directIO", srvOpts{bufSize: 64, directIO: true}, cliOpts{bufSize: 64}},
	{"cli-directIO", srvOpts{bufSize: 64}, cliOpts{bufSize: 64, directIO: true}},
	{"both-pipelining", srvOpts{bufSize: 64, pipelining: true}, cliOpts{bufSize: 64, pipelining: true}},
	{"enc-pb", srvOpts{bufSize: 64, enc: "pb"}, cliOpts{bufSize: 64}},
	{"enc-code", srvOpts{bufSize: 64, enc: "code"}, cliOpts{bufSize: 64}},
	{"enc-json", srvOpts{bufSize: 64, enc: "json"}, cliOpts{bufSize: 64}},
	{"srv-nocopy", srvOpts{bufSize: 64, noCopy: true}, cliOpts{bufSize: 64}},
	{"srv-nocopy-directIO", srvOpts{bufSize: 64, noCopy: true, directIO: true}, cliOpts{bufSize: 64}},
}

// ---- listener based fixture (fake socket): Server.ListenWithOptions / DialWithOptions, poll emulation

type netFixture struct {
	n       *FakeNet
	w       *World
	srv     *rpc.Server
	conn    *rpc.Conn
	so      srvOpts
	lisRet  bool
	lisErr  error
	dialErr error
}

func (so srvOpts) options(n *FakeNet, clientBuf int) *rpc.Options {
	codec := so.codec
	if codec == nil {
		codec = bytesCodec
	}
	o := &rpc.Options{NewSocket: n.Socket, NewCodec: codec, HeaderEncoder: so.enc, ClientBufferSize: clientBuf}
	if len(so.enc) > 5 && so.enc[:5] == "yield" {
		enc := so.enc
		o.HeaderEncoder = ""
		o.NewHeaderEncoder = func() rpc.Encoder { return encoderByName(enc) }
	}
	return o
}

func startListener(n *FakeNet, w *World, addr string, so srvOpts, poll bool) (*rpc.Server, *bool) {
	srv := newServer(w, so)
	srv.SetPoll(poll)
	ret := new(bool)
	vs.GoLib("Listen("+addr+")", func() {
		srv.ListenWithOptions(addr, so.options(n, 0))
		*ret = true
	})
	return srv, ret
}

func newNetFixture(so srvOpts, co cliOpts, poll bool, workers int) *netFixture {
	f := &netFixture{n: newNet(), w: newWorld(), so: so}
	f.n.pollWorkers = workers
	f.srv = newServer(f.w, so)
	f.srv.SetPoll(poll)
	vs.GoLib("Listen", func() {
		f.lisErr = f.srv.ListenWithOptions("srv", so.options(f.n, 0))
		f.lisRet = true
	})
	vs.Quiesce()
	f.conn, f.dialErr = rpc.DialWithOptions("srv", so.options(f.n, co.bufSize))
	applySeqBase(f.conn)
	if f.dialErr != nil {
		vs.Fatal("fixture dial failed: " + f.dialErr.Error())
	}
	if co.bufSize > 0 {
		f.conn.SetBufferSize(co.bufSize)
	}
	if co.pipelining {
		f.conn.SetPipelining(true)
	}
	if co.directIO {
		f.conn.SetDirectIO(true)
	}
	if co.noCopy {
		f.conn.SetNoCopy(true)
	}
	return f
}

// clientEnd returns the pipe end used by the k-th dialled connection.
func (f *netFixture) clientEnd(k int) *PipeEnd { return f.n.conns[k].end }

// sys abstracts over the two fixture kinds for scenarios that run in every server mode.
type sys struct {
	w    *World
	conn *rpc.Conn
	srv  *rpc.Server
	cl   *PipeEnd
	nf   *netFixture
	name string
}

type sysMode struct {
	name    string
	poll    bool
	workers int
	listen  bool
}

var sysModes = []sysMode{
	{"servecodec", false, 0, false},
	{"listen", false, 0, true},
	{"poll1", true, 1, true},
	{"poll2", true, 2, true},
}

func newSys(m sysMode, so srvOpts, co cliOpts) *sys {
	if !m.listen {
		f := newFixture(so, co)
		return &sys{w: f.w, conn: f.conn, srv: f.srv, cl: f.cl, name: m.name}
	}
	nf := newNetFixture(so, co, m.poll, m.workers)
	return &sys{w: nf.w, conn: nf.conn, srv: nf.srv, cl: nf.clientEnd(0), nf: nf, name: m.name}
}

// finish closes everything and lets the system settle.
func (s *sys) finish() {
	s.conn.Close()
	if s.nf != nil {
		s.srv.Close()
	}
	vs.Quiesce()
}

var _ = context.Background
var _ = fmt.Sprint
