package main

import (
	"bytes"
	"encoding/json"
	"fmt"
	"os"
	"runtime/debug"
	"syscall"

	"github.com/hslam/rpc"
	vs "verif/shim/vsync"
)

// C07 — wire headers round-trip losslessly and keep their documented format.
//
// Plain enumeration (no scheduling): four encodings x requests/responses x sequence numbers at
// every varint length boundary x upgrade bytes x text lengths x body lengths x scratch buffer
// shapes, compared with independent reference encoders written here.

func uvarint(b []byte, v uint64) []byte {
	for v >= 0x80 {
		b = append(b, byte(v)|0x80)
		v >>= 7
	}
	return append(b, byte(v))
}

func pbField(b []byte, tag byte, data []byte) []byte {
	if len(data) == 0 {
		return b
	}
	b = append(b, tag<<3|2)
	b = uvarint(b, uint64(len(data)))
	return append(b, data...)
}

// protobuf wire format: request tags 1 (varint seq), 2 (upgrade), 3 (method), 4 (args);
// response tags 1 (seq), 2 (error), 3 (reply); zero values omitted.
func refPB(kind int, seq uint64, up []byte, text string, body []byte) []byte {
	var b []byte
	if seq != 0 {
		b = append(b, 1<<3|0)
		b = uvarint(b, seq)
	}
	if kind == 0 {
		b = pbField(b, 2, up)
		b = pbField(b, 3, []byte(text))
		b = pbField(b, 4, body)
	} else {
		b = pbField(b, 2, []byte(text))
		b = pbField(b, 3, body)
	}
	return b
}

// "code" layout: varint seq, then varint-length-prefixed fields in declaration order.
func refCode(kind int, seq uint64, up []byte, text string, body []byte) []byte {
	b := uvarint(nil, seq)
	lp := func(d []byte) {
		b = uvarint(b, uint64(len(d)))
		b = append(b, d...)
	}
	if kind == 0 {
		lp(up)
	}
	lp([]byte(text))
	lp(body)
	return b
}

var c07Seqs = func() []uint64 {
	s := []uint64{0, 1}
	for k := uint(1); k <= 9; k++ {
		s = append(s, 1<<(7*k)-1, 1<<(7*k))
	}
	s = append(s, 1<<64-1)
	// one value per encoded length whose 7-bit groups are all different (boundary values have groups of all
	// zeros or all ones, which a copy-and-paste mistake between two groups does not show on)
	for k := uint(1); k <= 10; k++ {
		var v uint64
		for g := uint(0); g < k; g++ {
			v |= uint64((0x15+g*0x0B)&0x7f|1) << (7 * g)
		}
		s = append(s, v)
	}
	return s
}()

var c07TextLens = []int{0, 1, 127, 128, 129, 16383, 16384}
var c07BodyLens = []int{0, 1, 127, 128, 16383, 16384}
var c07BigBodies = []int{2097151, 2097152}

func c07Upgrades(all bool) [][]byte {
	ups := [][]byte{nil}
	if all {
		for f := 0; f < 32; f++ {
			ups = append(ups, []byte{byte(f>>4&1)<<7 | byte(f>>3&1)<<6 | byte(f>>2&1)<<5 | byte(f&3)<<3})
		}
	} else {
		ups = append(ups, []byte{0xE0}, []byte{0xC8}, []byte{0x50}, []byte{0xD8}, []byte{0x00}, []byte{0xFF})
	}
	return append(ups, []byte{0xE0, 0x01})
}

func c07Text(n int, enc string, salt byte) string {
	b := make([]byte, n)
	for i := range b {
		if enc == "json" {
			b[i] = 'a' + byte((i+int(salt))%26)
		} else {
			b[i] = byte(i*31) + salt // arbitrary bytes, including 0x00, 0xFF and invalid UTF-8
		}
	}
	if enc == "json" && n >= 4 {
		copy(b, "é\"\\") // multi-byte rune and characters that need escaping
	}
	if enc == "json" && n >= 16 {
		copy(b[4:], "\x00\x1b\x7f\a\v\U000e0001") // control characters and a non-printable rune beyond the BMP
	}
	return string(b)
}

func c07Body(n int, salt byte) []byte {
	b := make([]byte, n)
	for i := range b {
		b[i] = byte(i*13) ^ salt
	}
	return b
}

func bucket(n int) string {
	switch {
	case n == 0:
		return "0"
	case n < 128:
		return "<128"
	case n < 16384:
		return "<16384"
	case n < 2097152:
		return "<2M"
	}
	return ">=2M"
}

type hdrCase struct {
	kind int
	seq  uint64
	up   []byte
	text string
	body []byte
}

func (h hdrCase) shape(enc string, scratch int, ok bool) string {
	return fmt.Sprintf("%s/k%d/seq%d/up%d/t%s/b%s/s%d/%v", enc, h.kind, len(uvarint(nil, h.seq)), len(h.up), bucket(len(h.text)), bucket(len(h.body)), scratch, ok)
}

func newMsg(enc rpc.Encoder, h hdrCase) interface{} {
	if h.kind == 0 {
		r := enc.NewRequest()
		r.SetSeq(h.seq)
		r.SetUpgrade(h.up)
		r.SetServiceMethod(h.text)
		r.SetArgs(h.body)
		return r
	}
	r := enc.NewResponse()
	r.SetSeq(h.seq)
	r.SetError(h.text)
	r.SetReply(h.body)
	return r
}

func decodeMsg(enc rpc.Encoder, kind int, data []byte) (h hdrCase, err error) {
	defer func() {
		if r := recover(); r != nil {
			err = fmt.Errorf("decoder panicked: %v", r)
		}
	}()
	h.kind = kind
	if kind == 0 {
		r := enc.NewRequest()
		if err = enc.NewCodec().Unmarshal(data, r); err != nil {
			return
		}
		h.seq, h.up, h.text, h.body = r.GetSeq(), append([]byte(nil), r.GetUpgrade()...), string(append([]byte(nil), r.GetServiceMethod()...)), append([]byte(nil), r.GetArgs()...)
		return
	}
	r := enc.NewResponse()
	if err = enc.NewCodec().Unmarshal(data, r); err != nil {
		return
	}
	h.seq, h.text, h.body = r.GetSeq(), string(append([]byte(nil), r.GetError()...)), append([]byte(nil), r.GetReply()...)
	return
}

func sameHdr(a, b hdrCase) bool {
	return a.seq == b.seq && bytes.Equal(a.up, b.up) && a.text == b.text && bytes.Equal(a.body, b.body)
}

func jsonSemantic(kind int, data []byte, h hdrCase) string {
	var m map[string]interface{}
	d := json.NewDecoder(bytes.NewReader(data))
	d.UseNumber()
	if err := d.Decode(&m); err != nil {
		return "not valid JSON: " + err.Error()
	}
	allowed := map[string]bool{"i": true, "e": kind == 1, "r": kind == 1, "u": kind == 0, "m": kind == 0, "p": kind == 0}
	for k := range m {
		if !allowed[k] {
			return "unexpected key " + k
		}
	}
	if fmt.Sprint(m["i"]) != fmt.Sprint(h.seq) {
		return fmt.Sprintf("key i is %v", m["i"])
	}
	str := func(k string) string {
		s, _ := m[k].(string)
		return s
	}
	b64 := func(k string) []byte {
		var out []byte
		raw, _ := json.Marshal(m[k])
		json.Unmarshal(raw, &out)
		return out
	}
	if kind == 0 {
		if str("m") != h.text || !bytes.Equal(b64("p"), h.body) || !bytes.Equal(b64("u"), h.up) {
			return "keys u/m/p do not carry the header fields"
		}
	} else if str("e") != h.text || !bytes.Equal(b64("r"), h.body) {
		return "keys e/r do not carry the header fields"
	}
	return ""
}

// checkCase runs one header through encode (with the given scratch shape), reference comparison and decode.
func c07Check(x *X, encName string, h hdrCase, scratch int, prev []byte) {
	enc := wireEncoder(encName)
	var ref []byte
	switch encName {
	case "code":
		ref = refCode(h.kind, h.seq, h.up, h.text, h.body)
	case "json":
	default:
		ref = refPB(h.kind, h.seq, h.up, h.text, h.body)
	}
	needed := len(ref)
	if encName == "json" {
		needed = 64 + len(h.text)*2 + len(h.body)*2
	}
	var buf []byte
	switch scratch {
	case 1:
		if needed > 0 {
			buf = bytes.Repeat([]byte{0xFF}, needed-1)[:0]
		}
	case 2:
		buf = bytes.Repeat([]byte{0xFF}, needed)[:0]
	case 3:
		buf = bytes.Repeat([]byte{0xFF}, needed+1)[:0]
	case 4:
		n := 65536
		if needed+64 > n {
			n = needed + 64
		}
		buf = bytes.Repeat([]byte{0xFF}, n)[:0]
	case 5:
		// a buffer that still holds a previous, longer encoding
		buf = append(make([]byte, 0, len(prev)+needed+64), prev...)[:0]
	}
	var data []byte
	var err error
	func() {
		defer func() {
			if r := recover(); r != nil {
				err = fmt.Errorf("encoder panicked: %v", r)
			}
		}()
		data, err = enc.NewCodec().Marshal(buf, newMsg(enc, h))
	}()
	kindName := []string{"request", "response"}[h.kind]
	tag := encName + "/" + kindName
	if encName == "" {
		tag = "default/" + kindName
	}
	if err != nil {
		x.Fail("C07/encode-error/"+tag, "encoding seq=%d up=%x text=%d bytes body=%d bytes (scratch class %d) failed: %v", h.seq, h.up, len(h.text), len(h.body), scratch, err)
		x.Case(h.shape(encName, scratch, false))
		return
	}
	data = append([]byte(nil), data...)
	ok := true
	if encName == "json" {
		if why := jsonSemantic(h.kind, data, h); why != "" {
			x.Fail("C07/format/"+tag, "json header for seq=%d text=%d body=%d: %s: %.120s", h.seq, len(h.text), len(h.body), why, data)
			ok = false
		}
	} else if !bytes.Equal(data, ref) {
		x.Fail("C07/format/"+tag, "encoded bytes differ from the documented format for seq=%d up=%x text=%d bytes body=%d bytes (scratch class %d): got %d bytes %.40x, reference %d bytes %.40x", h.seq, h.up, len(h.text), len(h.body), scratch, len(data), data, len(ref), ref)
		ok = false
	}
	got, derr := decodeMsg(enc, h.kind, data)
	if derr != nil || !sameHdr(got, h) {
		x.Fail("C07/roundtrip/"+tag, "decode(encode(x)) != x for seq=%d up=%x text=%d bytes body=%d bytes (scratch class %d): err=%v got seq=%d up=%x text=%d bytes body=%d bytes", h.seq, h.up, len(h.text), len(h.body), scratch, derr, got.seq, got.up, len(got.text), len(got.body))
		ok = false
	}
	if ref != nil {
		// interoperability: bytes produced by an independent encoder of the documented format decode to the same fields
		got2, derr2 := decodeMsg(enc, h.kind, ref)
		if derr2 != nil || !sameHdr(got2, h) {
			x.Fail("C07/interop-decode/"+tag, "the reference encoding of seq=%d up=%x text=%d body=%d does not decode to the original: err=%v", h.seq, h.up, len(h.text), len(h.body), derr2)
			ok = false
		}
	}
	x.Case(h.shape(encName, scratch, ok))
}

type recMsgs struct{ frames [][]byte }

func (r *recMsgs) ReadMessage(b []byte) ([]byte, error) { return nil, fmt.Errorf("n/a") }
func (r *recMsgs) WriteMessage(b []byte) error {
	r.frames = append(r.frames, append([]byte(nil), b...))
	return nil
}
func (r *recMsgs) Close() error { return nil }

// default path: frames written by the real client/server codecs without a header encoder are
// the pb format, and the built-in decoders understand the reference bytes.
func c07Default(x *X, h hdrCase) {
	rec := &recMsgs{}
	if h.kind == 0 {
		cc := rpc.NewClientCodec(bytesCodec(), nil, rec, 0)
		ctx := rpc.VerifNewContext(h.seq, h.up, h.text, "")
		nr, _, _, _, _ := rpc.VerifUpgradeUnmarshal(h.up)
		body := h.body
		if len(h.up) > 0 && nr == 1 {
			body = nil // no-request frames carry no arguments
		}
		if err := cc.WriteRequest(ctx, &body); err != nil || len(rec.frames) != 1 {
			x.Fail("C07/default-path/request", "WriteRequest failed: %v", err)
			return
		}
		ref := refPB(0, h.seq, h.up, h.text, body)
		if !bytes.Equal(rec.frames[0], ref) {
			x.Fail("C07/default-path/request", "frame written by the built-in client codec differs from the pb format: %.40x vs %.40x", rec.frames[0], ref)
		}
		sc := rpc.NewServerCodec(bytesCodec(), nil, rec, true, 0)
		in := rpc.VerifNewContext(0, nil, "", "")
		rpc.VerifSetData(in, ref)
		if err := sc.ReadRequestHeader(in); err != nil || in.Seq != h.seq || !bytes.Equal(in.Upgrade, h.up) || in.ServiceMethod != h.text || !bytes.Equal(rpc.VerifValue(in), body) {
			x.Fail("C07/default-path/request-decode", "the built-in server codec does not decode the pb reference bytes: err=%v seq=%d", err, in.Seq)
		}
		x.Case(h.shape("default-codec", 0, true))
		return
	}
	sc := rpc.NewServerCodec(bytesCodec(), nil, rec, true, 0)
	ctx := rpc.VerifNewContext(h.seq, nil, "", h.text)
	body := h.body
	if len(h.text) > 0 {
		body = nil
	}
	if err := sc.WriteResponse(ctx, &body); err != nil || len(rec.frames) != 1 {
		x.Fail("C07/default-path/response", "WriteResponse failed: %v", err)
		return
	}
	ref := refPB(1, h.seq, nil, h.text, body)
	if !bytes.Equal(rec.frames[0], ref) {
		x.Fail("C07/default-path/response", "frame written by the built-in server codec differs from the pb format: %.40x vs %.40x", rec.frames[0], ref)
	}
	cc := rpc.NewClientCodec(bytesCodec(), nil, rec, 0)
	in := rpc.VerifNewContext(0, nil, "", "")
	rpc.VerifSetData(in, ref)
	if err := cc.ReadResponseHeader(in); err != nil || in.Seq != h.seq || in.Error != h.text || !bytes.Equal(rpc.VerifValue(in), body) {
		x.Fail("C07/default-path/response-decode", "the built-in client codec does not decode the pb reference bytes: err=%v", err)
	}
	x.Case(h.shape("default-codec", 0, true))
}

func c07Body_(thorough bool) func(x *X) {
	return func(x *X) {
		encName := encNames[x.Choose(len(encNames))]
		kind := x.Choose(2)
		scratch := x.Choose(6)
		part := x.Choose(4) // the sequence-number alphabet is split so that the work spreads over the workers
		ups := c07Upgrades(thorough)
		if kind == 1 {
			ups = [][]byte{nil}
		}
		prev := bytes.Repeat([]byte{0xAB}, 40000)
		n := 0
		for si, seq := range c07Seqs {
			if si%4 != part {
				continue
			}
			for ui, up := range ups {
				for _, tl := range c07TextLens {
					for _, bl := range c07BodyLens {
						if !thorough && (ui > 2 && tl > 200 || ui > 2 && bl > 200) {
							continue // quick: large fields only with the first upgrade values
						}
						h := hdrCase{kind: kind, seq: seq, up: up, text: c07Text(tl, encName, byte(si)), body: c07Body(bl, byte(ui))}
						c07Check(x, encName, h, scratch, prev)
						if encName == "" && scratch == 0 {
							c07Default(x, h)
						}
						n++
					}
				}
			}
		}
		// multi-megabyte bodies crossed with the boundary values of one other field at a time
		if scratch == 0 || scratch == 3 || thorough {
			for _, bl := range c07BigBodies {
				body := c07Body(bl, 7)
				for si, seq := range c07Seqs {
					if si%4 == part {
						c07Check(x, encName, hdrCase{kind: kind, seq: seq, text: "m", body: body}, scratch, prev)
					}
				}
				if part == 0 {
					for _, tl := range c07TextLens {
						c07Check(x, encName, hdrCase{kind: kind, seq: 5, text: c07Text(tl, encName, 1), body: body}, scratch, prev)
					}
					for _, up := range ups {
						c07Check(x, encName, hdrCase{kind: kind, seq: 5, up: up, text: "m", body: body}, scratch, prev)
					}
				}
			}
		}
		x.Outcome("enc=%q kind=%d scratch=%d part=%d", encName, kind, scratch, part)
	}
}

// the one-byte upgrade flags round-trip for every flag combination and follow the documented bit layout
func c07Upgrade(x *X) {
	for nr := byte(0); nr < 2; nr++ {
		for nresp := byte(0); nresp < 2; nresp++ {
			for hb := byte(0); hb < 2; hb++ {
				for st := byte(0); st < 4; st++ {
					for _, buf := range [][]byte{nil, make([]byte, 0, 1), bytes.Repeat([]byte{0xFF}, 8)[:0]} {
						b := rpc.VerifUpgradeMarshal(nr, nresp, hb, st, buf)
						want := nr<<7 | nresp<<6 | hb<<5 | st<<3
						if len(b) != 1 || b[0] != want {
							x.Fail("C07/upgrade-layout", "flags (%d,%d,%d,%d) are encoded as %x, the documented layout gives %02x", nr, nresp, hb, st, b, want)
							continue
						}
						a, c, d, e, err := rpc.VerifUpgradeUnmarshal(b)
						if err != nil || a != nr || c != nresp || d != hb || e != st {
							x.Fail("C07/upgrade-roundtrip", "flags (%d,%d,%d,%d) decode as (%d,%d,%d,%d) err=%v", nr, nresp, hb, st, a, c, d, e, err)
						}
						x.Case(fmt.Sprintf("upgrade/%02x/%d", want, cap(buf)))
					}
				}
			}
		}
	}
	if _, _, _, _, err := rpc.VerifUpgradeUnmarshal(nil); err == nil {
		x.Fail("C07/upgrade-roundtrip", "decoding an empty upgrade field reports no error")
	}
	x.Outcome("upgrade")
}

func init() {
	register(&Scenario{Prop: "C07", Name: "c07/headers", Quick: []Bound{{0, 0}}, Thorough: []Bound{{0, 0}}, Body: c07Body_(false), MinHB: 1, MaxSteps: 5000000})
	register(&Scenario{Prop: "C07", Name: "c07/headers-all-upgrades", Quick: []Bound{}, Thorough: []Bound{{0, 0}}, Body: c07Body_(true), MinHB: 1, BudgetT: 500, MaxSteps: 5000000})
	register(&Scenario{Prop: "C07", Name: "c07/upgrade-flags", Quick: []Bound{{0, 0}}, Thorough: []Bound{{0, 0}}, Body: c07Upgrade, MinHB: 1})
}

// frame sequences: a connection's codec decodes (and encodes) many frames one after the other;
// whatever it keeps between frames (a reused header message, a scratch buffer) must not leak
// from one frame into the next.  Four frames with complementary sets of present fields (all
// fields / nothing but a zero sequence number / only a text / only a body), in every order,
// through ONE server codec and ONE client codec per header encoder; every decoded header equals
// the header of that frame alone, every encoded frame equals the frame a fresh codec writes.
func c07Sequences(x *X) {
	kind := x.Choose(2)
	encName := encNames[x.Choose(len(encNames))]
	ps := perms(4)
	order := ps[x.Choose(len(ps))]
	long := c07Text(130, encName, 3)
	hs := []hdrCase{
		{kind: kind, seq: 300, up: []byte{0x28}, text: long, body: c07Body(130, 5)},
		{kind: kind, seq: 0},
		{kind: kind, seq: 1, text: "Svc.Echo"},
		{kind: kind, seq: 0, body: []byte{9, 8, 7}},
	}
	if kind == 1 {
		for i := range hs {
			hs[i].up = nil
			if len(hs[i].text) > 0 {
				hs[i].body = nil // an error response carries no reply
			}
		}
	}
	we := wireEncoder(encName)
	rec := &recMsgs{}
	sc := rpc.NewServerCodec(bytesCodec(), encoderByName(encName), rec, true, 0)
	cc := rpc.NewClientCodec(bytesCodec(), encoderByName(encName), rec, 0)
	for step, i := range order {
		h := hs[i]
		if kind == 0 {
			frame := mkReq(we, h.seq, h.up, h.text, h.body)
			in := rpc.VerifNewContext(0, nil, "", "")
			rpc.VerifSetData(in, frame)
			err := sc.ReadRequestHeader(in)
			if err != nil || in.Seq != h.seq || !bytes.Equal(in.Upgrade, h.up) || in.ServiceMethod != h.text || !bytes.Equal(rpc.VerifValue(in), h.body) {
				x.Fail("C07/sequence/request-decode/"+encLabel(encName), "frame %d of the order %v (seq %d, upgrade %x, method %q, %d argument bytes) decoded by a server codec that had decoded the frames before it: err=%v seq=%d upgrade=%x method=%q args=%d bytes", step, order, h.seq, h.up, h.text, len(h.body), err, in.Seq, in.Upgrade, in.ServiceMethod, len(rpc.VerifValue(in)))
			}
			// encode side: the client codec writes this request after the earlier ones
			n0 := len(rec.frames)
			body := h.body
			if err := cc.WriteRequest(rpc.VerifNewContext(h.seq, h.up, h.text, ""), &body); err != nil || len(rec.frames) != n0+1 {
				x.Fail("C07/sequence/request-encode/"+encLabel(encName), "WriteRequest of frame %d failed: %v", step, err)
			} else if got, derr := decodeMsg(we, 0, rec.frames[n0]); derr != nil || got.seq != h.seq || !bytes.Equal(got.up, h.up) || got.text != h.text || !bytes.Equal(got.body, h.body) {
				x.Fail("C07/sequence/request-encode/"+encLabel(encName), "frame %d of the order %v written by a client codec that had written the frames before it decodes to seq=%d upgrade=%x method=%q args=%d bytes (err %v), want seq=%d upgrade=%x method=%q args=%d bytes", step, order, got.seq, got.up, got.text, len(got.body), derr, h.seq, h.up, h.text, len(h.body))
			}
		} else {
			frame := mkRes(we, h.seq, h.text, h.body)
			in := rpc.VerifNewContext(0, nil, "", "")
			rpc.VerifSetData(in, frame)
			err := cc.ReadResponseHeader(in)
			if err != nil || in.Seq != h.seq || in.Error != h.text || !bytes.Equal(rpc.VerifValue(in), h.body) {
				x.Fail("C07/sequence/response-decode/"+encLabel(encName), "frame %d of the order %v (seq %d, error %q, %d reply bytes) decoded by a client codec that had decoded the frames before it: err=%v seq=%d error=%q reply=%d bytes", step, order, h.seq, h.text, len(h.body), err, in.Seq, in.Error, len(rpc.VerifValue(in)))
			}
			n0 := len(rec.frames)
			body := h.body
			if err := sc.WriteResponse(rpc.VerifNewContext(h.seq, nil, "", h.text), &body); err != nil || len(rec.frames) != n0+1 {
				x.Fail("C07/sequence/response-encode/"+encLabel(encName), "WriteResponse of frame %d failed: %v", step, err)
			} else if got, derr := decodeMsg(we, 1, rec.frames[n0]); derr != nil || got.seq != h.seq || got.text != h.text || !bytes.Equal(got.body, h.body) {
				x.Fail("C07/sequence/response-encode/"+encLabel(encName), "frame %d of the order %v written by a server codec that had written the frames before it decodes to seq=%d error=%q reply=%d bytes (err %v), want seq=%d error=%q reply=%d bytes", step, order, got.seq, got.text, len(got.body), derr, h.seq, h.text, len(h.body))
			}
		}
	}
	x.Outcome("kind=%d enc=%q order=%v", kind, encName, order)
}

func encLabel(n string) string {
	if n == "" {
		return "default-path"
	}
	return n
}

func init() {
	register(&Scenario{Prop: "C07", Name: "c07/frame-sequences", Quick: []Bound{{0, 0}}, Thorough: []Bound{{0, 0}}, Body: c07Sequences, MinHB: 1})
}

// whole frames written by the real client / server codecs with a body codec that marshals into
// the buffer it is given (the code / pb codecs do; BYTES hands back the caller's slice): the
// arguments / reply decode to what was encoded for every method-name length around and beyond 64
// bytes, every header encoder and several body sizes.
func c07WholeFrames(x *X) {
	encName := encNames[x.Choose(len(encNames))]
	kind := x.Choose(2)
	we := wireEncoder(encName)
	for _, ml := range []int{0, 1, 8, 57, 63, 64, 65, 66, 127, 128, 129, 309, 1000} {
		for _, bl := range []int{0, 1, 30, 200, 5000} {
			for _, seq := range []uint64{0, 1, 300, 70000} {
				rec := &recMsgs{}
				method := c07Text(ml, encName, 9)
				msg := &mCode{T: 7 + uint64(bl), D: c07Body(bl, 4)}
				if kind == 0 {
					cc := rpc.NewClientCodec(rpc.NewCODECodec(), encoderByName(encName), rec, 0)
					if err := cc.WriteRequest(rpc.VerifNewContext(seq, nil, method, ""), msg); err != nil || len(rec.frames) != 1 {
						x.Fail("C07/whole-frame/request/"+encLabel(encName), "WriteRequest (method name of %d bytes, %d argument bytes): %v", ml, bl, err)
						continue
					}
					got, derr := decodeMsg(we, 0, rec.frames[0])
					var back mCode
					_, uerr := back.Unmarshal(got.body)
					if derr != nil || uerr != nil || got.seq != seq || got.text != method || back.T != msg.T || !bytes.Equal(back.D, msg.D) {
						x.Fail("C07/whole-frame/request/"+encLabel(encName), "a request written by the client codec (method name of %d bytes, %d argument bytes, sequence number %d, body codec code) decodes to seq=%d, a method name of %d bytes (equal: %v), argument tag %d with %d bytes (want tag %d, %d bytes; header err %v, body err %v)", ml, bl, seq, got.seq, len(got.text), got.text == method, back.T, len(back.D), msg.T, len(msg.D), derr, uerr)
					}
				} else {
					sc := rpc.NewServerCodec(rpc.NewCODECodec(), encoderByName(encName), rec, true, 0)
					if err := sc.WriteResponse(rpc.VerifNewContext(seq, nil, "", ""), msg); err != nil || len(rec.frames) != 1 {
						x.Fail("C07/whole-frame/response/"+encLabel(encName), "WriteResponse (%d reply bytes): %v", bl, err)
						continue
					}
					got, derr := decodeMsg(we, 1, rec.frames[0])
					var back mCode
					_, uerr := back.Unmarshal(got.body)
					if derr != nil || uerr != nil || got.seq != seq || got.text != "" || back.T != msg.T || !bytes.Equal(back.D, msg.D) {
						x.Fail("C07/whole-frame/response/"+encLabel(encName), "a response written by the server codec (%d reply bytes, sequence number %d) decodes to seq=%d error=%q reply tag %d with %d bytes (header err %v, body err %v)", bl, seq, got.seq, got.text, back.T, len(back.D), derr, uerr)
					}
				}
			}
		}
	}
	x.Outcome("kind=%d enc=%q", kind, encName)
}

func init() {
	register(&Scenario{Prop: "C07", Name: "c07/whole-frames", Quick: []Bound{{0, 0}}, Thorough: []Bound{{0, 0}}, Body: c07WholeFrames, MinHB: 1})
}

// one header object (Encoder.NewRequest / NewResponse) used for a sequence of messages through
// its setters - with and without Reset in between - and marshalled by the encoder's codec each
// time: every encoding decodes to the fields set last, whatever the object held before (a cached
// size, a longer text, a present upgrade field).  The named encoders only: the built-in header has
// no header objects.
func c07ReusedObjects(x *X) {
	kind := x.Choose(2)
	encName := []string{"pb", "code", "json"}[x.Choose(3)]
	reset := x.Choose(2) == 1
	ps := perms(4)
	order := ps[x.Choose(len(ps))]
	long := c07Text(130, encName, 3)
	hs := []hdrCase{
		{kind: kind, seq: 300, up: []byte{0x28}, text: long, body: c07Body(200, 5)},
		{kind: kind, seq: 0},
		{kind: kind, seq: 1, text: "Svc.Echo", body: c07Body(12, 1)},
		{kind: kind, seq: 1 << 40, body: c07Body(70, 9)},
	}
	enc := wireEncoder(encName)
	codec := enc.NewCodec()
	var req rpc.Request
	var res rpc.Response
	if kind == 0 {
		req = enc.NewRequest()
	} else {
		res = enc.NewResponse()
		for i := range hs {
			hs[i].up = nil
		}
	}
	scratch := make([]byte, 0, 1024)
	for step, i := range order {
		h := hs[i]
		var msg interface{}
		if kind == 0 {
			if reset {
				req.Reset()
			}
			req.SetSeq(h.seq)
			req.SetUpgrade(h.up)
			req.SetServiceMethod(h.text)
			req.SetArgs(h.body)
			msg = req
		} else {
			if reset {
				res.Reset()
			}
			res.SetSeq(h.seq)
			res.SetError(h.text)
			res.SetReply(h.body)
			msg = res
		}
		var data []byte
		var err error
		func() {
			defer func() {
				if r := recover(); r != nil {
					err = fmt.Errorf("encoder panicked: %v", r)
				}
			}()
			data, err = codec.Marshal(scratch[:0], msg)
		}()
		if err != nil {
			x.Fail("C07/reused-object/encode/"+encName, "message %d of the order %v set on a header object that had carried the messages before it (Reset in between: %v): Marshal failed: %v", step, order, reset, err)
			break
		}
		got, derr := decodeMsg(enc, kind, append([]byte(nil), data...))
		if derr != nil || !sameHdr(got, h) {
			x.Fail("C07/reused-object/roundtrip/"+encName, "message %d of the order %v (seq %d, upgrade %x, %d text bytes, %d body bytes) set on a header object that had carried the messages before it (Reset in between: %v) decodes to seq %d, upgrade %x, %d text bytes, %d body bytes (err %v)", step, order, h.seq, h.up, len(h.text), len(h.body), reset, got.seq, got.up, len(got.text), len(got.body), derr)
			break
		}
	}
	x.Outcome("kind=%d enc=%q reset=%v order=%v", kind, encName, reset, order)
}

func init() {
	register(&Scenario{Prop: "C07", Name: "c07/reused-header-objects", Quick: []Bound{{0, 0}}, Thorough: []Bound{{0, 0}}, Body: c07ReusedObjects, MinHB: 1})
}

// the application has re-registered one of the built-in codec names ("json", "pb", "code") in the public
// registry of BODY codecs (legal: RegisterCodec is how a faster JSON library or an own message format is
// plugged in under Options.Codec).  The wire header of the header encoder of the same name is still the
// documented format, byte for byte, and a call through a connection that uses that header encoder works.
type appOnlyCodec struct{}

func (appOnlyCodec) Marshal(buf []byte, v interface{}) ([]byte, error) {
	if p, ok := v.(*[]byte); ok {
		return append([]byte("APP:"), *p...), nil
	}
	return nil, fmt.Errorf("not an application message")
}
func (appOnlyCodec) Unmarshal(data []byte, v interface{}) error {
	if p, ok := v.(*[]byte); ok && len(data) >= 4 {
		*p = data[4:]
		return nil
	}
	return fmt.Errorf("not an application message")
}

func c07Reregistered(x *X) {
	name := []string{"json", "pb", "code"}[x.Choose(3)]
	kind := x.Choose(2)
	orig := rpc.NewCodec(name)
	rpc.RegisterCodec(name, func() rpc.Codec { return appOnlyCodec{} })
	defer rpc.RegisterCodec(name, orig)
	prev := bytes.Repeat([]byte{0xAB}, 4000)
	for si, seq := range []uint64{0, 1, 300, 1 << 40} {
		for _, tl := range []int{0, 9, 300} {
			for _, bl := range []int{0, 20, 700} {
				h := hdrCase{kind: kind, seq: seq, up: nil, text: c07Text(tl, name, byte(si)), body: c07Body(bl, byte(si))}
				c07Check(x, name, h, 0, prev)
			}
		}
	}
	f := newFixture(srvOpts{bufSize: 64, enc: name}, cliOpts{bufSize: 64})
	c := newUcall(0x31, 0, 24, formCall)
	c.issue(f.conn)
	if c.err != nil || !eqBytes(c.reply, c.want()) {
		x.Fail("C07/call-fails-with-reregistered-codec-name", "the body codec name %q was re-registered by the application; a call over a connection with the header encoder %q (bytes body codec) returned %v", name, name, c.err)
	}
	x.Outcome("%s kind=%d", name, kind)
	f.conn.Close()
	vs.Quiesce()
}

func init() {
	register(&Scenario{Prop: "C07", Name: "c07/builtin-codec-name-reregistered", Quick: []Bound{{0, 0}}, Thorough: []Bound{{0, 0}}, Body: c07Reregistered, MinHB: 1})
}

// bodies of hundreds of megabytes: the five-byte forms of the length prefix (2^28 and beyond; 2^29+5 has bit 28
// clear and bit 29 set).  The length prefix right in front of the body is the varint of its length, and
// decode(encode(x)) has the whole body.  The contents are sampled (every 4093rd byte and both ends).  One
// execution at a time holds the buffers (a lock file serialises the worker processes).
var c07HugeSizes = []int{1<<28 - 1, 1 << 28, 1<<29 + 5}

func bigLock() func() {
	f, err := os.OpenFile(os.TempDir()+"/verif-mc-big.lock", os.O_CREATE|os.O_RDWR, 0666)
	if err != nil {
		return func() {}
	}
	syscall.Flock(int(f.Fd()), syscall.LOCK_EX)
	return func() {
		debug.FreeOSMemory()
		syscall.Flock(int(f.Fd()), syscall.LOCK_UN)
		f.Close()
	}
}

func c07Huge(sizes []int) func(x *X) {
	return func(x *X) {
		encName := []string{"pb", "code", ""}[x.Choose(3)]
		kind := x.Choose(2)
		size := sizes[x.Choose(len(sizes))]
		defer bigLock()()
		body := make([]byte, size)
		sample := func(b []byte, i int) byte { return b[i] }
		for i := 0; i < size; i += 4093 {
			body[i] = byte(i>>12) | 1
		}
		copy(body[size-8:], "TheEnd!!")
		enc := wireEncoder(encName)
		h := hdrCase{kind: kind, seq: 77, body: body}
		if kind == 0 {
			h.text = "Svc.Echo"
		}
		kindName := []string{"request", "response"}[kind]
		tag := encLabel(encName) + "/" + kindName
		var data []byte
		var err error
		func() {
			defer func() {
				if r := recover(); r != nil {
					err = fmt.Errorf("encoder panicked: %v", r)
				}
			}()
			data, err = enc.NewCodec().Marshal(nil, newMsg(enc, h))
		}()
		if err != nil || len(data) < size {
			x.Fail("C07/encode-error/"+tag, "encoding a %d-byte body failed: %v (%d bytes)", size, err, len(data))
			return
		}
		pre := data[:len(data)-size]
		if lp := uvarint(nil, uint64(size)); !bytes.HasSuffix(pre, lp) {
			tail := pre
			if len(tail) > 8 {
				tail = tail[len(tail)-8:]
			}
			x.Fail("C07/format/"+tag, "the length prefix in front of a %d-byte body is not its varint %x: the %d header bytes end with %x", size, lp, len(pre), tail)
		}
		got, derr := decodeMsg(enc, kind, data)
		if derr != nil || len(got.body) != size || got.seq != h.seq || got.text != h.text {
			x.Fail("C07/roundtrip/"+tag, "decode(encode(x)) != x for a %d-byte body: err=%v, got seq=%d text=%q and a %d-byte body", size, derr, got.seq, got.text, len(got.body))
		} else {
			for i := 0; i < size; i += 4093 {
				if sample(got.body, i) != sample(body, i) {
					x.Fail("C07/roundtrip/"+tag, "decode(encode(x)) of a %d-byte body differs at byte %d", size, i)
					break
				}
			}
			if string(got.body[size-8:]) != "TheEnd!!" {
				x.Fail("C07/roundtrip/"+tag, "decode(encode(x)) of a %d-byte body: the last bytes differ", size)
			}
		}
		x.Outcome("%s size=%d hdr=%d", tag, size, len(pre))
		data, body, got.body = nil, nil, nil
	}
}

func init() {
	register(&Scenario{Prop: "C07", Name: "c07/half-gigabyte-bodies", Quick: []Bound{{0, 0}}, Thorough: []Bound{{0, 0}}, Body: c07Huge(c07HugeSizes[1:]), MinHB: 1, BudgetQ: 120, BudgetT: 300})
}
