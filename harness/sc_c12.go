package main

import (
	"context"
	"encoding/hex"
	"errors"
	"fmt"

	"github.com/hslam/rpc"
	vs "verif/shim/vsync"
)

// C12 — options change performance, not results.
//
// Controlled part: the cross product header encoder x body codec (by registered name and by
// constructor, independently on each end) x server modes {poll, pipelining, direct I/O, context
// buffer, NoCopy} x client modes {direct I/O, pipelining, NoCopy} x buffer sizes around the
// messages, each running one fixed script (successes, handler error, unknown method, ping, a
// with-context handler, a stream exchange, a message larger than every buffer).  The transcript
// must be the one the script defines, in every configuration.

// ---- one message family per body codec interface (a single type cannot implement both Code and
// GoGoProtobuf: their Marshal methods differ)

type mJ struct {
	T int    `json:"t" xml:"t"`
	D string `json:"d" xml:"d"`
}

type mCode struct {
	T uint64
	D []byte
}

func (m *mCode) Marshal(buf []byte) ([]byte, error) {
	b := uvarint(buf[:0], m.T)
	b = uvarint(b, uint64(len(m.D)))
	return append(b, m.D...), nil
}
func readUvarint(b []byte) (uint64, int) {
	var v uint64
	for i := 0; i < len(b) && i < 10; i++ {
		v |= uint64(b[i]&0x7f) << (7 * uint(i))
		if b[i] < 0x80 {
			return v, i + 1
		}
	}
	return 0, -1
}
func decodeTD(b []byte) (t uint64, d []byte, n int, err error) {
	t, k := readUvarint(b)
	if k < 0 {
		return 0, nil, 0, errors.New("bad tag")
	}
	l, k2 := readUvarint(b[k:])
	if k2 < 0 || uint64(len(b)-k-k2) < l {
		return 0, nil, 0, errors.New("bad length")
	}
	d = append([]byte(nil), b[k+k2:k+k2+int(l)]...) // copies: does not alias the input
	return t, d, k + k2 + int(l), nil
}
func (m *mCode) Unmarshal(b []byte) (uint64, error) {
	// like types generated for hslam/code, the byte field is a sub-slice of the input
	t, k := readUvarint(b)
	if k < 0 {
		return 0, errors.New("bad tag")
	}
	l, k2 := readUvarint(b[k:])
	if k2 < 0 || uint64(len(b)-k-k2) < l {
		return 0, errors.New("bad length")
	}
	m.T, m.D = t, b[k+k2:k+k2+int(l)]
	return uint64(k + k2 + int(l)), nil
}

type mPB struct {
	T uint64
	D []byte
}

func (m *mPB) Size() int { return 22 + len(m.D) }
func (m *mPB) Marshal() ([]byte, error) {
	if m.T == 0 && len(m.D) == 0 {
		return nil, nil // like proto3: the zero value encodes to nothing
	}
	b := make([]byte, 0, m.Size())
	return append(uvarint(uvarint(b, m.T), uint64(len(m.D))), m.D...), nil
}
func (m *mPB) MarshalTo(buf []byte) (int, error) {
	if m.T == 0 && len(m.D) == 0 {
		return 0, nil
	}
	b := append(uvarint(uvarint(buf[:0], m.T), uint64(len(m.D))), m.D...)
	return len(b), nil
}
func (m *mPB) Unmarshal(b []byte) error {
	if len(b) == 0 {
		m.T, m.D = 0, nil
		return nil
	}
	t, d, _, err := decodeTD(b)
	m.T, m.D = t, d
	return err
}

type mMP struct {
	T uint64
	D []byte
}

func (m *mMP) MarshalMsg(buf []byte) ([]byte, error) {
	return append(uvarint(uvarint(buf[:0], m.T), uint64(len(m.D))), m.D...), nil
}
func (m *mMP) UnmarshalMsg(b []byte) ([]byte, error) {
	t, d, n, err := decodeTD(b)
	m.T, m.D = t, d
	if err != nil {
		return nil, err
	}
	return b[n:], nil
}

// family abstracts over the message types
type family struct {
	name   string
	method string
	newMsg func(t uint64, d []byte) interface{}
	get    func(m interface{}) (uint64, []byte)
	alias  bool // decoded values alias their input bytes
}

var famJ = family{"json/xml", "J", func(t uint64, d []byte) interface{} { return &mJ{T: int(t), D: hex.EncodeToString(d)} }, func(m interface{}) (uint64, []byte) {
	x := m.(*mJ)
	d, _ := hex.DecodeString(x.D)
	return uint64(x.T), d
}, false}
var famCode = family{"code", "Code", func(t uint64, d []byte) interface{} { return &mCode{t, d} }, func(m interface{}) (uint64, []byte) { x := m.(*mCode); return x.T, x.D }, true}
var famPB = family{"pb", "PB", func(t uint64, d []byte) interface{} { return &mPB{t, d} }, func(m interface{}) (uint64, []byte) { x := m.(*mPB); return x.T, x.D }, false}
var famMP = family{"msgp", "MP", func(t uint64, d []byte) interface{} { return &mMP{t, d} }, func(m interface{}) (uint64, []byte) { x := m.(*mMP); return x.T, x.D }, false}
var famBytes = family{"bytes", "B", func(t uint64, d []byte) interface{} { b := append([]byte{byte(t)}, d...); return &b }, func(m interface{}) (uint64, []byte) {
	b := *m.(*[]byte)
	if len(b) == 0 {
		return 0, nil
	}
	return uint64(b[0]), b[1:]
}, true}

// the service: one method set per family, same semantics
type C12 struct{ w *World }

func c12Do(w *World, t uint64, d []byte) (uint64, []byte, error) {
	w.execs[byte(t)]++
	if t == 13 {
		return 0, nil, errors.New("unlucky thirteen")
	}
	if t == 88 {
		vs.Block("c12 gate", func() bool { return w.gates[88] }) // a handler that waits for another connection's call
	}
	if t == 77 {
		return 0, nil, nil // a successful reply that is the zero value (encodes to nothing under pb / bytes)
	}
	out := make([]byte, len(d))
	for i := range d {
		out[i] = d[len(d)-1-i] ^ 0x5A
	}
	return t + 100, out, nil
}
func (s *C12) J(req *mJ, res *mJ) error {
	d, _ := hex.DecodeString(req.D)
	t, o, err := c12Do(s.w, uint64(req.T), d)
	res.T, res.D = int(t), hex.EncodeToString(o)
	return err
}
func (s *C12) Code(req *mCode, res *mCode) (err error) {
	res.T, res.D, err = c12Do(s.w, req.T, req.D)
	return
}
func (s *C12) PB(req *mPB, res *mPB) (err error) {
	res.T, res.D, err = c12Do(s.w, req.T, req.D)
	return
}
func (s *C12) MP(req *mMP, res *mMP) (err error) {
	res.T, res.D, err = c12Do(s.w, req.T, req.D)
	return
}
func (s *C12) B(req *[]byte, res *[]byte) error {
	b := *req
	var t uint64
	var d []byte
	if len(b) > 0 {
		t, d = uint64(b[0]), b[1:]
	}
	t2, o, err := c12Do(s.w, t, d)
	if t2 == 0 && len(o) == 0 {
		*res = []byte{}
		return err
	}
	*res = append([]byte{byte(t2)}, o...)
	return err
}

// with-context variants (the context buffer mode only matters for these)
func (s *C12) JCtx(ctx context.Context, req *mJ, res *mJ) error {
	defer rpc.FreeContextBuffer(ctx)
	return s.J(req, res)
}
func (s *C12) CodeCtx(ctx context.Context, req *mCode, res *mCode) error {
	defer rpc.FreeContextBuffer(ctx)
	return s.Code(req, res)
}
func (s *C12) PBCtx(ctx context.Context, req *mPB, res *mPB) error {
	defer rpc.FreeContextBuffer(ctx)
	return s.PB(req, res)
}
func (s *C12) MPCtx(ctx context.Context, req *mMP, res *mMP) error {
	defer rpc.FreeContextBuffer(ctx)
	return s.MP(req, res)
}
func (s *C12) BCtx(ctx context.Context, req *[]byte, res *[]byte) error {
	// the BYTES codec aliases the context buffer: copy before freeing it
	in := append([]byte(nil), *req...)
	rpc.FreeContextBuffer(ctx)
	return s.B(&in, res)
}

// stream handlers: echo (transformed) until the stream ends
type sJ struct{ st rpc.Stream }
type sCode struct{ st rpc.Stream }
type sPB struct{ st rpc.Stream }
type sMP struct{ st rpc.Stream }
type sB struct{ st rpc.Stream }

func (s *sJ) Connect(st rpc.Stream) error    { s.st = st; return nil }
func (s *sCode) Connect(st rpc.Stream) error { s.st = st; return nil }
func (s *sPB) Connect(st rpc.Stream) error   { s.st = st; return nil }
func (s *sMP) Connect(st rpc.Stream) error   { s.st = st; return nil }
func (s *sB) Connect(st rpc.Stream) error    { s.st = st; return nil }

func c12Echo(w *World, st rpc.Stream, f family) error {
	for {
		m := f.newMsg(0, nil)
		if err := st.ReadMessage(nil, m); err != nil {
			return err
		}
		t, d := f.get(m)
		t2, o, _ := c12Do(w, t, d)
		if err := st.WriteMessage(f.newMsg(t2, o)); err != nil {
			return err
		}
	}
}
func (s *C12) SJ(a *sJ) error       { return c12Echo(s.w, a.st, famJ) }
func (s *C12) SCode(a *sCode) error { return c12Echo(s.w, a.st, famCode) }
func (s *C12) SPB(a *sPB) error     { return c12Echo(s.w, a.st, famPB) }
func (s *C12) SMP(a *sMP) error     { return c12Echo(s.w, a.st, famMP) }
func (s *C12) SB(a *sB) error       { return c12Echo(s.w, a.st, famBytes) }

// body codec choices: (label, family, name for Options.Codec or "", constructor)
type codecChoice struct {
	label string
	fam   family
	name  string
	ctor  func() rpc.Codec
}

var c12Codecs = []codecChoice{
	{"json", famJ, "json", rpc.NewJSONCodec},
	{"code", famCode, "code", rpc.NewCODECodec},
	{"pb", famPB, "pb", rpc.NewPBCodec},
	{"bytes", famBytes, "", func() rpc.Codec { return &rpc.BYTESCodec{} }},
	{"xml", famJ, "", func() rpc.Codec { return &rpc.XMLCodec{} }},
	{"msgp", famMP, "", func() rpc.Codec { return &rpc.MSGPCodec{} }},
}

type c12Cfg struct {
	enc                                string
	cc                                 codecChoice
	srvByName, cliByName               bool // body codec / header encoder selected by registered name
	poll, pipe, dio, shared, srvNoCopy bool
	cliDio, cliPipe, cliNoCopy         bool
	buf                                int
	srvDecoy, cliDecoy                 bool // Options carry a name AND a different constructor: the name decides, on both ends
}

func (c c12Cfg) String() string {
	return fmt.Sprintf("enc=%q codec=%s names=%v/%v poll=%v pipe=%v dio=%v shared=%v nocopy=%v cli(dio=%v pipe=%v nocopy=%v) buf=%d", c.enc, c.cc.label, c.srvByName, c.cliByName, c.poll, c.pipe, c.dio, c.shared, c.srvNoCopy, c.cliDio, c.cliPipe, c.cliNoCopy, c.buf)
}

func (c c12Cfg) opts(n *FakeNet, byName bool, clientBuf int) *rpc.Options {
	return c.optsDecoy(n, byName, clientBuf, false)
}

func (c c12Cfg) optsDecoy(n *FakeNet, byName bool, clientBuf int, decoy bool) *rpc.Options {
	o := &rpc.Options{NewSocket: n.Socket, ClientBufferSize: clientBuf}
	if byName && c.cc.name != "" {
		o.Codec = c.cc.name
		if decoy {
			// what DefaultOptions() followed by opts.Codec = name leaves behind: a constructor for another codec
			o.NewCodec = func() rpc.Codec { return &rpc.XMLCodec{} }
			if c.cc.name == "json" {
				o.NewCodec = rpc.NewPBCodec
			}
		}
	} else {
		o.NewCodec = c.cc.ctor
	}
	if c.enc != "" {
		if byName {
			o.HeaderEncoder = c.enc
			if decoy {
				o.NewHeaderEncoder = func() rpc.Encoder {
					return encoderByName(map[string]string{"pb": "json", "code": "pb", "json": "code"}[c.enc])
				}
			}
		} else {
			enc := c.enc
			o.NewHeaderEncoder = func() rpc.Encoder { return encoderByName(enc) }
		}
	}
	return o
}

var c12BoundarySizes = []int{56, 124, 125, 126, 127, 128}

func boolOf(x *X) bool { return x.Choose(2) == 1 }

// the script and its expected transcript
func c12Run(x *X, c c12Cfg, concurrent bool) {
	n := newNet()
	w := newWorld()
	srv := rpc.NewServer()
	srv.SetLogLevel(rpc.OffLogLevel)
	srv.SetPoll(c.poll)
	srv.SetPipelining(c.pipe)
	srv.SetDirectIO(c.dio)
	srv.SetContextBuffer(c.shared)
	srv.SetNoCopy(c.srvNoCopy)
	srv.SetBufferSize(c.buf)
	srv.Register(&C12{w})
	vs.GoLib("Listen", func() { srv.ListenWithOptions("srv", c.optsDecoy(n, c.srvByName, 0, c.srvDecoy)) })
	vs.Quiesce()
	conn, err := rpc.DialWithOptions("srv", c.optsDecoy(n, c.cliByName, c.buf, c.cliDecoy))
	if err != nil {
		x.Fail("C12/dial-failed", "%v: %v", c, err)
		return
	}
	conn.SetBufferSize(c.buf)
	applySeqBase(conn)
	if c.cliDio {
		conn.SetDirectIO(true)
	}
	if c.cliPipe {
		conn.SetPipelining(true)
	}
	if c.cliNoCopy {
		conn.SetNoCopy(true)
	}
	f := c.cc.fam
	var got []string
	type keptReply struct {
		rep  interface{}
		t    uint64
		want []byte
	}
	var kept []keptReply
	call := func(method string, t uint64, size int) string {
		d := mkPayload(byte(t), 0, size)
		if size == 0 {
			d = nil // with tag 0: a request that is the zero value
		}
		rep := f.newMsg(0, nil)
		err := conn.Call("C12."+method, f.newMsg(t, d), rep)
		if err != nil {
			return "E:" + err.Error()
		}
		rt, rd := f.get(rep)
		want := make([]byte, len(d))
		for i := range d {
			want[i] = d[len(d)-1-i] ^ 0x5A
		}
		if rt != t+100 || !eqBytes(rd, want) {
			return fmt.Sprintf("WRONG(tag %d, %s)", rt, digest(rd))
		}
		kept = append(kept, keptReply{rep, t, want})
		return "ok"
	}
	big := 3*c.buf + 17
	if big > 200000 {
		big = 200000
	}
	if concurrent {
		got = append(got, call(f.method, 19, big)) // an earlier large exchange
		res := make([]string, 4)
		sizes := []int{c.buf - 10, c.buf - 2, big - 3, big} // frames just above the buffer size, and well above
		for i := 0; i < 4; i++ {
			i := i
			vs.GoNamed(fmt.Sprintf("caller%d", i), func() { res[i] = call(f.method, uint64(20+i), sizes[i]) })
		}
		vs.Quiesce()
		got = append(got, res...)
	} else {
		got = append(got, call(f.method, 1, 10))
		got = append(got, call(f.method, 13, 10))
		got = append(got, call("Nope", 2, 10))
		got = append(got, call(f.method+"Ctx", 3, 100))
		got = append(got, call(f.method+"Ctx", 6, big))
		if e := conn.Ping(); e != nil {
			got = append(got, "ping:"+e.Error())
		} else {
			got = append(got, "pong")
		}
		got = append(got, call(f.method, 4, big))
		// one stream exchange (skipped where NoCopy meets an aliasing codec: outside the supported envelope)
		if !(f.alias && (c.srvNoCopy || c.cliNoCopy)) {
			st, serr := conn.NewStream("C12.S" + f.method)
			if serr != nil {
				got = append(got, "stream:"+serr.Error())
			} else {
				sres := "stream-ok"
				for j := 0; j < 2; j++ {
					d := mkPayload(byte(30+j), 0, 20+j*c.buf/2)
					if e := st.WriteMessage(f.newMsg(uint64(30+j), d)); e != nil {
						sres = "stream-write:" + e.Error()
						break
					}
					rep := f.newMsg(0, nil)
					if e := st.ReadMessage(nil, rep); e != nil {
						sres = "stream-read:" + e.Error()
						break
					}
					rt, rd := f.get(rep)
					if rt != uint64(130+j) || len(rd) != len(d) || (len(d) > 0 && rd[0] != d[len(d)-1]^0x5A) {
						sres = fmt.Sprintf("stream-WRONG(%d,%d)", rt, len(rd))
					}
				}
				st.Close()
				got = append(got, sres)
			}
		} else {
			got = append(got, "stream-ok")
		}
		got = append(got, call(f.method, 5, 30))
		// a successful reply that is the zero value, and a request that is the zero value
		{
			rep := f.newMsg(9, []byte{1, 2, 3})
			zres := "ok"
			if err := conn.Call("C12."+f.method, f.newMsg(77, mkPayload(77, 0, 12)), rep); err != nil {
				zres = "E:" + err.Error()
			} else if rt, rd := f.get(rep); f.name != "json/xml" && (rt != 0 || len(rd) != 0) {
				// (JSON and XML leave absent fields of the reply object alone; the other families reset it)
				zres = fmt.Sprintf("WRONG(tag %d, %d bytes)", rt, len(rd))
			} else if f.name == "json/xml" && rt != 0 {
				zres = fmt.Sprintf("WRONG(tag %d)", rt)
			}
			got = append(got, zres)
		}
		got = append(got, call(f.method, 0, 0))
		// header fields (arguments, reply) of 125..131 bytes: one-byte / two-byte length boundary of the
		// pb and code header formats, for every body codec (JSON: 16+2*56 = 128 bytes with a 3-digit tag)
		for i, d := range c12BoundarySizes {
			got = append(got, call(f.method, uint64(110+i), d))
		}
		// two connections: a handler of the first waits until a call on the second has been served
		{
			conn2, err2 := rpc.DialWithOptions("srv", c.optsDecoy(n, c.cliByName, c.buf, c.cliDecoy))
			two := "ok"
			if err2 != nil {
				two = "dial:" + err2.Error()
			} else {
				held := ""
				heldDone := false
				vs.GoNamed("held-caller", func() { held = call(f.method, 88, 10); heldDone = true })
				vs.Quiesce()
				rep := f.newMsg(0, nil)
				d := mkPayload(89, 0, 14)
				var e2 error
				done2 := false
				vs.GoNamed("second-conn-caller", func() { e2 = conn2.Call("C12."+f.method, f.newMsg(89, d), rep); done2 = true })
				vs.Quiesce()
				if !done2 {
					two = "second-connection-blocked"
				} else if e2 != nil {
					two = "E:" + e2.Error()
				}
				w.gates[88] = true
				vs.Quiesce()
				if !heldDone || held != "ok" {
					two += "/held:" + held
				}
				conn2.Close()
			}
			got = append(got, two)
		}
	}
	// the replies are still what they were when the calls returned
	for _, k := range kept {
		rt, rd := f.get(k.rep)
		if rt != k.t+100 || !eqBytes(rd, k.want) {
			x.Fail("C12/reply-changed-later", "configuration {%v}: the reply of request %d changed after later traffic", c, k.t)
		}
	}
	want := []string{"ok", "E:unlucky thirteen", "E:can't find service C12.Nope", "ok", "ok", "pong", "ok", "stream-ok", "ok", "ok", "ok"}
	for range c12BoundarySizes {
		want = append(want, "ok")
	}
	want = append(want, "ok") // the two-connection step
	if concurrent {
		want = []string{"ok", "ok", "ok", "ok", "ok"}
	}
	if fmt.Sprint(got) != fmt.Sprint(want) {
		x.Fail("C12/transcript-differs", "configuration {%v}: transcript %v, expected %v", c, got, want)
	}
	execWant := map[byte]int{1: 1, 13: 1, 3: 1, 4: 1, 5: 1, 6: 1, 77: 1, 0: 1}
	for i := range c12BoundarySizes {
		execWant[byte(110+i)] = 1
	}
	execWant[88], execWant[89] = 1, 1
	if !(f.alias && (c.srvNoCopy || c.cliNoCopy)) {
		execWant[30], execWant[31] = 1, 1
	}
	if !concurrent {
		for t, k := range execWant {
			if w.execs[t] != k {
				x.Fail("C12/handler-executions", "configuration {%v}: request %d executed %d times", c, t, w.execs[t])
			}
		}
	}
	x.Case(fmt.Sprintf("%s/%s/%v%v/%v%v%v%v%v/%v%v%v/%d", c.enc, c.cc.label, c.srvByName, c.cliByName, c.poll, c.pipe, c.dio, c.shared, c.srvNoCopy, c.cliDio, c.cliPipe, c.cliNoCopy, c.buf))
	conn.Close()
	srv.Close()
	vs.Quiesce()
}

func c12Body(full bool, concurrent bool) func(x *X) { return c12BodyS(full, concurrent, false) }

func c12BodyS(full bool, concurrent bool, small bool) func(x *X) {
	return func(x *X) {
		var c c12Cfg
		if small {
			// a reduced matrix for the concurrent workload at d = 1: default and code headers, json/code/bytes codecs
			c.enc = []string{"", "code"}[x.Choose(2)]
			c.cc = c12Codecs[[]int{1, 3}[x.Choose(2)]]
		} else {
			c.enc = encNames[x.Choose(len(encNames))]
			c.cc = c12Codecs[x.Choose(len(c12Codecs))]
			c.srvByName, c.cliByName = boolOf(x), boolOf(x)
		}
		c.buf = []int{64, 1000, 4096, 65536}[x.Choose(4)]
		if small {
			switch x.Choose(4) {
			case 1:
				c.pipe = true
			case 2:
				c.dio = true
			case 3:
				c.pipe, c.dio = true, true
			}
			c.cliPipe = x.Choose(2) == 1
		} else if full {
			c.poll, c.pipe, c.dio, c.shared, c.srvNoCopy = boolOf(x), boolOf(x), boolOf(x), boolOf(x), boolOf(x)
			c.cliDio, c.cliPipe, c.cliNoCopy = boolOf(x), boolOf(x), boolOf(x)
		} else {
			// reduced product: one server-mode axis and one client-mode axis at a time
			switch x.Choose(7) {
			case 1:
				c.poll = true
			case 2:
				c.pipe = true
			case 3:
				c.dio = true
			case 4:
				c.shared = true
			case 5:
				c.srvNoCopy = true
			case 6:
				c.poll, c.pipe, c.dio, c.shared, c.srvNoCopy = true, true, true, true, true
			}
			switch x.Choose(5) {
			case 1:
				c.cliDio = true
			case 2:
				c.cliPipe = true
			case 3:
				c.cliNoCopy = true
			case 4:
				c.cliDio, c.cliPipe, c.cliNoCopy = true, true, true
			}
		}
		if c.cc.fam.alias && c.srvNoCopy {
			// NoCopy is only specified for codecs that do not alias argument bytes
			c.srvNoCopy = false
		}
		c12Run(x, c, concurrent)
		x.Outcome("ok")
	}
}

func init() {
	register(&Scenario{Prop: "C12", Name: "c12/matrix-reduced", Quick: []Bound{{0, 0}}, Thorough: []Bound{{0, 0}}, Body: c12Body(false, false), MinHB: 1, MaxSteps: 200000, BudgetQ: 50})
	register(&Scenario{Prop: "C12", Name: "c12/matrix-full", Quick: []Bound{}, Thorough: []Bound{{0, 0}}, Body: c12Body(true, false), MinHB: 1, MaxSteps: 200000, BudgetT: 500})
	register(&Scenario{Prop: "C12", Name: "c12/concurrent-reduced", Quick: []Bound{{0, 0}}, Thorough: []Bound{{1, 0}}, Body: c12Body(false, true), MinHB: 1, MaxSteps: 200000, BudgetQ: 20})
	register(&Scenario{Prop: "C12", Name: "c12/concurrent-small-matrix", Quick: []Bound{{1, 0}}, Thorough: []Bound{{2, 0}}, Body: c12BodyS(false, true, true), MinHB: 1, MaxSteps: 200000, BudgetQ: 40})
}

// Conn.SetBufferSize is an option like the others: whenever it is called — right after the
// connection was made, between calls, while a call is outstanding — the workload's outcome is
// the same.  Runs over the real socket.NewMessages framing, whose SetBufferedInput is what
// Conn.SetBufferSize ends up calling.
func c12SetBufferSize(x *X) {
	size := []int{16, 64, 1000}[x.Choose(3)]
	when := x.Choose(3)
	w := newWorld()
	ce, se := newBytePipe()
	so := srvOpts{bufSize: 64}
	srv := newServer(w, so)
	serveCodec(srv, framedIn(se), so)
	conn := rpc.NewConnWithCodec(rpc.NewClientCodec(bytesCodec(), nil, framedIn(ce), 64))
	var got []string
	call := func(tag byte, n int) {
		c := newUcall(tag, 0, n, formCall)
		c.issue(conn)
		switch {
		case c.err != nil:
			got = append(got, "E:"+c.err.Error())
		case !eqBytes(c.reply, c.want()):
			got = append(got, "WRONG")
		default:
			got = append(got, "ok")
		}
	}
	switch when {
	case 0:
		conn.SetBufferSize(size)
		call(1, 10)
	case 1:
		call(1, 10)
		conn.SetBufferSize(size)
	case 2:
		g := newUcall(1, fGate, 10, formCall)
		g.spawn(conn)
		vs.Quiesce()
		conn.SetBufferSize(size)
		w.open(1)
		vs.Quiesce()
		if !g.ret || g.err != nil || !eqBytes(g.reply, g.want()) {
			got = append(got, fmt.Sprintf("outstanding-call:%v/%v", g.ret, g.err))
		} else {
			got = append(got, "ok")
		}
	}
	for i, n := range []int{size - 9, size, 3*size + 17, 5} {
		if n < 2 {
			n = 2
		}
		call(byte(2+i), n)
	}
	if want := []string{"ok", "ok", "ok", "ok", "ok"}; fmt.Sprint(got) != fmt.Sprint(want) {
		x.Fail("C12/transcript-differs/set-buffer-size", "SetBufferSize(%d) called %s: transcript %v, expected %v", size, []string{"right after the connection was made", "after the first call", "while a call was outstanding"}[when], got, want)
	}
	x.Outcome("size=%d when=%d %v", size, when, got)
	conn.Close()
	vs.Quiesce()
}

func init() {
	register(&Scenario{Prop: "C12", Name: "c12/set-buffer-size-any-time", Quick: []Bound{{0, 0}, {1, 0}}, Thorough: []Bound{{2, 0}}, Body: c12SetBufferSize, BudgetQ: 15})
}

// connections that are not new: the script on a connection whose sequence numbers start at 254 /
// 16382 / 2^32-2 (crossing a varint length boundary during the script), for every header encoder
// x body codec, with and without poll / pipelining.
func c12HighSeq(x *X) {
	var c c12Cfg
	c.enc = encNames[x.Choose(len(encNames))]
	c.cc = c12Codecs[x.Choose(len(c12Codecs))]
	c.buf = 1000
	switch x.Choose(3) {
	case 1:
		c.poll = true
	case 2:
		c.pipe, c.cliPipe = true, true
	}
	c12Run(x, c, false)
	x.Outcome("ok")
}

func init() {
	register(&Scenario{Prop: "C12", Name: "c12/matrix-high-sequence-numbers", Quick: []Bound{{0, 0}}, Thorough: []Bound{{0, 0}}, Body: c12HighSeq, SeqBases: []uint64{254, 16382, 1<<32 - 2}, MinHB: 1, MaxSteps: 200000, BudgetQ: 20})
}

// Options that carry a registered name AND a constructor for something else (what
// DefaultOptions() followed by opts.Codec = "pb" produces): the name decides, for the body codec
// and for the header encoder, on the listening and on the dialling side alike.
func c12NameAndConstructor(x *X) {
	var c c12Cfg
	c.enc = []string{"pb", "code", "json"}[x.Choose(3)]
	c.cc = c12Codecs[x.Choose(3)] // the codecs that have registered names
	c.srvByName, c.cliByName = true, true
	switch x.Choose(3) {
	case 0:
		c.srvDecoy = true
	case 1:
		c.cliDecoy = true
	case 2:
		c.srvDecoy, c.cliDecoy = true, true
	}
	c.buf = 1000
	c12Run(x, c, false)
	x.Outcome("ok")
}

func init() {
	register(&Scenario{Prop: "C12", Name: "c12/options-name-and-constructor", Quick: []Bound{{0, 0}}, Thorough: []Bound{{0, 0}}, Body: c12NameAndConstructor, MinHB: 1, MaxSteps: 200000, BudgetQ: 15})
}

// one Server announced on two addresses with different Options (another header encoder and another
// body codec on the second): a client of either address, dialled after both listeners are up, with
// that address's Options, is understood - before and after a client of the other address has been
// served.
func c12TwoListeners(x *X) {
	var a, b c12Cfg
	ea := x.Choose(len(encNames))
	a.enc = encNames[ea]
	b.enc = encNames[(ea+1+x.Choose(len(encNames)-1))%len(encNames)]
	ca := x.Choose(len(c12Codecs))
	a.cc = c12Codecs[ca]
	b.cc = c12Codecs[(ca+1+x.Choose(len(c12Codecs)-1))%len(c12Codecs)]
	a.srvByName, a.cliByName, b.srvByName, b.cliByName = true, true, true, true
	order := x.Choose(2)
	n := newNet()
	w := newWorld()
	srv := rpc.NewServer()
	srv.SetLogLevel(rpc.OffLogLevel)
	srv.SetBufferSize(1000)
	srv.Register(&C12{w})
	vs.GoLib("ListenA", func() { srv.ListenWithOptions("srvA", a.opts(n, true, 0)) })
	vs.Quiesce()
	vs.GoLib("ListenB", func() { srv.ListenWithOptions("srvB", b.opts(n, true, 0)) })
	vs.Quiesce()
	use := func(addr string, c c12Cfg, t uint64) string {
		res := "hang"
		vs.GoNamed("client-"+addr, func() {
			conn, err := rpc.DialWithOptions(addr, c.opts(n, true, 1000))
			if err != nil {
				res = "dial:" + err.Error()
				return
			}
			f := c.cc.fam
			d := mkPayload(byte(t), 0, 40)
			rep := f.newMsg(0, nil)
			if err := conn.Call("C12."+f.method, f.newMsg(t, d), rep); err != nil {
				res = "E:" + err.Error()
			} else if rt, rd := f.get(rep); rt != t+100 || len(rd) != len(d) || rd[0] != d[len(d)-1]^0x5A {
				res = fmt.Sprintf("WRONG(tag %d, %d bytes)", rt, len(rd))
			} else {
				res = "ok"
			}
			conn.Close()
		})
		vs.Quiesce()
		return res
	}
	var got []string
	if order == 0 {
		got = append(got, use("srvA", a, 1), use("srvB", b, 2), use("srvA", a, 3))
	} else {
		got = append(got, use("srvB", b, 1), use("srvA", a, 2), use("srvB", b, 3))
	}
	for i, g := range got {
		if g != "ok" {
			x.Fail("C12/two-listeners-one-server", "one Server listens on srvA with (%q, %s) and on srvB with (%q, %s); client %d of the order %d got %q (all results %v)", a.enc, a.cc.label, b.enc, b.cc.label, i, order, g, got)
			break
		}
	}
	x.Outcome("%v", got)
	x.Case(fmt.Sprintf("two/%s/%s/%s/%s", a.enc, a.cc.label, b.enc, b.cc.label))
	srv.Close()
	vs.Quiesce()
}

func init() {
	register(&Scenario{Prop: "C12", Name: "c12/two-listeners-one-server", Quick: []Bound{{0, 0}}, Thorough: []Bound{{0, 0}}, Body: c12TwoListeners, MinHB: 1, MaxSteps: 200000, BudgetQ: 20})
	register(&Scenario{Prop: "C12", Name: "c12/error-texts-as-data", Quick: []Bound{{0, 0}}, Thorough: []Bound{{0, 0}}, Body: c06DataTextsBodyP("C12"), MaxSteps: 200000, BudgetQ: 15, MinHB: 1})
}

// two parties in one process each start from rpc.DefaultOptions() and customise their copy (another
// header encoder, another body codec): neither sees the other's settings - a connection made to the
// first server after the second party has set its options still works.
func c12DefaultOptionsTwice(x *X) {
	encB := []string{"json", "code", "pb"}[x.Choose(3)]
	n := newNet()
	w := newWorld()
	oa := rpc.DefaultOptions()
	oa.NewSocket = n.Socket
	oa.NewCodec = func() rpc.Codec { return &rpc.BYTESCodec{} }
	srvA := newServer(w, srvOpts{bufSize: 64})
	vs.GoLib("ListenA", func() { srvA.ListenWithOptions("A", oa) })
	vs.Quiesce()
	ob := rpc.DefaultOptions()
	if ob == oa {
		x.Fail("C12/default-options-shared", "two calls of DefaultOptions() returned the same *Options")
	}
	ob.NewSocket = n.Socket
	ob.HeaderEncoder = encB
	ob.NewCodec = func() rpc.Codec { return &rpc.BYTESCodec{} }
	srvB := newServer(w, srvOpts{bufSize: 64})
	vs.GoLib("ListenB", func() { srvB.ListenWithOptions("B", ob) })
	vs.Quiesce()
	use := func(addr string, o *rpc.Options, tag byte) string {
		res := "hang"
		vs.GoNamed("client-"+addr, func() {
			conn, err := rpc.DialWithOptions(addr, o)
			if err != nil {
				res = "dial:" + err.Error()
				return
			}
			c := newUcall(tag, 0, 20, formCall)
			c.issue(conn)
			if c.err != nil || !eqBytes(c.reply, c.want()) {
				res = "E:" + errStr(c.err)
			} else {
				res = "ok"
			}
			conn.Close()
		})
		vs.Quiesce()
		return res
	}
	got := []string{use("A", oa, 1), use("B", ob, 2), use("A", oa, 3)}
	for i, g := range got {
		if g != "ok" {
			x.Fail("C12/default-options-interfere", "server A was configured from DefaultOptions(), then server B from another DefaultOptions() with HeaderEncoder %q; client %d (A, B, A) got %q", encB, i, g)
			break
		}
	}
	if oa.HeaderEncoder != "" {
		x.Fail("C12/default-options-shared", "customising the second DefaultOptions() changed the first: HeaderEncoder is %q", oa.HeaderEncoder)
	}
	x.Outcome("encB=%s %v", encB, got)
	srvA.Close()
	srvB.Close()
	vs.Quiesce()
}

func init() {
	register(&Scenario{Prop: "C12", Name: "c12/default-options-twice", Quick: []Bound{{0, 0}}, Thorough: []Bound{{0, 0}}, Body: c12DefaultOptionsTwice, MinHB: 1, MaxSteps: 200000, BudgetQ: 10})
}
