package main

import (
	"bytes"
	"context"
	"errors"
	"fmt"
	"os"
	"reflect"
	"time"
	"unsafe"

	"github.com/hslam/rpc"
	"github.com/hslam/socket"
	vs "verif/shim/vsync"
	vt "verif/shim/vtime"
)

// ---- payloads (BYTES codec).  Layout: [tag, flags, fill...]; the fill is derived from tag so
// that any byte of a payload identifies the call it belongs to.

const (
	fGate   = 1 << 0 // handler waits for the gate of this tag
	fErr    = 1 << 1 // handler returns the error text registered for this tag
	fDouble = 1 << 2 // reply is twice as long as the request
	fYield  = 1 << 3 // handler yields twice (so that overlap is expressible)
)

func mkPayload(tag, flags byte, n int) []byte {
	if n < 2 {
		n = 2
	}
	b := make([]byte, n)
	for i := range b {
		b[i] = byte(i*7+3) ^ tag
	}
	b[0], b[1] = tag, flags
	return b
}

// transform is the function every Echo handler computes.
func transform(args []byte) []byte {
	n := len(args)
	if n >= 2 && args[1]&fDouble != 0 {
		n *= 2
	}
	out := make([]byte, n)
	for i := range out {
		out[i] = args[(len(args)-1-i%len(args))] ^ 0x5A
	}
	return out
}

// World is the per-execution state shared by handlers and oracles.
type World struct {
	execs      map[byte]int
	seenArgs   map[byte][]byte
	gates      map[byte]bool
	errText    map[byte]string
	startSeq   []byte
	endSeq     []byte
	active     int
	overlap    int
	kept       [][]byte // argument slices retained by handlers (C11)
	keptSum    []string
	handlerIn  int
	streamsIn  int // stream handlers entered
	streamsEx  int // stream handlers returned
	pushN      int // messages a stream handler pushes before echoing
	streamLog  map[byte][]string
	keep       bool              // handlers retain their argument slices
	streamEnd  [][3]string       // per ended handler: error of the blocked read, of a later write, of a later read
	badPush    bool              // the Push handler first writes a message the body codec refuses
	badPushErr string            // what that write returned
	ran        map[byte][]string // per request tag: the methods that were invoked for it
	streamHold bool              // the Push handler waits (after each received message) until this is cleared
	plainSeen  []string          // what Svc.Plain was invoked with (length and first bytes), in order
	delay      time.Duration     // virtual time every handler invocation takes
	duplexPush []string          // what the pushes of the Duplex handler's second goroutine returned
}

func newWorld() *World {
	return &World{execs: map[byte]int{}, seenArgs: map[byte][]byte{}, gates: map[byte]bool{}, errText: map[byte]string{}, streamLog: map[byte][]string{}}
}

// Svc is the registered test service.
type Svc struct{ w *World }

// Echo has the classic (args, *reply) error shape.
func (s *Svc) Echo(req *[]byte, res *[]byte) error {
	s.w.ranAs(*req, "Echo")
	return s.w.handle(*req, res)
}

// Eco1, Eco2: two more methods whose names have the same length as Echo's.
func (s *Svc) Eco1(req *[]byte, res *[]byte) error {
	s.w.ranAs(*req, "Eco1")
	return s.w.handle(*req, res)
}

func (s *Svc) Eco2(req *[]byte, res *[]byte) error {
	s.w.ranAs(*req, "Eco2")
	return s.w.handle(*req, res)
}

// Plain ignores the flag byte (used where the payload itself is corrupted on purpose).
func (s *Svc) Plain(req *[]byte, res *[]byte) error {
	in := *req
	s.w.plainSeen = append(s.w.plainSeen, fmt.Sprintf("%d:%x", len(in), clipBytes(in, 16)))
	if len(in) > 0 {
		s.w.execs[in[0]]++
	}
	out := make([]byte, len(in))
	for i := range in {
		out[i] = in[len(in)-1-i] ^ 0x5A
	}
	*res = out
	return nil
}

// EchoWithAVeryLongMethodNameThatFillsAWholeSixtyFourByteBufferXYZ: "Svc." + this name is 64
// bytes long, the size of the buffers most scenarios use.
func (s *Svc) EchoWithAVeryLongMethodNameThatFillsAWholeSixtyFourByteBufferXYZ(req *[]byte, res *[]byte) error {
	s.w.ranAs(*req, "EchoWithAVeryLongMethodNameThatFillsAWholeSixtyFourByteBufferXYZ")
	return s.w.handle(*req, res)
}

const longMethod = "Svc.EchoWithAVeryLongMethodNameThatFillsAWholeSixtyFourByteBufferXYZ"

// EchoCtx has the with-context shape.
func (s *Svc) EchoCtx(ctx context.Context, req *[]byte, res *[]byte) error {
	s.w.ranAs(*req, "EchoCtx")
	return s.w.handle(*req, res)
}

// EchoOut has the return-out shape.
func (s *Svc) EchoOut(req *[]byte) (*[]byte, error) {
	s.w.ranAs(*req, "EchoOut")
	var res []byte
	err := s.w.handle(*req, &res)
	if err != nil {
		return nil, err
	}
	return &res, nil
}

func (w *World) handle(in []byte, res *[]byte) error {
	if len(in) < 2 {
		return errors.New("short request")
	}
	tag, flags := in[0], in[1]
	w.execs[tag]++
	w.seenArgs[tag] = append([]byte(nil), in...)
	if w.keep {
		w.kept = append(w.kept, in)
		w.keptSum = append(w.keptSum, digest(in))
	}
	w.startSeq = append(w.startSeq, tag)
	w.active++
	if w.active > 1 {
		w.overlap++
	}
	if flags&fGate != 0 {
		vs.Block(fmt.Sprintf("gate %d", tag), func() bool { return w.gates[tag] })
	}
	if w.delay > 0 {
		vt.Sleep(w.delay)
	}
	if flags&fYield != 0 {
		vs.Yield()
		vs.Yield()
	}
	w.active--
	w.endSeq = append(w.endSeq, tag)
	if flags&fErr != 0 {
		return errors.New(w.errText[tag])
	}
	*res = transform(in)
	return nil
}

func (w *World) open(tag byte) { w.gates[tag] = true }

// ranAs records which registered method was invoked for the request with this tag.
func (w *World) ranAs(in []byte, method string) {
	if len(in) > 0 {
		if w.ran == nil {
			w.ran = map[byte][]string{}
		}
		w.ran[in[0]] = append(w.ran[in[0]], method)
	}
}

// ---- JSON service (Arith) for scenarios that want a structured codec

type Req struct{ A, B int32 }
type Res struct{ Pro int32 }
type Arith struct{ w *World }

func (a *Arith) Mul(req *Req, res *Res) error {
	a.w.execs[byte(req.A)]++
	if req.A == 13 {
		return errors.New("unlucky")
	}
	res.Pro = req.A * req.B
	return nil
}

// ---- harness-owned context

type hctx struct {
	done  chan struct{}
	err   error
	buf   []byte
	inner context.Context         // optional: a real context whose values (its cancellation cause, ...) are visible through this one
	cause context.CancelCauseFunc // cancels inner
}

// newCtxCause: a context that will be cancelled with a cause (context.WithCancelCause): Err() is still
// context.Canceled, context.Cause() is the cause.
func newCtxCause(buf []byte) *hctx {
	inner, cf := context.WithCancelCause(context.Background())
	return &hctx{done: make(chan struct{}), buf: buf, inner: inner, cause: cf}
}

// cancelCause ends the context the way a caller of WithCancelCause / WithTimeoutCause does.
func (c *hctx) cancelCause(err, cause error) {
	if c.err == nil {
		if c.cause != nil {
			c.cause(cause)
		}
		c.err = err
		vs.Close(c.done)
	}
}

func newCtx(buf []byte) *hctx { return &hctx{done: make(chan struct{}), buf: buf} }

func (c *hctx) Deadline() (time.Time, bool) { return time.Time{}, false }
func (c *hctx) Done() <-chan struct{}       { return c.done }
func (c *hctx) Err() error                  { return c.err }
func (c *hctx) Value(k interface{}) interface{} {
	if k == rpc.BufferContextKey && c.buf != nil {
		return c.buf
	}
	if c.inner != nil {
		return c.inner.Value(k)
	}
	return nil
}
func (c *hctx) cancel(err error) {
	if c.err == nil {
		c.err = err
		vs.Close(c.done)
	}
}

// ---- construction helpers

func bytesCodec() rpc.Codec { return &rpc.BYTESCodec{} }

func encoderByName(n string) rpc.Encoder {
	switch n {
	case "yield-pb":
		return yieldEncoder{rpc.NewPBEncoder()}
	case "yield-code":
		return yieldEncoder{rpc.NewCODEEncoder()}
	case "pb":
		return rpc.NewPBEncoder()
	case "code":
		return rpc.NewCODEEncoder()
	case "json":
		return rpc.NewJSONEncoder()
	}
	return nil // built-in default path
}

// wireEncoder is the encoder that produces the bytes of the named header format ("" = default = pb).
func wireEncoder(n string) rpc.Encoder {
	if n == "" || n == "default" || n == "yield-pb" {
		return rpc.NewPBEncoder()
	}
	if n == "yield-code" {
		return rpc.NewCODEEncoder()
	}
	return encoderByName(n)
}

var encNames = []string{"", "pb", "code", "json"}

type srvOpts struct {
	pipelining, directIO, noCopy, shared bool
	bufSize                              int
	enc                                  string
	codec                                func() rpc.Codec
}

func newServer(w *World, o srvOpts) *rpc.Server {
	s := rpc.NewServer()
	s.SetLogLevel(rpc.OffLogLevel)
	s.SetPipelining(o.pipelining)
	s.SetDirectIO(o.directIO)
	s.SetNoCopy(o.noCopy)
	s.SetContextBuffer(o.shared)
	if o.bufSize > 0 {
		s.SetBufferSize(o.bufSize)
	}
	s.Register(&Svc{w})
	s.Register(&Arith{w})
	s.Register(&StreamSvc{w})
	s.Register(&Blob{w})
	return s
}

// serveCodec starts Server.ServeCodec on the B end of a pipe.
func serveCodec(s *rpc.Server, sv socket.Messages, o srvOpts) {
	codec := o.codec
	if codec == nil {
		codec = bytesCodec
	}
	vs.GoLib("ServeCodec", func() {
		s.ServeCodec(rpc.NewServerCodec(codec(), encoderByName(o.enc), sv, o.directIO, o.bufSize))
	})
}

func newConn(cl socket.Messages, enc string, bufSize int, codec func() rpc.Codec) *rpc.Conn {
	if codec == nil {
		codec = bytesCodec
	}
	c := rpc.NewConnWithCodec(rpc.NewClientCodec(codec(), encoderByName(enc), cl, bufSize))
	if bufSize > 0 {
		c.SetBufferSize(bufSize)
	}
	applySeqBase(c)
	return c
}

// seqBase, when non-zero, is where the sequence numbers of connections created by the harness
// start: a connection that has already made that many calls (the varint encodings of the sequence
// number grow at 128, 16384, 2097152; see the "-high-seq" scenario variants).
var seqBase uint64

// applySeqBase sets the private sequence counter of a fresh connection (no call has been made yet).
func applySeqBase(c *rpc.Conn) bool {
	if seqBase == 0 || c == nil {
		return true
	}
	ok := false
	func() {
		defer func() { recover() }()
		f := reflect.ValueOf(c).Elem().FieldByName("seq")
		if f.IsValid() && f.Kind() == reflect.Uint64 {
			*(*uint64)(unsafe.Pointer(f.UnsafeAddr())) = seqBase
			ok = true
			if os.Getenv("VERIF_DEBUG_SEQ") != "" {
				fmt.Fprintln(os.Stderr, "seq base applied:", seqBase, f.Uint())
			}
		}
	}()
	if !ok {
		vs.Fatal("the connection's sequence counter (field seq) was not found: high-sequence-number variants cannot run")
	}
	return ok
}

// recvCall receives from a Done channel under the scheduler.
func recvCall(ch chan *rpc.Call) *rpc.Call {
	vs.WaitRecv(ch)
	return <-ch
}

// ---- raw frames (scripted peers)

func mkReq(enc rpc.Encoder, seq uint64, up []byte, method string, args []byte) []byte {
	r := enc.NewRequest()
	r.SetSeq(seq)
	r.SetUpgrade(up)
	r.SetServiceMethod(method)
	r.SetArgs(args)
	b, err := enc.NewCodec().Marshal(nil, r)
	if err != nil {
		panic(err)
	}
	return append([]byte(nil), b...)
}

func mkRes(enc rpc.Encoder, seq uint64, errText string, reply []byte) []byte {
	r := enc.NewResponse()
	r.SetSeq(seq)
	r.SetError(errText)
	r.SetReply(reply)
	b, err := enc.NewCodec().Marshal(nil, r)
	if err != nil {
		panic(err)
	}
	return append([]byte(nil), b...)
}

type rawReq struct {
	Seq     uint64
	Upgrade []byte
	Method  string
	Args    []byte
}

func decodeReq(enc rpc.Encoder, m []byte) (r rawReq, ok bool) {
	defer func() {
		if recover() != nil {
			ok = false
		}
	}()
	q := enc.NewRequest()
	if err := enc.NewCodec().Unmarshal(m, q); err != nil {
		return r, false
	}
	return rawReq{Seq: q.GetSeq(), Upgrade: append([]byte(nil), q.GetUpgrade()...), Method: string(append([]byte(nil), q.GetServiceMethod()...)), Args: append([]byte(nil), q.GetArgs()...)}, true
}

type rawRes struct {
	Seq   uint64
	Error string
	Reply []byte
}

func decodeRes(enc rpc.Encoder, m []byte) (r rawRes, ok bool) {
	defer func() {
		if recover() != nil {
			ok = false
		}
	}()
	q := enc.NewResponse()
	if err := enc.NewCodec().Unmarshal(m, q); err != nil {
		return r, false
	}
	return rawRes{Seq: q.GetSeq(), Error: string(append([]byte(nil), q.GetError()...)), Reply: append([]byte(nil), q.GetReply()...)}, true
}

// ---- census helpers

// blockedLib lists library threads that are neither done nor parked in the environment.
func blockedThreads(accept func(t vs.ThreadInfo) bool) []string {
	var out []string
	for _, t := range vs.Census() {
		if t.State == "done" || t.ID == vs.Self() {
			continue
		}
		if accept != nil && accept(t) {
			continue
		}
		out = append(out, fmt.Sprintf("T%d(%s) %s on %q", t.ID, t.Name, t.State, t.What))
	}
	return out
}

func isEnvWait(t vs.ThreadInfo) bool {
	return len(t.What) >= 4 && t.What[:4] == "env:"
}

func eqBytes(a, b []byte) bool { return bytes.Equal(a, b) }

func errStr(err error) string {
	if err == nil {
		return "nil"
	}
	return err.Error()
}

func clipBytes(b []byte, n int) []byte {
	if len(b) > n {
		return b[:n]
	}
	return b
}
