package main

import (
	"fmt"
	"io"

	"github.com/hslam/rpc"
	vs "verif/shim/vsync"
)

// C03 — connection loss fails calls fast; nobody hangs.
//
// Outstanding at the moment of the cut: a gated call, a plain call, a ping and a stream with a
// blocked reader.  Crash points: the link dies after / instead of the k-th frame of either
// direction (every k of the conversation), a reset, a local Close or a Server.Close racing with
// the traffic.

const (
	cutNone = iota
	cutAfterC2S
	cutDropC2S
	cutAfterS2C
	cutDropS2C
	cutLocalClose
	cutReset
	cutServerClose
	nCutKinds
)

var cutNames = []string{"none", "after-c2s", "drop-c2s", "after-s2c", "drop-s2c", "local-close", "reset", "server-close"}

func c03Body(modes []sysMode, maxK int) func(x *X) { return c03BodyP("C03", modes, maxK) }

// c03BodyP: the same body judged under another property (the keys carry its name; see the registrations)
func c03BodyP(kp string, modes []sysMode, maxK int) func(x *X) {
	return func(x *X) {
		mode := modes[x.Choose(len(modes))]
		kind := x.Choose(nCutKinds)
		k := 0
		if kind >= cutAfterC2S && kind <= cutDropS2C {
			k = 1 + x.Choose(maxK)
		}
		if kind == cutServerClose && !mode.listen {
			kind = cutLocalClose
		}
		cliPipe := x.Choose(2) == 1
		s := newSys(mode, srvOpts{bufSize: 64}, cliOpts{bufSize: 64, pipelining: cliPipe})
		p := s.cl.p
		s.cl.WriteFaults = 0 // any client write may fail (fault budget)
		switch kind {
		case cutAfterC2S:
			p.cutAfter[0] = k
		case cutDropC2S:
			p.cutDrop[0] = k
		case cutAfterS2C:
			p.cutAfter[1] = k
		case cutDropS2C:
			p.cutDrop[1] = k
		}
		gated := newUcall(1, fGate, 30, formCall)
		plain := newUcall(2, 0, 150, formGo)
		ping := newUcall(3, 0, 0, formPing)
		var st rpc.Stream
		var stErr, rdErr error
		stDone, rdDone := false, false
		vs.GoNamed("streamer", func() {
			st, stErr = s.conn.NewStream("StreamSvc.Push")
			stDone = true
			if stErr == nil {
				// a stream write (it may fail: fault alternative) before the reader blocks
				m := streamMsg(0x31, 0)
				st.WriteMessage(&m)
				var b []byte
				rdErr = st.ReadMessage(nil, &b)
				if rdErr == nil {
					rdErr = st.ReadMessage(nil, &b)
				}
				rdDone = true
			}
		})
		gated.spawn(s.conn)
		plain.spawn(s.conn)
		ping.spawn(s.conn)
		switch kind {
		case cutLocalClose:
			vs.GoNamed("closer", func() { s.conn.Close() })
		case cutReset:
			vs.GoNamed("resetter", func() { s.cl.Reset() })
		case cutServerClose:
			vs.GoNamed("srvcloser", func() { s.srv.Close() })
		}
		vs.Quiesce()
		s.w.open(1)
		vs.Quiesce()
		ended := p.dead || p.reset || p.closed[0] || p.closed[1]
		label := cutNames[kind]
		out := fmt.Sprintf("%s %s k=%d ended=%v", mode.name, label, k, ended)
		okErr := func(err error) bool {
			return err == rpc.ErrShutdown || err == io.EOF || err == errBrokenPipe || err == errInjectedWrite || (err == errReadIO && kind == cutReset)
		}
		for _, c := range []*ucall{gated, plain, ping} {
			switch {
			case !c.ret:
				x.Fail(kp+"/caller-hangs/"+label, "call %d (%s) never returned after the connection ended (%s, k=%d, mode %s)", c.tag, formNames[c.form], label, k, mode.name)
				out += fmt.Sprintf(" %d:HANG", c.tag)
			case c.err == nil:
				if c.form != formPing && !eqBytes(c.reply, c.want()) {
					x.Fail(kp+"/wrong-reply-after-cut", "call %d succeeded with a wrong reply %x", c.tag, c.reply)
				}
				out += fmt.Sprintf(" %d:ok", c.tag)
			default:
				if !ended && c.err == errInjectedWrite {
					// the injected write failure of this very call
				} else if !ended {
					x.Fail(kp+"/error-without-loss", "call %d failed with %v although the connection was never cut", c.tag, c.err)
				} else if !okErr(c.err) {
					x.Fail(kp+"/unexpected-error/"+label, "call %d failed with %q; want ErrShutdown (or the error of its own failed write)", c.tag, c.err.Error())
				}
				out += fmt.Sprintf(" %d:%s", c.tag, errStr(c.err))
			}
		}
		if !stDone {
			x.Fail(kp+"/newstream-hangs/"+label, "NewStream never returned (%s, k=%d)", label, k)
		} else if stErr == nil {
			if ended && !rdDone {
				x.Fail(kp+"/stream-reader-hangs/"+label, "a ReadMessage blocked on a stream is still blocked after the connection ended (%s, k=%d)", label, k)
			} else if rdDone && rdErr != rpc.ErrStreamShutdown && rdErr != rpc.ErrShutdown {
				// (a message that was received just before the loss may be delivered together with ErrShutdown)
				x.Fail(kp+"/stream-reader-error", "the blocked stream ReadMessage returned %v", rdErr)
			}
		}
		out += fmt.Sprintf(" stream:%s/%v", errStr(stErr), rdDone)
		// a call started afterwards
		late := newUcall(9, 0, 20, formCall)
		late.spawn(s.conn)
		vs.Quiesce()
		endedNow := p.dead || p.reset || p.closed[0] || p.closed[1]
		switch {
		case !late.ret:
			x.Fail(kp+"/late-call-hangs/"+label, "a call started after the connection ended blocks")
		case ended && late.err != rpc.ErrShutdown:
			x.Fail(kp+"/late-call-error/"+label, "a call started after the connection ended returned %v, want ErrShutdown", late.err)
		case !ended && endedNow && late.err != nil && !okErr(late.err):
			// the cut hit this very call
			x.Fail(kp+"/unexpected-error/"+label, "the call during which the link was cut failed with %q", late.err.Error())
		case late.err == errInjectedWrite:
			// the injected write failure of this very call
		case !endedNow && (late.err != nil || !eqBytes(late.reply, late.want())):
			x.Fail(kp+"/late-call-failed-without-loss", "connection intact but a later call returned %v", late.err)
		case late.err == nil && !eqBytes(late.reply, late.want()):
			x.Fail(kp+"/wrong-reply-after-cut", "late call succeeded with a wrong reply")
		}
		out += " late:" + errStr(late.err)
		x.Outcome("%s", out)
		s.finish()
	}
}

func init() {
	register(&Scenario{Prop: "C03", Name: "c03/cuts-servecodec", Quick: []Bound{{1, 1}, {2, 0}}, Thorough: []Bound{{3, 0}}, Body: c03Body(sysModes[:1], 5), BudgetQ: 45})
	register(&Scenario{Prop: "C03", Name: "c03/cuts-listen-poll", Quick: []Bound{{0, 1}, {1, 0}}, Thorough: []Bound{{2, 0}, {3, 0}}, Body: c03Body(sysModes[1:], 5)})
}

var _ = fmt.Sprint

func init() {
	// the same closed system with a scheduling point after every lock release: the plain reads and
	// writes a thread does right after leaving a critical section interleave with the other threads
	register(&Scenario{Prop: "C03", Name: "c03/cuts-servecodec-unlock-points", Quick: []Bound{{1, 0}}, Thorough: []Bound{{2, 0}}, Body: c03Body(sysModes[:1], 5), UnlockPoints: true, BudgetQ: 30})
}

// Transport.Close against in-flight use of a Transport: callers that are dialling, waiting for
// a dial, or waiting for a response when Close runs all return (with a result or an error); so
// does Close.  Two or three callers of one host (and one of another), every call form.
func c03TransportClose(x *X) {
	lim := [][2]int{{1, 1}, {2, 2}}[x.Choose(2)]
	pre := x.Choose(2) == 1 // a connection already exists
	gated := x.Choose(2) == 1
	t := newTrSys(x, "C03", lim[0], lim[1])
	if pre {
		t.call("a", formCall)
	}
	type rc struct {
		c   *ucall
		ret bool
		err error
	}
	var rs []*rc
	for i := 0; i < 3; i++ {
		flags := byte(0)
		if gated && i == 0 {
			flags = fGate
		}
		r := &rc{c: newUcall(byte(0x50+i), flags, 20, formCall)}
		rs = append(rs, r)
		addr := "a"
		if i == 2 {
			addr = "b"
		}
		form := []int{formCall, formGo, formPing}[i]
		vs.GoNamed(fmt.Sprintf("racer%d", i), func() {
			switch form {
			case formGo:
				done := make(chan *rpc.Call, 1)
				call := t.tr.Go(addr, r.c.method, &r.c.args, &r.c.reply, done)
				recvCall(done)
				r.err = call.Error
			case formPing:
				r.err = t.tr.Ping(addr)
			default:
				r.err = t.tr.Call(addr, r.c.method, &r.c.args, &r.c.reply)
			}
			r.ret = true
		})
	}
	closed := false
	vs.GoNamed("closer", func() { t.tr.Close(); closed = true })
	vs.Quiesce()
	t.w["a"].open(0x50)
	vs.Quiesce()
	if !closed {
		x.Fail("C03/transport-close-hangs", "Transport.Close did not return")
	}
	out := ""
	for i, r := range rs {
		if !r.ret {
			x.Fail("C03/caller-hangs/transport-close", "caller %d of a Transport that was closed while it was in use never returned (limits %v, a connection existed before: %v)", i, lim, pre)
		}
		out += fmt.Sprintf(" %v/%s", r.ret, errStr(r.err))
	}
	x.Outcome("lim=%v pre=%v gated=%v%s", lim, pre, gated, out)
	for _, a := range []string{"a", "b"} {
		if t.up[a] {
			t.srv[a].Close()
		}
	}
	vs.Quiesce()
}

func init() {
	register(&Scenario{Prop: "C03", Name: "c03/transport-close-in-use", Quick: []Bound{{1, 0}}, Thorough: []Bound{{2, 0}}, Body: c03TransportClose, MaxSteps: 200000, BudgetQ: 25})
}

func init() {
	// the same conversation judged for C02 (every call completes: none is left hanging by the teardown) and
	// for C10 (the stream's blocked reader and later stream operations return)
	register(&Scenario{Prop: "C02", Name: "c02/calls-and-stream-across-connection-loss", Quick: []Bound{{1, 0}}, Thorough: []Bound{{2, 0}}, Body: c03BodyP("C02", sysModes[:1], 5), OnlyKeys: []string{"C02/caller-hangs", "C02/late-call-hangs", "panic/", "hang/", "livelock/"}, BudgetQ: 25})
	register(&Scenario{Prop: "C10", Name: "c10/stream-across-connection-loss", Quick: []Bound{{1, 0}}, Thorough: []Bound{{2, 0}}, Body: c03BodyP("C10", sysModes[:1], 5), OnlyKeys: []string{"C10/stream-reader-hangs", "C10/newstream-hangs", "C10/late-call-hangs", "panic/", "hang/", "livelock/"}, BudgetQ: 25})
}

// a peer that has stopped reading: request writes pile up and block (back-pressure).  Conn.Close
// still returns, every outstanding call - written, being written, waiting to be written - fails,
// and a call started afterwards fails at once with ErrShutdown.  Also with client pipelining and
// when the connection is ended by the peer's socket dying instead of a local Close.
func c03BlockedWrites(x *X) {
	pipelined := x.Choose(2) == 1
	end := x.Choose(2) // local Close / the link dies
	ncall := 2 + x.Choose(2)
	w := newWorld()
	_ = w
	cl, _ := NewPipe() // nobody ever reads the other end
	cl.p.capacity = 1
	conn := newConn(cl, "", 64, nil)
	if pipelined {
		conn.SetPipelining(true)
	}
	var calls []*ucall
	for i := 0; i < ncall; i++ {
		c := newUcall(byte(i+1), 0, 20+i, []int{formCall, formGo, formCallCtx}[i%3])
		calls = append(calls, c)
		c.spawn(conn)
	}
	vs.Quiesce()
	closed := false
	var cerr error
	if end == 0 {
		vs.GoNamed("closer", func() { cerr = conn.Close(); closed = true })
	} else {
		cl.Kill()
	}
	vs.Quiesce()
	if end == 0 && !closed {
		x.Fail("C03/close-hangs/blocked-writes", "Conn.Close does not return while request writes are blocked by a peer that has stopped reading (%d calls outstanding, client pipelining %v)", ncall, pipelined)
	} else if end == 0 && cerr != nil {
		x.Fail("C03/close-result/blocked-writes", "Conn.Close returned %v", cerr)
	}
	for _, c := range calls {
		if !c.ret {
			x.Fail("C03/caller-hangs/blocked-writes", "call %d (%s) never returned after the connection ended (%s) while request writes were blocked", c.tag, formNames[c.form], []string{"local Close", "link died"}[end])
		} else if c.err == nil {
			x.Fail("C03/call-succeeded-without-peer/blocked-writes", "call %d returned nil although nobody ever read its request", c.tag)
		}
	}
	late := newUcall(9, 0, 20, formCall)
	late.spawn(conn)
	vs.Quiesce()
	if !late.ret {
		x.Fail("C03/late-call-hangs/blocked-writes", "a call started after the connection ended blocks")
	} else if late.err != rpc.ErrShutdown {
		x.Fail("C03/late-call-error/blocked-writes", "a call started after the connection ended returned %v, want ErrShutdown", late.err)
	}
	x.Outcome("pipelined=%v end=%d n=%d closed=%v", pipelined, end, ncall, closed)
	conn.Close()
	vs.Quiesce()
}

func init() {
	register(&Scenario{Prop: "C03", Name: "c03/blocked-writes", Quick: []Bound{{0, 0}, {1, 0}}, Thorough: []Bound{{2, 0}}, Body: c03BlockedWrites, BudgetQ: 15})
}

// the peer has stopped reading (requests written since then sit in the client's buffered writer) and then
// shuts down its sending direction only (FIN: the client's reader sees EOF while its own output still
// makes no progress).  Every outstanding call, ping and blocked stream read fails with ErrShutdown
// right away - they do not wait for output that may never drain - and a call started afterwards
// fails at once.  (Closing a buffered writer flushes it: the environment's Close waits for the socket.)
func c03HalfClose(x *X) {
	mode := basicModes[x.Choose(5)]
	nlate := 1 + x.Choose(2)
	withStream := x.Choose(2) == 1
	f := newFixture(mode.so, mode.co)
	long := newUcall(1, fGate, 20, formCall)
	long.spawn(f.conn)
	var st rpc.Stream
	rdDone := false
	var rdErr error
	if withStream {
		var err error
		st, err = f.conn.NewStream("StreamSvc.Push")
		if err != nil {
			x.Fail("C03/setup-call-failed", "NewStream: %v", err)
			return
		}
		vs.GoNamed("stream-reader", func() {
			var b []byte
			rdErr = st.ReadMessage(nil, &b)
			rdDone = true
		})
	}
	vs.Quiesce()
	f.cl.p.stall[0] = true // from now on the peer reads nothing
	var calls []*ucall
	for i := 0; i < nlate; i++ {
		c := newUcall(byte(2+i), 0, 20+i, []int{formCall, formGo, formCallCtx}[i%3])
		calls = append(calls, c)
		c.spawn(f.conn)
	}
	pingDone := false
	var pingErr error
	vs.GoNamed("pinger", func() { pingErr = f.conn.Ping(); pingDone = true })
	vs.Quiesce()
	f.cl.p.halfShut[1] = true // FIN from the peer
	vs.Quiesce()
	for _, c := range append([]*ucall{long}, calls...) {
		if !c.ret {
			x.Fail("C03/caller-hangs/half-close", "call %d (%s) never returned after the peer ended the connection (its FIN arrived while %d requests were still in the client's write buffer; mode %s)", c.tag, formNames[c.form], len(f.cl.p.held[0]), mode.name)
		} else if c.err != rpc.ErrShutdown {
			x.Fail("C03/unexpected-error/half-close", "call %d returned %v, want ErrShutdown", c.tag, c.err)
		}
	}
	if !pingDone {
		x.Fail("C03/caller-hangs/half-close", "a Ping never returned after the peer ended the connection (mode %s)", mode.name)
	} else if pingErr != rpc.ErrShutdown {
		x.Fail("C03/unexpected-error/half-close", "Ping returned %v, want ErrShutdown", pingErr)
	}
	if withStream && !rdDone {
		x.Fail("C03/stream-reader-hangs/half-close", "a ReadMessage blocked on a stream is still blocked after the peer ended the connection")
	} else if withStream && rdErr == nil {
		x.Fail("C03/stream-reader-error", "the blocked stream ReadMessage returned nil without a message")
	}
	late := newUcall(9, 0, 20, formCall)
	late.spawn(f.conn)
	vs.Quiesce()
	if !late.ret {
		x.Fail("C03/late-call-hangs/half-close", "a call started after the peer ended the connection blocks")
	} else if late.err != rpc.ErrShutdown {
		x.Fail("C03/late-call-error/half-close", "a call started after the peer ended the connection returned %v, want ErrShutdown", late.err)
	}
	x.Outcome("%s nlate=%d stream=%v held=%d", mode.name, nlate, withStream, len(f.cl.p.held[0]))
	f.cl.Unstall()
	f.w.open(1)
	f.conn.Close()
	vs.Quiesce()
}

func init() {
	register(&Scenario{Prop: "C03", Name: "c03/peer-half-close-buffered-output", Quick: []Bound{{0, 0}, {1, 0}}, Thorough: []Bound{{2, 0}}, Body: c03HalfClose, BudgetQ: 20})
}
