package main

import (
	"fmt"

	"github.com/hslam/rpc"
	vs "verif/shim/vsync"
)

// C11 — data handed to user code is never mutated afterwards.
//
// BYTES codec (decoded values alias their input).  Handlers keep their argument slices, callers
// keep their replies (plain and in a caller-supplied context buffer), both ends keep stream
// messages.  Then every sequence of L further operations over {small call, large call, stream
// message, ping} is issued and everything retained is compared with the digest it had when it was
// handed over.  Pool poisoning (shim) makes a released buffer visible at once.

type kept struct {
	what string
	b    []byte
	sum  string
}

var c11Modes = []modeT{
	{"plain", srvOpts{bufSize: 64}, cliOpts{bufSize: 64}},
	{"srv-pipelining", srvOpts{bufSize: 64, pipelining: true}, cliOpts{bufSize: 64}},
	{"srv-directIO", srvOpts{bufSize: 64, directIO: true}, cliOpts{bufSize: 64}},
	{"srv-ctxbuffer", srvOpts{bufSize: 64, shared: true}, cliOpts{bufSize: 64}},
	{"cli-directIO", srvOpts{bufSize: 64}, cliOpts{bufSize: 64, directIO: true}},
	{"big-buffers", srvOpts{bufSize: 4096}, cliOpts{bufSize: 4096}},
	{"srv-nocopy", srvOpts{bufSize: 64, noCopy: true}, cliOpts{bufSize: 64}},
}

func c11Body(L int, modes []modeT) func(x *X) {
	return func(x *X) {
		m := modes[x.Choose(len(modes))]
		capSel := x.Choose(5)
		ops := make([]int, L)
		for i := range ops {
			ops[i] = x.Choose(4)
		}
		f := newFixture(m.so, m.co)
		f.w.keep = !m.so.noCopy // with NoCopy the handler must not keep its arguments
		var keep []kept
		retain := func(what string, b []byte) {
			keep = append(keep, kept{what, b, digest(b)})
		}
		// phase 1: concurrent calls
		sizes := []int{5, 200, 64}
		var calls []*ucall
		var ctxbuf []byte
		for i, sz := range sizes {
			c := newUcall(byte(i+1), 0, sz, []int{formCall, formCallCtx, formGo}[i])
			if i == 1 {
				c.method = "Svc.EchoCtx"
				n := len(c.want())
				caps := []int{0, n - 1, n, n + 1, 4 * n}
				if caps[capSel] > 0 {
					ctxbuf = make([]byte, caps[capSel])
					for j := range ctxbuf {
						ctxbuf[j] = 0xA5
					}
					c.hctx = newCtx(ctxbuf)
				}
			}
			calls = append(calls, c)
			c.spawn(f.conn)
		}
		// a stream: two messages each way
		var st rpc.Stream
		stOK := false
		vs.GoNamed("streamer", func() {
			if m.so.noCopy {
				// NoCopy with a codec that aliases its input is outside the supported envelope:
				// the server-side stream hands out a buffer that is already back in the pool
				return
			}
			var err error
			st, err = f.conn.NewStream("StreamSvc.Push")
			if err != nil {
				return
			}
			for j := 0; j < 2; j++ {
				msg := streamMsg(0x31, j)
				if st.WriteMessage(&msg) != nil {
					return
				}
				var b []byte
				if st.ReadMessage(nil, &b) != nil {
					return
				}
				retain(fmt.Sprintf("client stream message %d", j), b)
				if !eqBytes(b, transform(msg)) {
					x.Fail("C11/stream-message-wrong", "stream echo %d is %x", j, b)
				}
			}
			stOK = true
		})
		vs.Quiesce()
		for _, c := range calls {
			if !c.ret || c.err != nil {
				x.Fail("C11/setup-call-failed", "call %d: returned=%v err=%v", c.tag, c.ret, c.err)
				continue
			}
			if !eqBytes(c.reply, c.want()) {
				x.Fail("C11/reply-wrong-at-return", "call %d reply %x", c.tag, c.reply)
			}
			retain(fmt.Sprintf("reply of call %d (%s)", c.tag, formNames[c.form]), c.reply)
		}
		// phase 2: every sequence of L further operations
		for i, op := range ops {
			switch op {
			case 0:
				c := newUcall(byte(0x20+i), 0, 9+i, formCall)
				c.issue(f.conn)
				retain("reply of a later small call", c.reply)
			case 1:
				c := newUcall(byte(0x28+i), fDouble, 150+40*i, formCall)
				c.issue(f.conn)
				retain("reply of a later large call", c.reply)
			case 2:
				if stOK {
					msg := streamMsg(0x31, 5+i)
					var b []byte
					if st.WriteMessage(&msg) == nil && st.ReadMessage(nil, &b) == nil {
						retain("later stream message", b)
					}
				}
			case 3:
				f.conn.Ping()
			}
		}
		vs.Quiesce()
		// the oracle
		for _, k := range keep {
			if d := digest(k.b); d != k.sum {
				x.Fail("C11/client-data-mutated", "%s changed after it was handed to the caller: digest %s -> %s, now %.40x (mode %s)", k.what, k.sum, d, k.b, m.name)
			}
		}
		for i, b := range f.w.kept {
			if d := digest(b); d != f.w.keptSum[i] {
				x.Fail("C11/handler-args-mutated", "argument bytes kept by a handler changed after the handler returned: digest %s -> %s, now %.40x (mode %s)", f.w.keptSum[i], d, b, m.name)
			}
		}
		if ctxbuf != nil {
			n := len(calls[1].want())
			full := ctxbuf[:cap(ctxbuf)]
			for j := n; j < len(full); j++ {
				if full[j] != 0xA5 {
					x.Fail("C11/buffer-overrun", "byte %d of the caller-supplied buffer (capacity %d) beyond the %d-byte reply was overwritten", j, len(full), n)
					break
				}
			}
			if len(full) < n {
				for j := range full {
					if full[j] != 0xA5 {
						x.Fail("C11/small-buffer-written", "the caller-supplied buffer is too small (%d < %d) but byte %d was overwritten", len(full), n, j)
						break
					}
				}
			}
		}
		x.Outcome("%s cap=%d ops=%v kept=%d/%d", m.name, capSel, ops, len(keep), len(f.w.kept))
		f.conn.Close()
		vs.Quiesce()
	}
}

// frame-size sweep: request and reply frames whose total length walks across the pool buffer size
// (cap-1, cap, cap+1 of the read buffers are where "fits the pooled buffer" decisions flip)
func c11Boundary(modes []modeT) func(x *X) { return c11BoundaryBuf(modes, 64) }

// c11BoundaryBuf: buf is the configured buffer size on both sides (64 is a size class of the
// buffer pools; 1000 is not: the pools round it up to 1024, so a buffer's length and capacity differ)
func c11BoundaryBuf(modes []modeT, buf int) func(x *X) { return c11BoundaryBufP("C11", modes, buf) }

func c11BoundaryBufP(kp string, modes []modeT, buf int) func(x *X) {
	return func(x *X) {
		m := modes[x.Choose(len(modes))]
		m.so.bufSize, m.co.bufSize = buf, buf
		n := 30
		if buf != 64 {
			n = 50 // covers buf-20 .. buf+29: below the size, between the size and its class, above the class
		}
		size := buf - 20 + x.Choose(n) // body bytes: the frames are 3..12 bytes longer
		double := x.Choose(2) == 1
		f := newFixture(m.so, m.co)
		f.w.keep = !m.so.noCopy
		flags := byte(0)
		if double {
			flags = fDouble
		}
		c := newUcall(1, flags, size, formCall)
		c.issue(f.conn)
		if c.err != nil || !eqBytes(c.reply, c.want()) {
			x.Fail(kp+"/reply-wrong-at-return", "call with a %d-byte body: err=%v reply=%x", size, c.err, c.reply)
			return
		}
		sum := digest(c.reply)
		for j := 0; j < 4; j++ {
			l := newUcall(byte(0x20+j), 0, []int{size, 9, 3 * size, size + 1}[j], formCall)
			l.issue(f.conn)
		}
		f.conn.Ping()
		vs.Quiesce()
		if d := digest(c.reply); d != sum {
			x.Fail(kp+"/client-data-mutated", "the %d-byte reply of a call with a %d-byte body changed after later calls: %s -> %s (mode %s)", len(c.reply), size, sum, d, m.name)
		}
		for i, b := range f.w.kept {
			if d := digest(b); d != f.w.keptSum[i] {
				x.Fail(kp+"/handler-args-mutated", "%d argument bytes kept by a handler changed after the handler returned (mode %s)", len(b), m.name)
			}
		}
		x.Outcome("%s size=%d double=%v", m.name, size, double)
		f.conn.Close()
		vs.Quiesce()
	}
}

func init() {
	register(&Scenario{Prop: "C11", Name: "c11/frame-boundary", Quick: []Bound{{0, 0}, {1, 0}}, Thorough: []Bound{{2, 0}}, Body: c11Boundary(c11Modes[:5])})
	register(&Scenario{Prop: "C11", Name: "c11/L2", Quick: []Bound{{0, 0}, {1, 0}}, Thorough: []Bound{{2, 0}}, Body: c11Body(2, c11Modes), BudgetQ: 30})
	register(&Scenario{Prop: "C11", Name: "c11/L3", Quick: []Bound{{0, 0}}, Thorough: []Bound{{1, 0}}, Body: c11Body(3, c11Modes)})
}

// the same *Call used for several round trips (Conn.RoundTrip takes a caller-owned Call), each
// with a fresh reply object: the reply of an earlier round trip, kept by the caller, is not
// touched by a later one, whatever the relative sizes and whether a context buffer was used.
func c11ReusedCall(prop string) func(x *X) {
	return func(x *X) {
		m := c11Modes[x.Choose(5)]
		sizes := [][3]int{{40, 12, 40}, {12, 40, 12}, {30, 30, 30}, {200, 20, 90}, {20, 200, 20}, {40, 0, 12}, {12, 40, 0}}[x.Choose(7)] // (0: a request and a reply of no bytes at all)
		f := newFixture(m.so, m.co)
		done := make(chan *rpc.Call, 1)
		call := &rpc.Call{ServiceMethod: "Svc.Echo", Done: done}
		type kept struct {
			reply []byte
			want  []byte
			sum   string
		}
		var ks []*kept
		for i, n := range sizes {
			args := mkPayload(byte(i+1), 0, n)
			k := &kept{want: transform(args)}
			call.ServiceMethod = "Svc.Echo"
			if n == 0 {
				args, k.want, call.ServiceMethod = []byte{}, []byte{}, "Svc.Plain"
			}
			call.Args, call.Reply, call.Error = &args, &k.reply, nil
			f.conn.RoundTrip(call)
			recvCall(done)
			if call.Error != nil || !eqBytes(k.reply, k.want) {
				x.Fail(prop+"/reply-wrong-at-return/reused-call", "round trip %d (%d argument bytes) of a reused Call completed with err=%v and the reply %x, want %x (sizes %v, mode %s)", i, len(args), call.Error, k.reply, k.want, sizes, m.name)
				return
			}
			k.sum = digest(k.reply)
			ks = append(ks, k)
			for j, o := range ks {
				if digest(o.reply) != o.sum || !eqBytes(o.reply, o.want) {
					x.Fail(map[string]string{"C11": "C11/client-data-mutated/reused-call", "C01": "C01/earlier-reply-replaced/reused-call"}[prop], "the reply of round trip %d (%d bytes) changed when the same Call made round trip %d (%d bytes); sizes %v, mode %s", j, len(o.want), i, len(k.want), sizes, m.name)
				}
			}
		}
		x.Outcome("%s %v", m.name, sizes)
		f.conn.Close()
		vs.Quiesce()
	}
}

func init() {
	register(&Scenario{Prop: "C11", Name: "c11/frame-boundary-buf1000", Quick: []Bound{{0, 0}}, Thorough: []Bound{{1, 0}}, Body: c11BoundaryBuf(c11Modes[:5], 1000), BudgetQ: 15})
	register(&Scenario{Prop: "C11", Name: "c11/reused-call", Quick: []Bound{{0, 0}, {1, 0}}, Thorough: []Bound{{2, 0}}, Body: c11ReusedCall("C11"), BudgetQ: 15})
	register(&Scenario{Prop: "C01", Name: "c01/reused-call", Quick: []Bound{{0, 0}}, Thorough: []Bound{{1, 0}}, Body: c11ReusedCall("C01"), BudgetQ: 15})
}

func init() {
	// C12: a buffer size that is not a size class of the pool (100 -> 128, 1000 -> 1024) gives the same results as
	// one that is: arguments kept by a handler and replies kept by a caller stay what they were, under every header encoder
	odd := []modeT{basicModes[0], basicModes[5], basicModes[6], basicModes[7], basicModes[1]}
	register(&Scenario{Prop: "C12", Name: "c12/kept-data-buffer-size-100", Quick: []Bound{{0, 0}}, Thorough: []Bound{{1, 0}}, Body: c11BoundaryBufP("C12", odd, 100), BudgetQ: 15})
	register(&Scenario{Prop: "C12", Name: "c12/kept-data-buffer-size-1000", Quick: []Bound{{0, 0}}, Thorough: []Bound{{1, 0}}, Body: c11BoundaryBufP("C12", odd, 1000), BudgetQ: 15})
	register(&Scenario{Prop: "C11", Name: "c11/frame-boundary-buf100-encoders", Quick: []Bound{{0, 0}}, Thorough: []Bound{{1, 0}}, Body: c11BoundaryBufP("C11", odd, 100), BudgetQ: 15})
}

// a caller-supplied buffer (the context buffer of CallWithContext, Call.Buffer of RoundTrip) and
// a call that FAILS on the server (handler error, unknown method): the library reports no reply, so it
// has not written anything into the buffer - the sentinel bytes are all still there.
func c11FailedCallBuffer(x *X) {
	m := c11Modes[x.Choose(5)]
	via := x.Choose(2)  // CallWithContext / RoundTrip with Call.Buffer
	kind := x.Choose(2) // handler error / unknown method
	size := []int{12, 40, 63}[x.Choose(3)]
	f := newFixture(m.so, m.co)
	buf := make([]byte, 64)
	for i := range buf {
		buf[i] = 0xA5
	}
	args := mkPayload(0x31, fErr, size)
	f.w.errText[0x31] = "no"
	method := "Svc.Echo"
	if kind == 1 {
		method = "Svc.Nope"
	}
	var reply []byte
	var err error
	ret := false
	if via == 0 {
		hc := newCtx(buf)
		vs.GoNamed("caller", func() { err = f.conn.CallWithContext(hc, method, &args, &reply); ret = true })
	} else {
		done := make(chan *rpc.Call, 1)
		call := &rpc.Call{ServiceMethod: method, Args: &args, Reply: &reply, Buffer: buf, Done: done}
		vs.GoNamed("caller", func() { f.conn.RoundTrip(call); recvCall(done); err = call.Error; ret = true })
	}
	vs.Quiesce()
	if !ret || err == nil {
		x.Fail("C11/failed-call-outcome", "the failing call: returned=%v err=%v", ret, err)
	}
	for i, b := range buf {
		if b != 0xA5 {
			x.Fail("C11/buffer-written-by-failed-call", "a call that failed on the server (%s; %d argument bytes; via %s; mode %s) left the caller-supplied 64-byte buffer changed at offset %d (%x...), although no reply was reported", []string{"handler error", "unknown method"}[kind], size, []string{"CallWithContext", "RoundTrip with Call.Buffer"}[via], m.name, i, clipBytes(buf, 16))
			break
		}
	}
	x.Outcome("%s via=%d kind=%d size=%d", m.name, via, kind, size)
	f.conn.Close()
	vs.Quiesce()
}

func init() {
	register(&Scenario{Prop: "C11", Name: "c11/failed-call-with-caller-buffer", Quick: []Bound{{0, 0}, {1, 0}}, Thorough: []Bound{{2, 0}}, Body: c11FailedCallBuffer, BudgetQ: 15})
}
