package main

import (
	"github.com/hslam/rpc"
	vs "verif/shim/vsync"
)

// Codecs with scheduling points inside.  User-supplied codecs are user code: they may block or be
// preempted, so a yield inside Marshal/Unmarshal is a legitimate scheduling point.  These
// wrappers open the windows inside header/body decoding and encoding (between a Reset and the
// reads of the decoded fields, between a pending-table lookup and the completion, ...) to the
// explorer without changing the bytes on the wire.

type yieldCodec struct{ inner rpc.Codec }

func (c yieldCodec) Marshal(buf []byte, v interface{}) ([]byte, error) {
	vs.Yield()
	b, err := c.inner.Marshal(buf, v)
	vs.Yield()
	return b, err
}

func (c yieldCodec) Unmarshal(data []byte, v interface{}) error {
	vs.Yield()
	err := c.inner.Unmarshal(data, v)
	vs.Yield()
	return err
}

type yieldEncoder struct{ inner rpc.Encoder }

func (e yieldEncoder) NewRequest() rpc.Request   { return e.inner.NewRequest() }
func (e yieldEncoder) NewResponse() rpc.Response { return e.inner.NewResponse() }
func (e yieldEncoder) NewCodec() rpc.Codec       { return yieldCodec{e.inner.NewCodec()} }

func yieldBytesCodec() rpc.Codec { return yieldCodec{&rpc.BYTESCodec{}} }
