package main

import (
	"crypto/tls"
	"errors"
	"fmt"
	"io"
	"net"
	"syscall"

	"github.com/hslam/netpoll"
	"github.com/hslam/socket"
	vs "verif/shim/vsync"
)

// ---- fake socket.Socket / socket.Listener on top of the message pipe (Options.NewSocket seam)

var errRefused = errors.New("dial: connection refused")
var errListenerClosed = errors.New("accept: use of closed network connection")

// FakeConn is one end of a dialled connection.
type FakeConn struct {
	net.Conn
	end  *PipeEnd
	addr string
	id   int
	srv  bool
}

func (c *FakeConn) Messages() socket.Messages { return c.end }
func (c *FakeConn) Connection() net.Conn      { return nil }
func (c *FakeConn) Close() error              { return c.end.Close() }

// FakeNet is the virtual network of one execution.
type FakeNet struct {
	lis         map[string]*FakeLis
	dials       map[string]int
	failed      map[string]int
	live        map[string]int
	maxLive     map[string]int
	conns       []*FakeConn // client ends, in dial order
	pollWorkers int
	onDial      func(addr string)
	silent      map[string]bool // connections dialled to these addresses never hear from the server
	holdDial    map[string]bool // dials to these addresses take long (until released)
}

func newNet() *FakeNet {
	return &FakeNet{lis: map[string]*FakeLis{}, dials: map[string]int{}, failed: map[string]int{}, live: map[string]int{}, maxLive: map[string]int{}, pollWorkers: 1, silent: map[string]bool{}, holdDial: map[string]bool{}}
}

type fakeSock struct{ n *FakeNet }

// Socket is the Options.NewSocket factory.
func (n *FakeNet) Socket(*tls.Config) socket.Socket { return &fakeSock{n} }
func (s *fakeSock) Scheme() string                  { return "fake" }

func (s *fakeSock) Dial(addr string) (socket.Conn, error) {
	n := s.n
	vs.Block("env:dial "+addr, nil)
	if n.holdDial[addr] {
		vs.Block("env:dial "+addr+" (slow)", func() bool { return !n.holdDial[addr] })
	}
	l := n.lis[addr]
	if l == nil || l.closed {
		n.failed[addr]++
		return nil, errRefused
	}
	cl, sv := NewPipe()
	if n.silent[addr] {
		cl.p.blackhole[1] = true
	}
	n.dials[addr]++
	n.live[addr]++
	if n.live[addr] > n.maxLive[addr] {
		n.maxLive[addr] = n.live[addr]
	}
	cc := &FakeConn{end: cl, addr: addr, id: len(n.conns) + 1}
	cl.OnClose = func() { n.live[addr]-- }
	n.conns = append(n.conns, cc)
	sc := &FakeConn{end: sv, addr: addr, id: cc.id, srv: true}
	l.q = append(l.q, sc)
	l.accepted = append(l.accepted, sc)
	if n.onDial != nil {
		n.onDial(addr)
	}
	return cc, nil
}

func (s *fakeSock) Listen(addr string) (socket.Listener, error) {
	vs.Block("env:listen "+addr, nil)
	if l := s.n.lis[addr]; l != nil && !l.closed {
		return nil, errors.New("listen: address already in use")
	}
	l := &FakeLis{n: s.n, addr: addr}
	s.n.lis[addr] = l
	return l, nil
}

// FakeLis is a fake socket.Listener; ServeMessages emulates netpoll.
type FakeLis struct {
	n         *FakeNet
	addr      string
	q         []*FakeConn
	accepted  []*FakeConn
	closed    bool
	accepting bool // the server has reached its accept loop (its listener is registered)
	obj       vs.Obj
}

func (l *FakeLis) Accept() (socket.Conn, error) {
	l.accepting = true
	vs.BlockObj("env:accept "+l.addr, &l.obj, func() bool { return len(l.q) > 0 || l.closed })
	if l.closed {
		return nil, errListenerClosed
	}
	c := l.q[0]
	l.q = l.q[1:]
	return c, nil
}

// Close closes the listener; accepted connections stay open (as with a real listener).
func (l *FakeLis) Close() error {
	vs.BlockObj("env:listener close "+l.addr, &l.obj, nil)
	l.closed = true
	// connections still waiting in the accept backlog are reset by the kernel
	for _, c := range l.q {
		c.end.p.dead = true
		c.end.p.closed[1] = true // (never handed to the server: the kernel, not the server, ends its server side)
	}
	l.q = nil
	return nil
}
func (l *FakeLis) Addr() net.Addr              { return nil }
func (l *FakeLis) Serve(netpoll.Handler) error { return errors.New("not supported by the model") }
func (l *FakeLis) ServeData(func(net.Conn) error, func([]byte) []byte) error {
	return errors.New("not supported by the model")
}
func (l *FakeLis) ServeConn(func(net.Conn) (socket.Context, error), func(socket.Context) error) error {
	return errors.New("not supported by the model")
}

func (e *PipeEnd) readNonblock(buf []byte) ([]byte, error) {
	p := e.p
	vs.BlockObj(e.wPoll, &p.obj[e.side], nil)
	if p.closed[e.side] {
		return nil, io.EOF
	}
	if p.reset {
		return nil, io.EOF // netpoll maps every read error except EAGAIN to EOF
	}
	// socket.Messages keeps a user-space buffer: one read(2) takes whatever the kernel has (up to 64 KB), the
	// frames are handed out one per call; the poller only knows about what is still in the kernel
	if len(e.ubuf) == 0 {
		if len(*e.inq()) == 0 {
			if p.closed[1-e.side] || p.dead {
				return nil, io.EOF
			}
			return nil, syscall.EAGAIN
		}
		q := e.inq()
		total := 0
		for len(*q) > 0 && (total == 0 || total+len((*q)[0]) <= 65536) {
			total += len((*q)[0])
			e.ubuf = append(e.ubuf, (*q)[0])
			*q = (*q)[1:]
		}
	}
	m := e.ubuf[0]
	e.ubuf = e.ubuf[1:]
	var out []byte
	if cap(buf) >= len(m) {
		out = buf[:len(m)]
	} else {
		out = make([]byte, len(m))
	}
	copy(out, m)
	return out, nil
}

// readable: what epoll reports - bytes in the kernel, or an end of the connection
func (e *PipeEnd) readable() bool {
	p := e.p
	return len(*e.inq()) > 0 || p.closed[e.side] || p.closed[1-e.side] || p.dead || p.reset
}

// ServeMessages emulates netpoll's serving of one listener: for every accepted connection it
// calls opened, then n.pollWorkers threads loop
//
//	wait readable; for { err := serve(ctx); EAGAIN -> break; error -> (CAS closing) close; return }
//
// with a non-blocking ReadMessage, which is the contract of netpoll's worker.serveConn and
// conn.Read.  Two workers may call serve for one connection concurrently.
func (l *FakeLis) ServeMessages(opened func(socket.Messages) (socket.Context, error), serve func(socket.Context) error) error {
	for {
		l.accepting = true
		vs.BlockObj("env:accept "+l.addr, &l.obj, func() bool { return len(l.q) > 0 || l.closed })
		if l.closed {
			return errListenerClosed
		}
		c := l.q[0]
		l.q = l.q[1:]
		end := c.end
		end.nonblock = true
		ctx, err := opened(end)
		if err != nil {
			end.Close()
			continue
		}
		closing := false
		for k := 0; k < l.n.pollWorkers; k++ {
			vs.GoLib(fmt.Sprintf("pollworker%d.%d", c.id, k), func() {
				for {
					vs.BlockObj(end.wPollWait, &end.p.obj[end.side], func() bool { return closing || end.readable() })
					if closing {
						return
					}
					for {
						err := serve(ctx)
						if err == nil {
							continue
						}
						if err == syscall.EAGAIN {
							break
						}
						if !closing {
							closing = true
							end.Close()
						}
						return
					}
				}
			})
		}
	}
}
