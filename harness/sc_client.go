package main

import (
	"context"
	"fmt"
	"sort"
	"time"

	"github.com/hslam/rpc"
	vs "verif/shim/vsync"
	vt "verif/shim/vtime"
)

// ---- Client harness (C16, C17, C18): the real Client over a fake RoundTripper with scripted
// health and latency, virtual clock.

const cTick = 100 * time.Millisecond // the Client's detector period (clientTick)

type route struct {
	at     time.Duration
	addr   string
	method string
	probe  bool // issued by the client's own detector
	thread string
}

type fakeRT struct {
	up     map[string]bool
	lat    map[string]time.Duration
	routed []route
	closed int
	gate   map[string]bool // calls to a gated address block until opened
}

func newRT() *fakeRT {
	return &fakeRT{up: map[string]bool{}, lat: map[string]time.Duration{}, gate: map[string]bool{}}
}

func (f *fakeRT) do(addr, method string) error {
	vs.Block("env:roundtrip "+addr, nil)
	f.routed = append(f.routed, route{at: vt.Elapsed(), addr: addr, method: method, probe: vs.SelfLib(), thread: vs.SelfName()})
	if addr == "" || !f.up[addr] {
		return rpc.ErrDial
	}
	if f.gate[addr] {
		vs.Block("env:gated roundtrip "+addr, func() bool { return !f.gate[addr] })
	}
	if d := f.lat[addr]; d > 0 {
		vt.Advance(d)
	}
	return nil
}

func (f *fakeRT) RoundTrip(addr string, call *rpc.Call) *rpc.Call {
	call.Error = f.do(addr, "RoundTrip")
	if call.Done == nil {
		call.Done = make(chan *rpc.Call, 10)
	}
	select {
	case call.Done <- call:
	default:
	}
	return call
}
func (f *fakeRT) Go(addr, m string, a, r interface{}, done chan *rpc.Call) *rpc.Call {
	if done == nil {
		done = make(chan *rpc.Call, 10)
	}
	call := &rpc.Call{ServiceMethod: m, Args: a, Reply: r, Done: done}
	call.Error = f.do(addr, "Go")
	select {
	case call.Done <- call:
	default:
	}
	return call
}
func (f *fakeRT) Call(addr, m string, a, r interface{}) error { return f.do(addr, "Call") }
func (f *fakeRT) CallWithContext(ctx context.Context, addr, m string, a, r interface{}) error {
	return f.do(addr, "CallWithContext")
}
func (f *fakeRT) NewStream(addr, key string) (rpc.Stream, error) { return nil, f.do(addr, "NewStream") }
func (f *fakeRT) Ping(addr string) error                         { return f.do(addr, "Ping") }
func (f *fakeRT) Close() error                                   { f.closed++; return nil }

// user routes: calls made through the client by harness threads to a non-empty address
func (f *fakeRT) userRoutes(from int) []route {
	var out []route
	for _, r := range f.routed[from:] {
		if !r.probe && r.addr != "" {
			out = append(out, r)
		}
	}
	return out
}

const (
	cfCall = iota
	cfGo
	cfRoundTrip
	cfCallCtx
	cfPing
	cfStream
	cfGoNil
	nCForms
)

var cfNames = []string{"Call", "Go", "RoundTrip", "CallWithContext", "Ping", "NewStream", "Go(done=nil)"}

// clientCall issues one call of the given form and returns its error.
func clientCall(c *rpc.Client, form int) error {
	switch form {
	case cfCall:
		return c.Call("X.Y", nil, nil)
	case cfGo:
		done := make(chan *rpc.Call, 1)
		call := c.Go("X.Y", nil, nil, done)
		recvCall(done)
		return call.Error
	case cfRoundTrip:
		done := make(chan *rpc.Call, 1)
		call := c.RoundTrip(&rpc.Call{ServiceMethod: "X.Y", Done: done})
		recvCall(done)
		return call.Error
	case cfCallCtx:
		return c.CallWithContext(context.Background(), "X.Y", nil, nil)
	case cfPing:
		return c.Ping()
	case cfStream:
		_, err := c.NewStream("X.Y")
		return err
	case cfGoNil:
		// "If done is nil, Go will allocate a new channel"
		call := c.Go("X.Y", nil, nil, nil)
		recvCall(call.Done)
		return call.Error
	}
	return nil
}

type cliSys struct {
	x   *X
	rt  *fakeRT
	c   *rpc.Client
	log []string
}

func newCliSys(x *X, sched rpc.Scheduling, targets ...string) *cliSys {
	s := &cliSys{x: x, rt: newRT()}
	s.c = rpc.NewClient(nil, targets...)
	s.c.Transport = s.rt
	s.c.Scheduling = sched
	s.c.DialTimeout = 500 * time.Millisecond
	return s
}

func (s *cliSys) tick(n int) {
	for i := 0; i < n; i++ {
		vt.Advance(cTick)
		vs.Quiesce()
	}
}

func (s *cliSys) close() {
	s.c.Close()
	vs.Quiesce()
}

func member(list []string, a string) bool {
	for _, x := range list {
		if x == a {
			return true
		}
	}
	return false
}

func dedup(list []string) []string {
	var out []string
	for _, a := range list {
		if a != "" && !member(out, a) {
			out = append(out, a)
		}
	}
	sort.Strings(out)
	return out
}

// ---------------------------------------------------------------- C16

var c16Lists = [][]string{{"a", "b"}, {"b", "c"}, {"a"}, {}, {"a", "a", ""}, {"c", "", "b", "c"}}

// sequential: every sequence of L events; after each call the routed address must be in the
// list supplied by the most recent Update (or be the Director's answer).
func c16SeqBody(L int) func(x *X) {
	return func(x *X) {
		sched := rpc.Scheduling(x.Choose(3))
		s := newCliSys(x, sched, "a", "b")
		cur := []string{"a", "b"}
		director := ""
		s.c.Director = func() string { return director }
		for _, a := range []string{"a", "b", "c"} {
			s.rt.up[a] = true
		}
		s.tick(2)
		for i := 0; i < L; i++ {
			ev := x.Choose(9)
			switch {
			case ev < 3: // Update
				li := x.Choose(len(c16Lists))
				s.c.Update(c16Lists[li]...)
				cur = dedup(c16Lists[li])
				s.log = append(s.log, fmt.Sprintf("update%v", c16Lists[li]))
			case ev == 3:
				s.tick(1)
				s.log = append(s.log, "tick")
			case ev == 4:
				a := []string{"a", "b", "c"}[x.Choose(3)]
				s.rt.up[a] = !s.rt.up[a]
				s.log = append(s.log, fmt.Sprintf("health(%s)=%v", a, s.rt.up[a]))
			case ev == 5:
				director = []string{"", "d"}[x.Choose(2)]
				s.log = append(s.log, "director="+director)
			default: // a call of some form
				form := x.Choose(nCForms)
				from := len(s.rt.routed)
				done := false
				var err error
				vs.GoNamed("caller", func() { err = clientCall(s.c, form); done = true })
				vs.Quiesce()
				if !done {
					// nobody live: the caller waits; let it time out
					for k := 0; k < 6 && !done; k++ {
						s.tick(1)
					}
				}
				if !done {
					x.Fail("C16/caller-stuck", "a call never returned; events %v", s.log)
				}
				for _, r := range s.rt.userRoutes(from) {
					switch {
					case director != "" && r.addr == director:
					case director != "" && r.addr != director:
						x.Fail("C16/director-ignored", "Director returned %q but the call was routed to %q; events %v", director, r.addr, s.log)
					case !member(cur, r.addr):
						x.Fail("C16/routed-to-removed-target", "a %s call was routed to %q, the current target list is %v; events %v", r.method, r.addr, cur, s.log)
					}
				}
				s.log = append(s.log, fmt.Sprintf("%s=%s", cfNames[form], errStr(err)))
			}
		}
		x.Outcome("sched=%d %v", sched, s.log)
		s.close()
	}
}

// concurrent: callers race with an updater; each routed address must belong to a list that was
// current at some step between the call's start and its routing.
func c16ConcBody(x *X) {
	sched := rpc.Scheduling(x.Choose(3))
	l1 := x.Choose(len(c16Lists))
	s := newCliSys(x, sched, "a", "b")
	for _, a := range []string{"a", "b", "c"} {
		s.rt.up[a] = true
	}
	s.tick(2)
	updated := false
	vs.GoNamed("updater", func() {
		s.c.Update(c16Lists[l1]...)
		updated = true
	})
	type rec struct {
		before bool // started before Update returned
		from   int
	}
	for i := 0; i < 2; i++ {
		form := []int{cfCall, cfGo}[i]
		vs.GoNamed(fmt.Sprintf("caller%d", i), func() { clientCall(s.c, form) })
	}
	vs.GoNamed("ticker", func() { vt.Advance(cTick) })
	vs.Quiesce()
	s.tick(6)
	old, nw := []string{"a", "b"}, dedup(c16Lists[l1])
	for _, r := range s.rt.userRoutes(0) {
		if !member(old, r.addr) && !member(nw, r.addr) {
			x.Fail("C16/routed-outside-any-list", "a call was routed to %q; lists were %v then %v", r.addr, old, nw)
		}
	}
	// calls started after Update returned only go to the new list
	from := len(s.rt.routed)
	for i := 0; i < 3; i++ {
		done := false
		vs.GoNamed("late", func() { clientCall(s.c, cfCall); done = true })
		vs.Quiesce()
		for k := 0; k < 6 && !done; k++ {
			s.tick(1)
		}
	}
	for _, r := range s.rt.userRoutes(from) {
		if !member(nw, r.addr) {
			x.Fail("C16/routed-to-removed-target", "after Update(%v) returned a new call was routed to %q", c16Lists[l1], r.addr)
		}
	}
	x.Outcome("sched=%d list=%v updated=%v routes=%d", sched, c16Lists[l1], updated, len(s.rt.routed))
	s.close()
}

// LeastTime with three live targets, then Update to every smaller list: the heap of the policy
// must not keep removed targets.
func c16LeastTimeShrink(x *X) {
	s := newCliSys(x, rpc.LeastTimeScheduling, "a", "b", "c")
	s.c.Tick = 10 * time.Second // after the first probe round only estimates decide
	all := []string{"a", "b", "c"}
	fast := x.Choose(3)
	for i, a := range all {
		s.rt.up[a] = true
		s.rt.lat[a] = 20 * time.Millisecond
		if i == fast {
			s.rt.lat[a] = time.Millisecond
		}
	}
	s.tick(2)
	warm := 2 + x.Choose(4)
	for i := 0; i < warm; i++ {
		s.c.Call("X.Y", nil, nil)
		if i < 3 {
			vt.Advance(11 * time.Second) // let the probe rotation measure every target once
			vs.Quiesce()
		}
	}
	lists := [][]string{{"a", "b"}, {"a", "c"}, {"b", "c"}, {"a"}, {"b"}, {"c"}, {"c", "b", "a"}}
	nl := lists[x.Choose(len(lists))]
	s.c.Update(nl...)
	ticksAfter := x.Choose(3)
	s.tick(ticksAfter)
	from := len(s.rt.routed)
	for i := 0; i < 6; i++ {
		done := false
		vs.GoNamed("caller", func() { clientCall(s.c, []int{cfCall, cfGo, cfPing}[i%3]); done = true })
		vs.Quiesce()
		for k := 0; k < 6 && !done; k++ {
			s.tick(1)
		}
	}
	for _, r := range s.rt.userRoutes(from) {
		if !member(nl, r.addr) {
			x.Fail("C16/routed-to-removed-target", "LeastTime: after Update(%v) returned a %s call was routed to %q (fastest target was %q, %d warm-up calls, %d ticks after the update)", nl, r.method, r.addr, all[fast], warm, ticksAfter)
		}
	}
	x.Outcome("fast=%d warm=%d list=%v ticks=%d", fast, warm, nl, ticksAfter)
	s.close()
}

// a health probe of a target is still in flight when Update removes the target; the probe then succeeds
func c16ProbeInFlight(x *X) {
	sched := rpc.Scheduling(x.Choose(3))
	s := newCliSys(x, sched, "a", "x")
	s.rt.up["a"], s.rt.up["x"] = true, true
	s.rt.gate["x"] = true // the probe of x blocks inside the transport
	s.tick(2)
	nl := [][]string{{"a"}, {"a", "b"}, {}, {"c"}, {"c", "a"}}[x.Choose(5)]
	s.rt.up["b"] = true
	aDies := x.Choose(2) == 1
	if aDies {
		s.rt.up["a"] = false // no current target answers: only the late probe of the removed target succeeds
	}
	s.c.Update(nl...)
	when := x.Choose(2)
	if when == 1 {
		s.tick(1)
	}
	s.rt.gate["x"] = false // the late probe result arrives
	vs.Quiesce()
	s.tick(2)
	from := len(s.rt.routed)
	for i := 0; i < 4; i++ {
		done := false
		vs.GoNamed("caller", func() { clientCall(s.c, []int{cfCall, cfGo}[i%2]); done = true })
		vs.Quiesce()
		for k := 0; k < 6 && !done; k++ {
			s.tick(1)
		}
	}
	for _, r := range s.rt.userRoutes(from) {
		if !member(dedup(nl), r.addr) {
			x.Fail("C16/routed-to-removed-target", "Update(%v) removed target x while its health probe was in flight; after the probe succeeded a %s call was routed to %q", nl, r.method, r.addr)
		}
	}
	x.Outcome("sched=%d list=%v when=%d", sched, nl, when)
	s.close()
}

func init() {
	register(&Scenario{Prop: "C16", Name: "c16/leasttime-shrink", Quick: []Bound{{0, 0}, {1, 0}}, Thorough: []Bound{{2, 0}}, Body: c16LeastTimeShrink, MaxSteps: 100000})
	register(&Scenario{Prop: "C16", Name: "c16/probe-in-flight", Quick: []Bound{{1, 0}, {2, 0}}, Thorough: []Bound{{3, 0}}, Body: c16ProbeInFlight, MaxSteps: 100000, BudgetQ: 30})
	register(&Scenario{Prop: "C16", Name: "c16/seq-L3", Quick: []Bound{{0, 0}}, Thorough: []Bound{{1, 0}}, Body: c16SeqBody(3), MaxSteps: 100000})
	register(&Scenario{Prop: "C16", Name: "c16/seq-L4", Quick: []Bound{}, Thorough: []Bound{{0, 0}}, Body: c16SeqBody(4), MaxSteps: 100000, BudgetT: 300})
	register(&Scenario{Prop: "C16", Name: "c16/concurrent", Quick: []Bound{{1, 0}, {2, 0}}, Thorough: []Bound{{3, 0}}, Body: c16ConcBody, MaxSteps: 100000})
}

// Update with argument lists of every shape (duplicates whose raw count equals the number of current
// targets, reorderings, repetitions of the current list, supersets, empty strings, two and three
// removals at once, nothing) on clients with 2, 3 and 4 live targets: every call started after Update
// has returned goes to a member of the new list.
var c16Inits = [][]string{{"a", "b"}, {"a", "b", "c"}, {"a", "b", "c", "d"}}
var c16Shapes = [][]string{
	{"a", "a"}, {"b", "b"}, {"c", "a", "c"}, {"a", "b", "b"}, {"d", "d", "d", "a"}, {"a", "a", "b", "b"},
	{"b", "a"}, {"a", "b"}, {"c", "b", "a"}, {"a", "b", "c", "d"}, {"a"}, {"b"}, {"d"}, {"c", "d"}, {"a", "c"}, {"d", "a"},
	{"a", ""}, {"", ""}, {"", "b", ""}, {}, {"e"}, {"a", "e"}, {"e", "e", "e"}, {"b", "c", "d", "e"},
}

func c16Shape(x *X) {
	sched := rpc.Scheduling(x.Choose(3))
	init := c16Inits[x.Choose(len(c16Inits))]
	shape := c16Shapes[x.Choose(len(c16Shapes))]
	k := x.Choose(3)
	down := x.Choose(3) - 1 // this target of the initial list is down until the Update has returned (-1: none)
	if down >= len(init) {
		down = -1
	}
	s := newCliSys(x, sched, init...)
	for i, a := range []string{"a", "b", "c", "d", "e"} {
		s.rt.up[a] = true
		if sched == rpc.LeastTimeScheduling {
			// a latency profile: the first target is the fastest (down = 0 makes it the one that comes back)
			s.rt.lat[a] = time.Duration(i+1) * 2 * time.Millisecond
		}
	}
	if down >= 0 {
		s.rt.up[init[down]] = false
	}
	s.tick(2)
	for i := 0; i < k && sched != rpc.RandomScheduling; i++ {
		clientCall(s.c, cfCall)
	}
	failed := ""
	if down < 0 && x.Choose(2) == 1 && sched != rpc.RandomScheduling {
		// a live target starts refusing connections and calls are made until one has failed on it; Update follows at
		// once, before the next probe round (the target is flagged dead and still on the routing list)
		failed = init[len(init)-1]
		s.rt.up[failed] = false
		for i := 0; i < 2*len(init)+2; i++ {
			from := len(s.rt.routed)
			clientCall(s.c, cfCall)
			hit := false
			for _, r := range s.rt.userRoutes(from) {
				hit = hit || r.addr == failed
			}
			if hit {
				break
			}
		}
	}
	s.c.Update(shape...)
	cur := dedup(shape)
	if failed != "" {
		s.rt.up[failed] = true
	}
	if down >= 0 {
		// the target that was down comes back after the Update: it is used again only if the new list has it
		s.rt.up[init[down]] = true
		s.tick(2)
	}
	from, from2 := len(s.rt.routed), 0
	ncalls := 2*len(init) + 1
	if sched == rpc.RandomScheduling {
		ncalls = 3 // (every random pick is a choice of the explorer)
	}
	for i := 0; i < ncalls; i++ {
		done := false
		form := []int{cfCall, cfGo, cfPing, cfRoundTrip}[i%4]
		vs.GoNamed(fmt.Sprintf("caller%d", i), func() { clientCall(s.c, form); done = true })
		vs.Quiesce()
		for j := 0; j < 7 && !done; j++ {
			s.tick(1)
		}
		if !done {
			x.Fail("C16/caller-stuck/shapes", "a call after Update(%q) on a client of %v never returned", shape, init)
			break
		}
		if i == len(init) {
			s.tick(1)
			from2 = len(s.rt.routed)
		}
	}
	if n := len(cur); sched == rpc.RoundRobinScheduling && n >= 2 && from2 > 0 {
		// the live set has been stable since the last tick: a duplicate in the argument list must not give a
		// target two turns of the rotation
		var seq []string
		for _, r := range s.rt.userRoutes(from2) {
			seq = append(seq, r.addr)
		}
		for i := 0; i+n <= len(seq); i++ {
			if len(dedup(seq[i:i+n])) != n {
				x.Fail("C16/duplicate-target-not-ignored/shapes", "client of %v: after Update(%q) - %d distinct targets, all reachable - round robin sent the consecutive calls %v (a target has more than one turn of the rotation)", init, shape, n, seq)
				break
			}
		}
	}
	for _, r := range s.rt.userRoutes(from) {
		if !member(cur, r.addr) {
			x.Fail("C16/routed-to-removed-target/shapes", "client of %v (all live, scheduling %d, %d calls made): after Update(%q) returned, a %s call was routed to %q; the new target list is %v", init, sched, k, shape, r.method, r.addr, cur)
			break
		}
	}
	x.Outcome("sched=%d init=%v shape=%q k=%d down=%d failed=%q routes=%d", sched, init, shape, k, down, failed, len(s.rt.routed)-from)
	s.close()
}

func init() {
	register(&Scenario{Prop: "C16", Name: "c16/update-argument-shapes", Quick: []Bound{{0, 0}}, Thorough: []Bound{{1, 0}}, Body: c16Shape, MaxSteps: 100000, BudgetQ: 25, BudgetT: 200, MinHB: 1})
}
