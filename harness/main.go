// mc is the model-checking harness: scenarios (closed systems + oracles) for the properties of
// hslam/rpc, explored exhaustively within stated bounds under the verif/shim scheduler.
package main

import (
	"crypto/sha1"
	"encoding/json"
	"flag"
	"fmt"
	"os"
	"path/filepath"
	"runtime"
	"runtime/pprof"
	"sort"
	"strconv"
	"strings"
	"time"
)

type knownFile struct {
	Open []struct {
		Property string `json:"property"`
		Key      string `json:"key"`
		What     string `json:"what"`
	} `json:"open"`
	Fixed []struct {
		Property string `json:"property"`
		Commit   string `json:"commit"`
		Key      string `json:"key"`
		What     string `json:"what"`
	} `json:"fixed"`
}

type replayFile struct {
	Property string `json:"property"`
	Scenario string `json:"scenario"`
	D        int    `json:"d"`
	F        int    `json:"f"`
	Key      string `json:"key"`
	Msg      string `json:"message"`
	Outcome  string `json:"outcome"`
	Choices  []int  `json:"choices"`
}

func main() {
	if len(os.Args) < 2 {
		fmt.Println("usage: mc check|worker|replay|list ...")
		os.Exit(2)
	}
	switch os.Args[1] {
	case "worker":
		workerMain()
	case "list":
		for _, s := range scenarios {
			fmt.Println(s.Prop, s.Name, s.Quick, s.Thorough)
		}
	case "conform":
		os.Exit(conformMain(os.Args[2:]))
	case "prof":
		// mc prof <scenario> <seconds>: CPU profile of repeated root executions + level-1 children
		sc := findScenario(os.Args[2])
		secs, _ := strconv.Atoi(os.Args[3])
		f, _ := os.Create("/var/tmp/mc.prof")
		pprof.StartCPUProfile(f)
		t0 := time.Now()
		n := 0
		e := &explorer{sc: sc, bound: Bound{1, 0}, res: &ItemResult{Outcomes: map[string]int64{}, Viol: map[string]*FoundViolation{}, ViolCount: map[string]int64{}}, hb: map[uint64]struct{}{}, shapes: map[string]struct{}{}}
		e.deadline = t0.Add(time.Duration(secs) * time.Second)
		e.explore(nil, 0)
		n = int(e.res.Execs)
		pprof.StopCPUProfile()
		f.Close()
		fmt.Printf("%d executions in %.1fs = %.0f/s\n", n, time.Since(t0).Seconds(), float64(n)/time.Since(t0).Seconds())
	case "diverge":
		// mc diverge <scenario> <comma separated prefix>: compare the parent execution (prefix
		// without its last choice) with the child, step by step
		sc := findScenario(os.Args[2])
		var pre []int
		for _, f := range strings.Split(os.Args[3], ",") {
			n, _ := strconv.Atoi(strings.TrimSpace(f))
			pre = append(pre, n)
		}
		warm := 0
		if len(os.Args) > 4 {
			warm, _ = strconv.Atoi(os.Args[4])
		}
		var wp []int
		if w := os.Getenv("WARM"); w != "" {
			for _, f := range strings.Split(w, ",") {
				n, _ := strconv.Atoi(strings.TrimSpace(f))
				wp = append(wp, n)
			}
		}
		for i := 0; i < warm; i++ {
			r := runOne(sc, wp, false)
			fmt.Println("warm points", len(r.Points))
		}
		a := runOne(sc, pre[:len(pre)-1], true)
		b := runOne(sc, pre, true)
		fmt.Println("parent points", len(a.Points), "child points", len(b.Points), "errs", a.EngineEr, "|", b.EngineEr)
		for i := 0; i < len(a.Res.Log) && i < len(b.Res.Log); i++ {
			if a.Res.Log[i] != b.Res.Log[i] {
				for j := i - 6; j < i+4; j++ {
					if j >= 0 && j < len(a.Res.Log) && j < len(b.Res.Log) {
						fmt.Printf("%4d  A %s\n      B %s\n", j, a.Res.Log[j], b.Res.Log[j])
					}
				}
				break
			}
		}
	case "check":
		os.Exit(checkMain(os.Args[2:]))
	case "replay":
		os.Exit(replayMain(os.Args[2:]))
	default:
		fmt.Println("unknown command", os.Args[1])
		os.Exit(2)
	}
}

func replayMain(args []string) int {
	if len(args) < 1 {
		fmt.Println("usage: mc replay <file>")
		return 2
	}
	b, err := os.ReadFile(args[0])
	if err != nil {
		fmt.Println("ENGINE-ERROR", err)
		return 2
	}
	var rf replayFile
	if err := json.Unmarshal(b, &rf); err != nil {
		fmt.Println("ENGINE-ERROR", err)
		return 2
	}
	sc := findScenario(rf.Scenario)
	if sc == nil {
		fmt.Println("ENGINE-ERROR unknown scenario", rf.Scenario)
		return 2
	}
	r1 := runOne(sc, rf.Choices, true)
	r2 := runOne(sc, rf.Choices, true)
	for _, l := range r1.Res.Log {
		fmt.Println(l)
	}
	fmt.Println("outcome:", r1.Outcome)
	if r1.EngineEr != "" {
		fmt.Println("ENGINE-ERROR", r1.EngineEr)
		return 2
	}
	if r1.Res.TraceHash != r2.Res.TraceHash || r1.Outcome != r2.Outcome {
		fmt.Println("ENGINE-ERROR replay is not deterministic")
		return 2
	}
	for _, t := range r1.Res.Threads {
		if t.State != "done" {
			fmt.Printf("thread %d (%s) %s on %s\n", t.ID, t.Name, t.State, t.What)
		}
	}
	hit := false
	for _, v := range r1.Viol {
		fmt.Printf("violation %s: %s\n", v.Key, v.Msg)
		if v.Key == rf.Key {
			hit = true
		}
	}
	if hit {
		fmt.Printf("VIOLATION property=%s replay=%s\n", rf.Property, args[0])
		return 1
	}
	fmt.Println("the recorded violation does not occur on this tree")
	return 0
}

func checkMain(args []string) int {
	fs := flag.NewFlagSet("check", flag.ExitOnError)
	prop := fs.String("prop", "", "property id")
	tier := fs.String("tier", "quick", "quick|thorough")
	evidence := fs.String("evidence", "", "evidence file to write")
	replays := fs.String("replays", "/verif/replays", "directory for replay files")
	known := fs.String("known", "/verif/known_findings.json", "known findings file")
	workers := fs.Int("workers", 0, "worker processes (default: cores)")
	only := fs.String("only", "", "restrict to scenarios whose name contains this")
	budget := fs.Int("budget", 0, "total wall seconds for exploration (default 60 quick / 600 thorough)")
	instr := fs.String("instr-stats", "", "JSON file with instrumentation counts")
	selfc := fs.String("selfcheck", "", "JSON file with the result of the instrumentation self-check")
	realf := fs.String("real", "", "JSON file with the result of the real-network runs (mcreal)")
	conff := fs.String("conform", "", "JSON file with the result of the environment conformance pass")
	fs.Parse(args)
	watchdogSetup() // (executions run in this process too: the determinism self-check)
	t0 := time.Now()
	seed := 0
	if s := os.Getenv("VERIF_SEED"); s != "" {
		seed, _ = strconv.Atoi(s)
	}
	var scs []*Scenario
	for _, s := range scenarios {
		if s.Prop == *prop && strings.Contains(s.Name, *only) {
			scs = append(scs, s)
		}
	}
	if len(scs) == 0 {
		fmt.Println("ENGINE-ERROR no scenarios for property", *prop)
		return 2
	}
	if *workers <= 0 {
		*workers = runtime.NumCPU()
	}
	total := *budget
	if total <= 0 {
		total = 60
		if *tier == "thorough" {
			total = 600
		}
	}
	// determinism self-check: the root schedule of every scenario twice
	for _, sc := range scs {
		a := runOne(sc, nil, false)
		b := runOne(sc, nil, false)
		if a.EngineEr != "" {
			fmt.Printf("ENGINE-ERROR %s: %s\n", sc.Name, a.EngineEr)
			return 2
		}
		if a.Res.TraceHash != b.Res.TraceHash || a.Outcome != b.Outcome || len(a.Points) != len(b.Points) {
			fmt.Printf("ENGINE-ERROR nondeterministic root execution in %s: %q vs %q\n", sc.Name, a.Outcome, b.Outcome)
			return 2
		}
	}
	p, err := newPool(*workers)
	if err != nil {
		fmt.Println("ENGINE-ERROR", err)
		return 2
	}
	defer p.close()
	var reports []*BoundReport
	engineErr := ""
	viol := map[string]*FoundViolation{} // key -> best
	violScenario := map[string]*BoundReport{}
	violCount := map[string]int64{}
	var samples []Sample
	// share the budget: scenarios with explicit budgets first
	explicit := 0
	nDefault := 0
	for _, sc := range scs {
		b := sc.BudgetQ
		if *tier == "thorough" {
			b = sc.BudgetT
		}
		if b > 0 {
			explicit += b
		} else {
			nDefault++
		}
	}
	for _, sc := range scs {
		bounds := sc.Quick
		bsec := sc.BudgetQ
		if *tier == "thorough" {
			bounds = sc.Thorough
			bsec = sc.BudgetT
			if len(bounds) == 0 {
				bounds = sc.Quick
			}
		}
		if bsec <= 0 {
			rest := total - explicit
			if rest < 10*nDefault {
				rest = 10 * nDefault
			}
			bsec = rest / nDefault
		}
		scDeadline := time.Now().Add(time.Duration(bsec) * time.Second)
		for _, b := range bounds {
			left := time.Until(scDeadline)
			if left < time.Second {
				reports = append(reports, &BoundReport{Scenario: sc.Name, D: b.D, F: b.F, Complete: false})
				continue
			}
			br := p.runBound(sc, b, left)
			reports = append(reports, br)
			if br.engineErr != "" && engineErr == "" {
				engineErr = br.engineErr
			}
			for k, v := range br.viol {
				if old := viol[k]; old == nil || v.Cost < old.Cost {
					viol[k] = v
					violScenario[k] = br
				}
			}
			for k, n := range br.violCount {
				violCount[k] += n
			}
			if len(samples) < 8 {
				samples = append(samples, br.samples...)
			}
			fmt.Printf("  %-40s d=%d f=%d executions=%d outcomes=%d hb=%d complete=%v %.1fs\n", sc.Name, b.D, b.F, br.Execs, br.Outcomes, br.DistinctH, br.Complete, br.WallS)
		}
	}
	if engineErr != "" {
		fmt.Println("ENGINE-ERROR", engineErr)
		return 2
	}
	// confirm every violation by replaying it 5 times
	var kf knownFile
	if b, err := os.ReadFile(*known); err == nil {
		if err := json.Unmarshal(b, &kf); err != nil {
			fmt.Println("ENGINE-ERROR known findings file:", err)
			return 2
		}
	}
	isKnown := func(key string) bool {
		for _, o := range kf.Open {
			if o.Property == *prop && o.Key == key {
				return true
			}
		}
		return false
	}
	keys := make([]string, 0, len(viol))
	for k := range viol {
		keys = append(keys, k)
	}
	sort.Strings(keys)
	exit := 0
	var newViol, knownSeen []string
	for _, k := range keys {
		v := viol[k]
		sc := findScenario(violScenario[k].Scenario)
		for i := 0; i < 5 && k != "hang/execution-never-ends"; i++ { // (that one has been seen twice in fresh workers; replaying it here would never end)
			rep := runOne(sc, v.Choices, false)
			ok := false
			for _, rv := range rep.Viol {
				if rv.Key == k {
					ok = true
				}
			}
			if !ok {
				fmt.Printf("ENGINE-ERROR violation %s of %s did not reproduce on replay %d (choices %v)\n", k, sc.Name, i, v.Choices)
				return 2
			}
		}
		if isKnown(k) {
			knownSeen = append(knownSeen, k)
			continue
		}
		newViol = append(newViol, k)
		rf := replayFile{Property: *prop, Scenario: sc.Name, D: violScenario[k].D, F: violScenario[k].F, Key: k, Msg: v.Msg, Outcome: v.Outcome, Choices: v.Choices}
		b, _ := json.MarshalIndent(rf, "", " ")
		h := sha1.Sum([]byte(sc.Name + k))
		os.MkdirAll(*replays, 0755)
		path := filepath.Join(*replays, fmt.Sprintf("%s-%x.json", *prop, h[:5]))
		os.WriteFile(path, b, 0644)
		fmt.Printf("violation key=%s scenario=%s executions=%d deviations=%d\n  %s\n", k, sc.Name, violCount[k], v.Cost, strings.ReplaceAll(v.Msg, "\n", "\n  "))
		fmt.Printf("VIOLATION property=%s replay=%s\n", *prop, path)
		exit = 1
	}
	for _, o := range kf.Open {
		if o.Property == *prop {
			seen := "not reproduced in this run"
			if n := violCount[o.Key]; n > 0 {
				seen = fmt.Sprintf("reproduced in %d executions", n)
			}
			fmt.Printf("KNOWN-FINDING: property=%s %s %s (%s)\n", *prop, o.Key, o.What, seen)
		}
	}
	// evidence
	var states, transitions, execs int64
	distinct := 0
	exhaustive := true
	for _, r := range reports {
		states += r.Points
		transitions += r.Steps
		execs += r.Execs
		if !r.Complete {
			exhaustive = false
		}
	}
	// distinct happens-before classes: per scenario take the largest bound explored
	best := map[string]int{}
	for _, r := range reports {
		if r.DistinctH > best[r.Scenario] || r.Execs > 0 && best[r.Scenario] == 0 {
			best[r.Scenario] = r.DistinctH
		}
	}
	for _, n := range best {
		distinct += n
	}
	var inputCases int64
	bestShapes := map[string]int{}
	for _, r := range reports {
		inputCases += r.Cases
		if r.NShapes > bestShapes[r.Scenario] {
			bestShapes[r.Scenario] = r.NShapes
		}
	}
	shapeClasses := 0
	for _, n := range bestShapes {
		shapeClasses += n
	}
	distinct += shapeClasses
	var warnings []string
	for _, sc := range scs {
		if _, ran := best[sc.Name]; !ran {
			continue
		}
		minHB := sc.MinHB
		if minHB == 0 {
			minHB = 2
		}
		if best[sc.Name] < minHB {
			warnings = append(warnings, fmt.Sprintf("scenario %s produced %d distinct happens-before classes (expected >= %d)", sc.Name, best[sc.Name], minHB))
		}
	}
	var instrStats map[string]int
	if *instr != "" {
		if b, err := os.ReadFile(*instr); err == nil {
			json.Unmarshal(b, &instrStats)
		}
	}
	var selfCheck map[string]interface{}
	if *selfc != "" {
		if b, err := os.ReadFile(*selfc); err == nil {
			json.Unmarshal(b, &selfCheck)
		}
	}
	var realRes, confRes map[string]interface{}
	if *realf != "" {
		if b, err := os.ReadFile(*realf); err == nil {
			json.Unmarshal(b, &realRes)
		}
	}
	if *conff != "" {
		if b, err := os.ReadFile(*conff); err == nil {
			json.Unmarshal(b, &confRes)
		}
	}
	if realRes != nil {
		if failed, _ := realRes["failed"].(float64); failed > 0 {
			// configurations that failed three attempts in fresh subprocesses
			var bad []interface{}
			if rs, ok := realRes["results"].([]interface{}); ok {
				for _, r := range rs {
					if m, ok := r.(map[string]interface{}); ok && m["ok"] != true {
						bad = append(bad, m)
					}
				}
			}
			b, _ := json.MarshalIndent(map[string]interface{}{"property": *prop, "kind": "real-network configurations whose transcript differs", "expected_transcript": realRes["expected_transcript"], "failing": bad, "rerun": "build /verif/real and run: mcreal one -cfg '<cfg>' -port 24000 -dir /var/tmp"}, "", " ")
			os.MkdirAll(*replays, 0755)
			path := filepath.Join(*replays, *prop+"-real-networks.json")
			os.WriteFile(path, b, 0644)
			fmt.Printf("violation key=%s/real-network-transcript: %d real-network configurations differ from the expected transcript\n", *prop, len(bad))
			fmt.Printf("VIOLATION property=%s replay=%s\n", *prop, path)
			newViol = append(newViol, *prop+"/real-network-transcript")
			exit = 1
		}
		delete(realRes, "results")
	}
	if len(samples) == 0 {
		samples = append(samples, Sample{Scenario: scs[0].Name, Outcome: "(no sample)"})
	}
	cov := map[string]interface{}{
		"states":                        states,
		"transitions":                   transitions,
		"traces_validated_against_impl": execs,
		"evaluations":                   execs + inputCases,
		"input_cases":                   inputCases,
		"distinct_shape_classes":        shapeClasses,
		"distinct_nontrivial":           distinct,
		"rule":                          "stateless depth-first enumeration of all choice sequences (thread schedule, select case, environment answer, driver alphabet) of each scenario within the stated deviation bounds (d = non-default scheduling choices, f = non-default environment answers; driver choices are enumerated completely); every execution runs the real instrumented hslam/rpc code to quiescence and is judged by the scenario oracle. states = decision points first reached by an execution, transitions = scheduled operations, distinct_nontrivial = distinct happens-before signatures (order-independent hash of (thread path, op index, object, object version) tuples, i.e. distinct Mazurkiewicz traces) summed over scenarios, plus (input-enumeration scenarios) the number of distinct shape classes (encoder x message kind x per-field length bucket x buffer class x outcome) of the enumerated input cases",
		"samples":                       samples,
		"exhaustive":                    exhaustive,
		"scenarios":                     reports,
		"known_findings_seen":           knownSeen,
		"new_violation_keys":            newViol,
		"vacuity_warnings":              warnings,
		"instrumentation":               instrStats,
		"workers":                       *workers,
		"instrumentation_selfcheck":     selfCheck,
		"real_networks":                 realRes,
		"environment_conformance":       confRes,
	}
	ev := map[string]interface{}{
		"property_id": *prop,
		"tier":        *tier,
		"seed":        seed,
		"level":       "model_checking",
		"coverage":    cov,
		"assumptions": assumptionsFor(*prop),
		"wall_s":      time.Since(t0).Seconds(),
		"violations":  len(newViol),
	}
	if *evidence != "" {
		b, _ := json.MarshalIndent(ev, "", " ")
		os.MkdirAll(filepath.Dir(*evidence), 0755)
		if err := os.WriteFile(*evidence, b, 0644); err != nil {
			fmt.Println("ENGINE-ERROR", err)
			return 2
		}
	}
	for _, w := range warnings {
		fmt.Println("WARNING", w)
	}
	fmt.Printf("property %s tier %s: executions=%d states=%d transitions=%d distinct_hb=%d exhaustive=%v violations=%d known=%d %.1fs\n", *prop, *tier, execs, states, transitions, distinct, exhaustive, len(newViol), len(knownSeen), time.Since(t0).Seconds())
	return exit
}

var commonAssumptions = []string{
	"code between two scheduling points (sync, sync/atomic when enabled, channel, select, go, time, environment I/O) runs atomically: unsynchronised data races and Go-memory-model effects are outside the model",
	"socket.Messages, socket.Socket/Listener, netpoll's serve loop and the clock are replaced by the harness environment model (message pipe / byte pipe / fake listener / virtual time); the real dependencies hslam/scheduler, hslam/buffer (and hslam/socket framing where used) run instrumented",
	"sync.Pool is a deterministic LIFO stack that poisons recycled []byte; pool misses are not explored unless a scenario says so",
	"bounds: only the thread counts, operation counts and payload alphabets of the listed scenarios; deviations beyond the stated d/f are not explored",
}

func assumptionsFor(prop string) []string {
	return commonAssumptions
}
