package main

import (
	"fmt"

	"github.com/hslam/rpc"
	vs "verif/shim/vsync"
)

// C09 — streams deliver every message exactly once, in order, to the right stream.
//
// 1-2 streams on one connection; the handler pushes p messages immediately after open and then
// echoes; the client writes m messages before or after reading the pushes; a unary call and a
// ping run alongside.  Every message carries (stream id, index).

type streamRun struct {
	id      byte
	got     [][]byte
	wrote   [][]byte
	errs    []string
	fin     bool
	openErr error
}

func streamMsg(id byte, j int) []byte { return mkPayload(id, byte(j), 6+3*j+int(id)) }

func pushMsg(i int) []byte { return []byte{0xEE, byte(i), 0xEE, byte(i)} }

func (r *streamRun) run(conn *rpc.Conn, w *World, m int, writeFirst bool) {
	defer func() { r.fin = true }()
	st, err := conn.NewStream("StreamSvc.Push")
	if err != nil {
		r.openErr = err
		return
	}
	read := func(n int) bool {
		for i := 0; i < n; i++ {
			var b []byte
			if err := st.ReadMessage(nil, &b); err != nil {
				r.errs = append(r.errs, "read: "+err.Error())
				return false
			}
			r.got = append(r.got, append([]byte(nil), b...))
		}
		return true
	}
	write := func() bool {
		for j := 0; j < m; j++ {
			msg := streamMsg(r.id, j)
			if err := st.WriteMessage(&msg); err != nil {
				r.errs = append(r.errs, "write: "+err.Error())
				return false
			}
			r.wrote = append(r.wrote, msg)
		}
		return true
	}
	if writeFirst {
		if !write() || !read(w.pushN+m) {
			return
		}
	} else {
		if !read(w.pushN) || !write() || !read(m) {
			return
		}
	}
	if err := st.Close(); err != nil {
		r.errs = append(r.errs, "close: "+err.Error())
	}
}

func (r *streamRun) judge(x *X, w *World, m int, label string) string {
	if !r.fin {
		x.Fail("C09/client-blocked/"+label, "the client of stream %d is blocked forever (received %d messages so far: %x)", r.id, len(r.got), r.got)
		return fmt.Sprintf("s%d:blocked(%d)", r.id, len(r.got))
	}
	if r.openErr != nil {
		x.Fail("C09/open-failed/"+label, "NewStream failed: %v", r.openErr)
		return "openerr"
	}
	var want [][]byte
	for i := 0; i < w.pushN; i++ {
		want = append(want, pushMsg(i))
	}
	for j := 0; j < m; j++ {
		want = append(want, transform(streamMsg(r.id, j)))
	}
	if fmt.Sprintf("%x", r.got) != fmt.Sprintf("%x", want) || len(r.errs) > 0 {
		x.Fail("C09/client-sequence/"+label, "stream %d: the client read %x (errors %v), the server wrote %x", r.id, r.got, r.errs, want)
		return fmt.Sprintf("s%d:BAD", r.id)
	}
	return fmt.Sprintf("s%d:ok", r.id)
}

func c09Body(nstreams int, modes []sysMode) func(x *X) {
	return func(x *X) {
		mode := modes[x.Choose(len(modes))]
		push := x.Choose(3)
		m := 1 + x.Choose(2)
		writeFirst := x.Choose(2) == 1
		s := newSys(mode, srvOpts{bufSize: 64}, cliOpts{bufSize: 64})
		s.w.pushN = push
		var runs []*streamRun
		for k := 0; k < nstreams; k++ {
			r := &streamRun{id: byte(0x31 + k)}
			runs = append(runs, r)
			vs.GoNamed(fmt.Sprintf("stream%d", k), func() { r.run(s.conn, s.w, m, writeFirst) })
		}
		u := newUcall(0x11, 0, 70, formCall)
		u.spawn(s.conn)
		p := newUcall(0x12, 0, 0, formPing)
		p.spawn(s.conn)
		vs.Quiesce()
		out := fmt.Sprintf("%s push=%d m=%d wf=%v", mode.name, push, m, writeFirst)
		for _, r := range runs {
			out += " " + r.judge(x, s.w, m, "")
		}
		out += c01Check(x, []*ucall{u}, "unary-next-to-streams")
		if !u.ret || u.err != nil || !p.ret || p.err != nil {
			x.Fail("C09/unary-disturbed", "unary call: returned=%v err=%v; ping: returned=%v err=%v", u.ret, u.err, p.ret, p.err)
		}
		// the server side: every handler read exactly what its client wrote, in order
		for _, r := range runs {
			if r.fin && len(r.errs) == 0 && r.openErr == nil {
				got := s.w.streamLog[r.id]
				var want []string
				for _, b := range r.wrote {
					want = append(want, fmt.Sprintf("%x", b))
				}
				if fmt.Sprint(got) != fmt.Sprint(want) {
					x.Fail("C09/server-sequence", "stream %d: the handler read %v, the client wrote %v", r.id, got, want)
				}
			}
		}
		x.Outcome("%s", out)
		s.finish()
	}
}

func init() {
	register(&Scenario{Prop: "C09", Name: "c09/1stream-servecodec", Quick: []Bound{{1, 0}, {2, 0}}, Thorough: []Bound{{3, 0}}, Body: c09Body(1, sysModes[:1])})
	register(&Scenario{Prop: "C09", Name: "c09/1stream-poll2", Quick: []Bound{{1, 0}}, Thorough: []Bound{{2, 0}}, Body: c09Body(1, sysModes[3:])})
	register(&Scenario{Prop: "C09", Name: "c09/1stream-allmodes", Quick: []Bound{{1, 0}}, Thorough: []Bound{{2, 0}}, Body: c09Body(1, sysModes)})
	register(&Scenario{Prop: "C09", Name: "c09/2streams", Quick: []Bound{{1, 0}}, Thorough: []Bound{{2, 0}}, Body: c09Body(2, sysModes)})
}
