package main

import (
	"fmt"
	"time"
	vt "verif/shim/vtime"

	"github.com/hslam/rpc"
	vs "verif/shim/vsync"
)

// C09 — streams deliver every message exactly once, in order, to the right stream.
//
// 1-2 streams on one connection; the handler pushes p messages immediately after open and then
// echoes; the client writes m messages before or after reading the pushes; a unary call and a
// ping run alongside.  Every message carries (stream id, index).

type streamRun struct {
	id       byte
	got      [][]byte
	wrote    [][]byte
	errs     []string
	fin      bool
	openErr  error
	badFirst bool
}

func streamMsg(id byte, j int) []byte { return mkPayload(id, byte(j), 6+3*j+int(id)) }

func pushMsg(i int) []byte { return []byte{0xEE, byte(i), 0xEE, byte(i)} }

func (r *streamRun) run(conn *rpc.Conn, w *World, m int, writeFirst bool) {
	defer func() { r.fin = true }()
	st, err := conn.NewStream("StreamSvc.Push")
	if err != nil {
		r.openErr = err
		return
	}
	if r.badFirst {
		// a value the body codec cannot encode: this write fails locally, the stream itself is not affected
		bad := 42
		st.WriteMessage(&bad)
	}
	read := func(n int) bool {
		for i := 0; i < n; i++ {
			var b []byte
			if err := st.ReadMessage(nil, &b); err != nil {
				r.errs = append(r.errs, "read: "+err.Error())
				return false
			}
			r.got = append(r.got, append([]byte(nil), b...))
		}
		return true
	}
	write := func() bool {
		for j := 0; j < m; j++ {
			msg := streamMsg(r.id, j)
			if err := st.WriteMessage(&msg); err != nil {
				r.errs = append(r.errs, "write: "+err.Error())
				return false
			}
			r.wrote = append(r.wrote, msg)
		}
		return true
	}
	if writeFirst {
		if !write() || !read(w.pushN+m) {
			return
		}
	} else {
		if !read(w.pushN) || !write() || !read(m) {
			return
		}
	}
	if err := st.Close(); err != nil {
		r.errs = append(r.errs, "close: "+err.Error())
	}
}

func (r *streamRun) judge(x *X, w *World, m int, label string) string {
	if !r.fin {
		x.Fail("C09/client-blocked/"+label, "the client of stream %d is blocked forever (received %d messages so far: %x)", r.id, len(r.got), r.got)
		return fmt.Sprintf("s%d:blocked(%d)", r.id, len(r.got))
	}
	if r.openErr != nil {
		x.Fail("C09/open-failed/"+label, "NewStream failed: %v", r.openErr)
		return "openerr"
	}
	var want [][]byte
	for i := 0; i < w.pushN; i++ {
		want = append(want, pushMsg(i))
	}
	for j := 0; j < m; j++ {
		want = append(want, transform(streamMsg(r.id, j)))
	}
	if fmt.Sprintf("%x", r.got) != fmt.Sprintf("%x", want) || len(r.errs) > 0 {
		x.Fail("C09/client-sequence/"+label, "stream %d: the client read %x (errors %v), the server wrote %x", r.id, r.got, r.errs, want)
		return fmt.Sprintf("s%d:BAD", r.id)
	}
	return fmt.Sprintf("s%d:ok", r.id)
}

func c09Body(nstreams int, modes []sysMode) func(x *X) { return c09BodyR(nstreams, modes, false) }

func c09BodyR(nstreams int, modes []sysMode, reduced bool) func(x *X) {
	return func(x *X) {
		mode := modes[x.Choose(len(modes))]
		push := x.Choose(3)
		m := 1 + x.Choose(2)
		writeFirst := x.Choose(2) == 1
		srvPipe, gatedUnary := false, false
		if !reduced {
			srvPipe = x.Choose(2) == 1    // server pipelining
			gatedUnary = x.Choose(2) == 1 // a unary call is executing while the streams are opened and used
		}
		s := newSys(mode, srvOpts{bufSize: 64, pipelining: srvPipe}, cliOpts{bufSize: 64})
		s.w.pushN = push
		flags := byte(0)
		if gatedUnary {
			flags = fGate
		}
		u := newUcall(0x11, flags, 70, formCall)
		u.spawn(s.conn)
		if gatedUnary {
			vs.Quiesce()
		}
		var runs []*streamRun
		bad := !reduced && x.Choose(2) == 1
		for k := 0; k < nstreams; k++ {
			r := &streamRun{id: byte(0x31 + k), badFirst: bad && k == 0}
			runs = append(runs, r)
			vs.GoNamed(fmt.Sprintf("stream%d", k), func() { r.run(s.conn, s.w, m, writeFirst) })
		}
		p := newUcall(0x12, 0, 0, formPing)
		p.spawn(s.conn)
		vs.Quiesce()
		out := fmt.Sprintf("%s push=%d m=%d wf=%v pipe=%v gated=%v", mode.name, push, m, writeFirst, srvPipe, gatedUnary)
		for _, r := range runs {
			out += " " + r.judge(x, s.w, m, "")
		}
		if gatedUnary {
			s.w.open(0x11)
			vs.Quiesce()
		}
		out += c01Check(x, []*ucall{u}, "unary-next-to-streams")
		if !u.ret || u.err != nil || !p.ret || p.err != nil {
			x.Fail("C09/unary-disturbed", "unary call: returned=%v err=%v; ping: returned=%v err=%v", u.ret, u.err, p.ret, p.err)
		}
		// the server side: every handler read exactly what its client wrote, in order
		for _, r := range runs {
			if r.fin && len(r.errs) == 0 && r.openErr == nil {
				got := s.w.streamLog[r.id]
				var want []string
				for _, b := range r.wrote {
					want = append(want, fmt.Sprintf("%x", b))
				}
				if fmt.Sprint(got) != fmt.Sprint(want) {
					x.Fail("C09/server-sequence", "stream %d: the handler read %v, the client wrote %v", r.id, got, want)
				}
			}
		}
		x.Outcome("%s", out)
		s.finish()
	}
}

// waves: the driver itself runs every sequence of L operations over {write, read, let the system
// settle} on one stream, so that the receive queues reach every depth and are refilled while
// partly drained.
func c09Waves(L int, modes []sysMode) func(x *X) {
	return func(x *X) {
		mode := modes[x.Choose(len(modes))]
		push := x.Choose(2) * 2
		s := newSys(mode, srvOpts{bufSize: 64}, cliOpts{bufSize: 64})
		s.w.pushN = push
		st, err := s.conn.NewStream("StreamSvc.Push")
		if err != nil {
			x.Fail("C09/open-failed/waves", "NewStream: %v", err)
			return
		}
		var want, got [][]byte
		for i := 0; i < push; i++ {
			want = append(want, pushMsg(i))
		}
		nw := 0
		ops := ""
		for i := 0; i < L; i++ {
			op := x.Choose(3)
			if op == 1 && len(got) >= len(want) {
				op = 2 // nothing can arrive: a read would block forever
			}
			switch op {
			case 0:
				msg := streamMsg(0x31, nw)
				nw++
				if e := st.WriteMessage(&msg); e != nil {
					x.Fail("C09/write-failed/waves", "WriteMessage: %v", e)
				}
				want = append(want, transform(msg))
				ops += "W"
			case 1:
				var b []byte
				if e := st.ReadMessage(nil, &b); e != nil {
					x.Fail("C09/read-failed/waves", "ReadMessage: %v", e)
				}
				got = append(got, append([]byte(nil), b...))
				ops += "R"
			case 2:
				vs.Quiesce()
				ops += "."
			}
		}
		for len(got) < len(want) {
			var b []byte
			if e := st.ReadMessage(nil, &b); e != nil {
				x.Fail("C09/read-failed/waves", "ReadMessage: %v", e)
				break
			}
			got = append(got, append([]byte(nil), b...))
		}
		if fmt.Sprintf("%x", got) != fmt.Sprintf("%x", want) {
			x.Fail("C09/client-sequence/waves", "operations %s (push %d): the client read %x, the server wrote %x", ops, push, got, want)
		}
		st.Close()
		x.Outcome("%s push=%d %s", mode.name, push, ops)
		s.finish()
	}
}

func init() {
	register(&Scenario{Prop: "C09", Name: "c09/1stream-servecodec", Quick: []Bound{{1, 0}}, Thorough: []Bound{{2, 0}, {3, 0}}, Body: c09Body(1, sysModes[:1]), BudgetT: 300})
	register(&Scenario{Prop: "C09", Name: "c09/1stream-servecodec-basic", Quick: []Bound{{2, 0}}, Thorough: []Bound{{3, 0}}, Body: c09BodyR(1, sysModes[:1], true), BudgetQ: 25})
	register(&Scenario{Prop: "C09", Name: "c09/1stream-poll2", Quick: []Bound{{1, 0}}, Thorough: []Bound{{2, 0}}, Body: c09Body(1, sysModes[3:])})
	register(&Scenario{Prop: "C09", Name: "c09/1stream-allmodes", Quick: []Bound{{1, 0}}, Thorough: []Bound{{2, 0}}, Body: c09Body(1, sysModes)})
	register(&Scenario{Prop: "C09", Name: "c09/waves-L6", Quick: []Bound{{0, 0}, {1, 0}}, Thorough: []Bound{{2, 0}}, Body: c09Waves(6, []sysMode{sysModes[0], sysModes[3]}), BudgetQ: 30})
	register(&Scenario{Prop: "C09", Name: "c09/waves-L8", Quick: []Bound{}, Thorough: []Bound{{0, 0}, {1, 0}}, Body: c09Waves(8, sysModes[:1]), BudgetT: 200})
	register(&Scenario{Prop: "C09", Name: "c09/2streams", Quick: []Bound{{1, 0}}, Thorough: []Bound{{2, 0}}, Body: c09Body(2, sysModes), BudgetQ: 25})
}

// deep backlogs: the receiver consumes k messages, then falls behind until b messages are
// unread at once (on the server while the handler is held, then on the client), then catches up.
// Optionally every third message is empty (a BYTES value of length 0 is a legal message).
func c09Backlog(modes []sysMode) func(x *X) {
	return func(x *X) {
		mode := modes[x.Choose(len(modes))]
		k := x.Choose(10)
		b := []int{9, 10, 17, 20, 40, 70, 130}[x.Choose(7)]
		withEmpty := x.Choose(2) == 1
		cliDio := x.Choose(2) == 1
		s := newSys(mode, srvOpts{bufSize: 64}, cliOpts{bufSize: 64, directIO: cliDio})
		st, err := s.conn.NewStream("StreamSvc.Push")
		if err != nil {
			x.Fail("C09/open-failed/backlog", "NewStream: %v", err)
			return
		}
		var want, got [][]byte
		n := 0
		write := func() {
			msg := streamMsg(0x31, n%7)
			msg[1] = byte(n) // every message distinct
			if withEmpty && n%3 == 1 {
				msg = []byte{}
			}
			n++
			if e := st.WriteMessage(&msg); e != nil {
				x.Fail("C09/write-failed/backlog", "WriteMessage: %v", e)
			}
			want = append(want, transform(msg))
		}
		read := func() bool {
			var m []byte
			if e := st.ReadMessage(nil, &m); e != nil {
				x.Fail("C09/read-failed/backlog", "ReadMessage: %v", e)
				return false
			}
			got = append(got, append([]byte(nil), m...))
			return true
		}
		for i := 0; i < k; i++ {
			write()
			if !read() {
				return
			}
		}
		s.w.streamHold = true
		for i := 0; i < b; i++ {
			write()
		}
		vs.Quiesce() // b-1 messages wait in the server-side queue behind the held handler
		s.w.streamHold = false
		vs.Quiesce() // b echoes wait in the client-side queue
		for len(got) < len(want) {
			if !read() {
				break
			}
		}
		if fmt.Sprintf("%x", got) != fmt.Sprintf("%x", want) {
			x.Fail("C09/client-sequence/backlog", "%d messages consumed one by one, then %d piled up (empty messages: %v): the client read %x, expected %x", k, b, withEmpty, got, want)
		}
		st.Close()
		x.Outcome("%s k=%d b=%d empty=%v dio=%v", mode.name, k, b, withEmpty, cliDio)
		s.finish()
	}
}

func init() {
	register(&Scenario{Prop: "C09", Name: "c09/backlog", Quick: []Bound{{0, 0}}, Thorough: []Bound{{1, 0}}, Body: c09Backlog([]sysMode{sysModes[0], sysModes[3]}), BudgetQ: 20, BudgetT: 200, MaxSteps: 400000})
	// the same closed system judged for crashes only (C08: well-formed stream traffic, however much of it is unread, crashes nobody)
	register(&Scenario{Prop: "C08", Name: "c08/stream-backlog", Quick: []Bound{{0, 0}}, Thorough: []Bound{{1, 0}}, Body: c09Backlog([]sysMode{sysModes[0], sysModes[3]}), BudgetQ: 20, BudgetT: 200, MaxSteps: 400000, OnlyKeys: []string{"panic/", "livelock/"}})
	register(&Scenario{Prop: "C09", Name: "c09/two-readers", Quick: []Bound{{1, 0}, {2, 0}}, Thorough: []Bound{{3, 0}}, Body: twoReaders("C09"), BudgetQ: 15})
	register(&Scenario{Prop: "C10", Name: "c10/two-readers", Quick: []Bound{{1, 0}, {2, 0}}, Thorough: []Bound{{3, 0}}, Body: twoReaders("C10"), BudgetQ: 15})
	register(&Scenario{Prop: "C03", Name: "c03/two-stream-readers", Quick: []Bound{{1, 0}}, Thorough: []Bound{{3, 0}}, Body: twoReaders("C03"), OnlyKeys: []string{"C03/", "panic/", "livelock/"}, BudgetQ: 15})
}

// two goroutines read from the same end of a stream (Stream is documented as usable from several
// goroutines like the connection itself): two messages arriving back to back reach one reader
// each (C09); when the stream is closed, the connection is closed or the peer disappears, every
// blocked reader returns (C10).  The server handler does the same with two readers of its own.
func twoReaders(prop string) func(x *X) {
	return func(x *X) {
		end := 0 // how the stream ends: Stream.Close / Conn.Close / the peer disappears
		if prop == "C03" {
			end = 1 + x.Choose(2)
		} else {
			end = x.Choose(3)
		}
		f := newFixture(srvOpts{bufSize: 64}, cliOpts{bufSize: 64})
		st, err := f.conn.NewStream("StreamSvc.Push")
		if err != nil {
			x.Fail(prop+"/open-failed/two-readers", "NewStream: %v", err)
			return
		}
		type rd struct {
			m   []byte
			err error
			ret bool
		}
		spawn := func(name string) *rd {
			r := &rd{}
			vs.GoNamed(name, func() {
				r.err = st.ReadMessage(nil, &r.m)
				r.m = append([]byte(nil), r.m...)
				r.ret = true
			})
			return r
		}
		single := prop != "C09" && x.Choose(2) == 1 // one message for two blocked readers: one of them stays blocked when the stream ends
		r1, r2 := spawn("reader1"), spawn("reader2")
		vs.QuiesceKeep()
		m1, m2 := streamMsg(0x31, 0), streamMsg(0x31, 1)
		st.WriteMessage(&m1)
		if single {
			vs.Quiesce()
			if r1.ret == r2.ret {
				x.Outcome("end=%d single: %v %v", end, r1.ret, r2.ret)
				f.conn.Close()
				vs.Quiesce()
				return
			}
			left := r1
			if r1.ret {
				left = r2
			}
			switch end {
			case 0:
				vs.GoNamed("closer", func() { st.Close() })
			case 1:
				vs.GoNamed("closer", func() { f.conn.Close() })
			case 2:
				vs.GoNamed("closer", func() { f.sv.Close() })
			}
			vs.Quiesce()
			how := []string{"Stream.Close", "Conn.Close", "peer-EOF"}[end]
			if !left.ret {
				if prop == "C03" {
					x.Fail("C03/stream-reader-hangs/two-readers-one-message", "two goroutines were blocked in ReadMessage on one stream, one message arrived and was taken by one of them, then the connection ended (%s): the other reader is still blocked", how)
				} else {
					x.Fail("C10/client-reader-blocked/two-readers-one-message", "two readers were blocked on one stream, one message arrived and was taken by one of them, then the stream ended (%s): the other reader is still blocked", how)
				}
			}
			if prop == "C10" && f.w.streamsEx != f.w.streamsIn {
				x.Fail("C10/handler-blocked/two-readers-one-message", "%d stream handlers entered, %d returned after the stream ended", f.w.streamsIn, f.w.streamsEx)
			}
			x.Outcome("end=%d single left=%v", end, left.ret)
			f.conn.Close()
			vs.Quiesce()
			return
		}
		st.WriteMessage(&m2)
		vs.Quiesce()
		if prop == "C09" {
			switch {
			case !r1.ret || !r2.ret:
				x.Fail("C09/client-blocked/two-readers", "two readers were blocked on one stream and two messages arrived: reader 1 returned=%v, reader 2 returned=%v", r1.ret, r2.ret)
			case r1.err != nil || r2.err != nil:
				x.Fail("C09/read-failed/two-readers", "readers returned %v / %v", r1.err, r2.err)
			case !(eqBytes(r1.m, transform(m1)) && eqBytes(r2.m, transform(m2)) || eqBytes(r1.m, transform(m2)) && eqBytes(r2.m, transform(m1))):
				x.Fail("C09/client-sequence/two-readers", "the two readers got %x and %x, the server wrote %x and %x", r1.m, r2.m, transform(m1), transform(m2))
			}
		}
		if !r1.ret || !r2.ret {
			x.Outcome("end=%d first-round-incomplete", end)
			f.conn.Close()
			vs.Quiesce()
			return
		}
		// second round: both block again, then the stream ends
		r3, r4 := spawn("reader3"), spawn("reader4")
		vs.QuiesceKeep()
		switch end {
		case 0:
			vs.GoNamed("closer", func() { st.Close() })
		case 1:
			vs.GoNamed("closer", func() { f.conn.Close() })
		case 2:
			vs.GoNamed("closer", func() { f.sv.Close() })
		}
		vs.Quiesce()
		if prop == "C03" {
			for i, r := range []*rd{r3, r4} {
				if !r.ret {
					x.Fail("C03/stream-reader-hangs/two-readers", "two goroutines were blocked in ReadMessage on one stream when the connection ended (%s): reader %d is still blocked", []string{"Stream.Close", "Conn.Close", "peer-EOF"}[end], i+1)
				}
			}
		}
		if prop == "C10" {
			for i, r := range []*rd{r3, r4} {
				if !r.ret {
					x.Fail("C10/client-reader-blocked/two-readers", "two readers were blocked on one stream when it ended (%s): reader %d is still blocked", []string{"Stream.Close", "Conn.Close", "peer-EOF"}[end], i+1)
				} else if r.err == nil {
					x.Fail("C10/reader-outcome/two-readers", "a reader blocked when the stream ended returned no error")
				}
			}
			if f.w.streamsEx != f.w.streamsIn {
				x.Fail("C10/handler-blocked/two-readers", "%d stream handlers entered, %d returned after the stream ended", f.w.streamsIn, f.w.streamsEx)
			}
		}
		x.Outcome("end=%d %v %v %v %v", end, r1.ret, r2.ret, r3.ret, r4.ret)
		f.conn.Close()
		vs.Quiesce()
	}
}

// user code that is slow while the stream is being connected (SetStream.Connect takes three
// seconds of virtual time, the detector period of every timer-driven housekeeping the library and
// its queues might have), then ordinary traffic: each message written afterwards is echoed, in
// order, without needing a later message to push it along.
func c09SlowConnect(x *X) {
	so := srvOpts{bufSize: 64}
	if x.Choose(2) == 1 {
		so.pipelining = true
	}
	pause := x.Choose(2) == 1 // a pause between the messages
	f := newFixture(so, cliOpts{bufSize: 64})
	held := true
	ssConnectGate = func() {
		if held {
			vs.Block("user Connect callback is slow", func() bool { return !held })
		}
	}
	defer func() { ssConnectGate = nil }()
	var st rpc.Stream
	var err error
	opened := false
	vs.GoNamed("opener", func() { st, err = f.conn.NewStream("StreamSvc.Push"); opened = true })
	for i := 0; i < 30; i++ {
		vt.Advance(100 * time.Millisecond)
		vs.Quiesce()
	}
	held = false
	vs.Quiesce()
	if !opened || err != nil {
		x.Fail("C09/open-failed/slow-connect", "NewStream returned=%v err=%v after a slow Connect callback", opened, err)
		f.conn.Close()
		vs.Quiesce()
		return
	}
	var got [][]byte
	vs.GoNamed("reader", func() {
		for {
			var m []byte
			if st.ReadMessage(nil, &m) != nil {
				return
			}
			got = append(got, append([]byte(nil), m...))
		}
	})
	n := 4
	for j := 0; j < n; j++ {
		m := streamMsg(0x31, j)
		st.WriteMessage(&m)
		vs.Quiesce()
		if pause {
			vt.Advance(200 * time.Millisecond)
			vs.Quiesce()
		}
		if len(got) != j+1 {
			x.Fail("C09/client-blocked/slow-connect", "after a Connect callback that took 3 s, message %d was written and the connection went quiet: %d echoes have arrived, want %d", j, len(got), j+1)
			break
		}
	}
	for j, m := range got {
		if j < n && !eqBytes(m, transform(streamMsg(0x31, j))) {
			x.Fail("C09/client-sequence/slow-connect", "echo %d is not the echo of message %d (got %x)", j, j, m)
			break
		}
	}
	x.Outcome("pipelining=%v pause=%v echoes=%d", so.pipelining, pause, len(got))
	f.conn.Close()
	vs.Quiesce()
}

// NewStream with a name the server cannot resolve (no dot, empty, leading / trailing dot, unknown
// service, unknown method, a unary method) while the connection's first stream (sequence number 0)
// and a second one are open: the refused opens return errors, the open streams go on echoing in
// order, their handlers are still running.
var c09BadNames = []string{"nodot", "", ".", ".Push", "StreamSvc.", "Nope.Push", "StreamSvc.Nope", "Svc.Echo", "StreamSvc.Push.x"}

func c09RefusedOpens(x *X) {
	so := srvOpts{bufSize: 64}
	if x.Choose(2) == 1 {
		so.pipelining = true
	}
	rot := x.Choose(len(c09BadNames))
	f := newFixture(so, cliOpts{bufSize: 64})
	st0, err0 := f.conn.NewStream("StreamSvc.Push")
	st1, err1 := f.conn.NewStream("StreamSvc.Push")
	if err0 != nil || err1 != nil {
		x.Fail("C09/open-failed/refused-opens", "NewStream: %v / %v", err0, err1)
		return
	}
	type rd struct{ got [][]byte }
	read := func(name string, st rpc.Stream) *rd {
		r := &rd{}
		vs.GoNamed(name, func() {
			for {
				var m []byte
				if st.ReadMessage(nil, &m) != nil {
					return
				}
				r.got = append(r.got, append([]byte(nil), m...))
			}
		})
		return r
	}
	r0, r1 := read("reader0", st0), read("reader1", st1)
	sent := 0
	roundTrip := func(label string) bool {
		a, b := streamMsg(0x31, sent), streamMsg(0x32, sent)
		st0.WriteMessage(&a)
		st1.WriteMessage(&b)
		vs.Quiesce()
		sent++
		for i, r := range []*rd{r0, r1} {
			if len(r.got) != sent {
				x.Fail("C09/client-blocked/refused-opens", "%s: stream %d (opened by the connection's frame number %d) has delivered %d echoes of %d messages", label, i, i, len(r.got), sent)
				return false
			}
			if !eqBytes(r.got[sent-1], transform(streamMsg(byte(0x31+i), sent-1))) {
				x.Fail("C09/client-sequence/refused-opens", "%s: stream %d echo %d is %x", label, i, sent-1, r.got[sent-1])
				return false
			}
		}
		return true
	}
	ok := roundTrip("before any refused open")
	for i := 0; ok && i < 3; i++ {
		name := c09BadNames[(rot+i)%len(c09BadNames)]
		var st rpc.Stream
		var err error
		ret := false
		vs.GoNamed(fmt.Sprintf("opener%d", i), func() { st, err = f.conn.NewStream(name); ret = true })
		vs.Quiesce()
		if !ret {
			x.Fail("C09/refused-open-hangs", "NewStream(%q) did not return", name)
			break
		}
		if err == nil && name != "Svc.Echo" { // (a stream open that names a unary method is acknowledged and runs nothing)
			x.Fail("C09/refused-open-succeeds", "NewStream(%q) returned a stream (%v) and no error", name, st != nil)
		}
		if f.w.streamsEx != 0 {
			x.Fail("C09/handler-ended/refused-opens", "after NewStream(%q) was refused, %d of the %d running stream handlers have returned", name, f.w.streamsEx, f.w.streamsIn)
			break
		}
		ok = roundTrip(fmt.Sprintf("after NewStream(%q) was refused", name))
	}
	x.Outcome("pipelining=%v rot=%d sent=%d in=%d ex=%d", so.pipelining, rot, sent, f.w.streamsIn, f.w.streamsEx)
	f.conn.Close()
	vs.Quiesce()
}

func init() {
	register(&Scenario{Prop: "C09", Name: "c09/slow-connect-callback", Quick: []Bound{{0, 0}}, Thorough: []Bound{{1, 0}}, Body: c09SlowConnect, BudgetQ: 15, BudgetT: 100, MaxSteps: 200000, MinHB: 1})
	register(&Scenario{Prop: "C09", Name: "c09/refused-opens-next-to-open-streams", Quick: []Bound{{0, 0}}, Thorough: []Bound{{1, 0}}, Body: c09RefusedOpens, BudgetQ: 15, BudgetT: 100, MinHB: 1})
}

// buffer sizes that are not size classes of the buffer pool (1000: the pooled buffer holds 1024;
// 5000: 8192) and stream messages whose frames fall between the configured size and the pooled
// capacity, piling up unread on either side: every message is delivered once, in order, intact.
func c09OddBuffers(x *X) {
	buf := []int{1000, 5000, 100}[x.Choose(3)]
	base := map[int]int{1000: 960, 5000: 4960, 100: 70}[buf]
	off := x.Choose(9) * 8 // message sizes base+off .. : frames around the configured size and up to the pooled capacity
	dio := x.Choose(2) == 1
	cliDio := x.Choose(2) == 1
	so := srvOpts{bufSize: buf, directIO: dio}
	f := newFixture(so, cliOpts{bufSize: buf, directIO: cliDio})
	st, err := f.conn.NewStream("StreamSvc.Push")
	if err != nil {
		x.Fail("C09/open-failed/odd-buffers", "NewStream: %v", err)
		return
	}
	var want [][]byte
	f.w.streamHold = true
	for i := 0; i < 4; i++ {
		n := base + off + i
		if i == 2 {
			n = 12 // a short one between them
		}
		msg := mkPayload(0x31, byte(i), n)
		for j := 2; j < len(msg); j++ {
			msg[j] = byte(j*7+i*31) | 1
		}
		if e := st.WriteMessage(&msg); e != nil {
			x.Fail("C09/write-failed/odd-buffers", "WriteMessage: %v", e)
		}
		want = append(want, transform(msg))
		vs.Quiesce()
	}
	f.w.streamHold = false
	vs.Quiesce()
	var got [][]byte
	for len(got) < len(want) {
		var m []byte
		ret := false
		var e error
		vs.GoNamed("reader", func() { e = st.ReadMessage(nil, &m); ret = true })
		vs.Quiesce()
		if !ret || e != nil {
			x.Fail("C09/client-blocked/odd-buffers", "buffer size %d, messages of %d.. bytes: echo %d of %d: returned=%v err=%v", buf, base+off, len(got), len(want), ret, e)
			break
		}
		got = append(got, append([]byte(nil), m...))
	}
	for i := range got {
		if !eqBytes(got[i], want[i]) {
			x.Fail("C09/client-sequence/odd-buffers", "server and client buffer size %d (not a size of the buffer pool), messages of %d, %d, 12, %d bytes written while the handler was busy: echo %d (%d bytes) is not the echo of message %d (first bytes %x, want %x)", buf, base+off, base+off+1, base+off+3, i, len(got[i]), i, clipBytes(got[i], 8), clipBytes(want[i], 8))
			break
		}
	}
	x.Outcome("buf=%d off=%d dio=%v/%v got=%d", buf, off, dio, cliDio, len(got))
	st.Close()
	f.conn.Close()
	vs.Quiesce()
}

func init() {
	register(&Scenario{Prop: "C09", Name: "c09/odd-buffer-sizes", Quick: []Bound{{0, 0}}, Thorough: []Bound{{1, 0}}, Body: c09OddBuffers, BudgetQ: 20, BudgetT: 200, MaxSteps: 400000, MinHB: 1})
}

// the receive queue of a stream is drained partly between two bursts (p1 messages pile up, r of
// them are read, p2 more pile up, then everything is read): whatever the queue does when it wraps,
// grows or shrinks, the messages come out once and in order.  Both directions (the handler's queue
// behind a busy handler, the client's queue behind a reader that pauses).
func c09PartialDrain(x *X) {
	p1 := []int{10, 17, 33}[x.Choose(3)]
	r := []int{1, 5, 9}[x.Choose(3)]
	p2 := []int{12, 20, 40}[x.Choose(3)]
	cliDio := x.Choose(2) == 1
	f := newFixture(srvOpts{bufSize: 64}, cliOpts{bufSize: 64, directIO: cliDio})
	st, err := f.conn.NewStream("StreamSvc.Push")
	if err != nil {
		x.Fail("C09/open-failed/partial-drain", "NewStream: %v", err)
		return
	}
	var want, got [][]byte
	n := 0
	write := func(k int) {
		for i := 0; i < k; i++ {
			msg := streamMsg(0x31, n%7)
			msg[1] = byte(n)
			n++
			if e := st.WriteMessage(&msg); e != nil {
				x.Fail("C09/write-failed/partial-drain", "WriteMessage: %v", e)
			}
			want = append(want, transform(msg))
		}
		vs.Quiesce()
	}
	read := func(k int) bool {
		for i := 0; i < k; i++ {
			var m []byte
			ret := false
			var e error
			vs.GoNamed("reader", func() { e = st.ReadMessage(nil, &m); ret = true })
			vs.Quiesce()
			if !ret || e != nil {
				x.Fail("C09/client-blocked/partial-drain", "bursts of %d and %d messages with %d read in between: echo %d of %d: returned=%v err=%v", p1, p2, r, len(got), len(want), ret, e)
				return false
			}
			got = append(got, append([]byte(nil), m...))
		}
		return true
	}
	// client-side queue: the handler echoes at once, the client reads late
	write(p1)
	ok := read(r)
	if ok {
		write(p2)
		ok = read(len(want) - len(got))
	}
	// server-side queue: the handler is held while the bursts arrive, and is let go for r messages in between
	if ok {
		f.w.streamHold = true
		write(p1)
		f.w.streamHold = false
		vs.Quiesce()
		ok = read(r)
	}
	if ok {
		write(p2)
		ok = read(len(want) - len(got))
	}
	for i := range got {
		if !eqBytes(got[i], want[i]) {
			x.Fail("C09/client-sequence/partial-drain", "bursts of %d and %d messages with %d read in between (then the same with the handler held): echo %d is the echo of another message (got tag byte %d, want %d)", p1, p2, r, i, got[i][len(got[i])-2]^0x5A, want[i][len(want[i])-2]^0x5A)
			break
		}
	}
	x.Outcome("p1=%d r=%d p2=%d dio=%v got=%d/%d", p1, r, p2, cliDio, len(got), len(want))
	st.Close()
	f.conn.Close()
	vs.Quiesce()
}

// two connections to one server, each opening a stream as its first operation (the same sequence
// number on both), in every server mode: each stream's echoes go to its own client, and closing one
// connection leaves the other's stream working.
func c09TwoConnections(x *X) {
	mode := sysModes[x.Choose(len(sysModes))]
	n := newNet()
	w := newWorld()
	so := srvOpts{bufSize: 64}
	var srv *rpc.Server
	dial := func() *rpc.Conn { return nil }
	if mode.listen {
		n.pollWorkers = mode.workers
		srv = newServer(w, so)
		srv.SetPoll(mode.poll)
		vs.GoLib("Listen", func() { srv.ListenWithOptions("srv", so.options(n, 0)) })
		vs.Quiesce()
		dial = func() *rpc.Conn {
			c, err := rpc.DialWithOptions("srv", so.options(n, 64))
			if err != nil {
				vs.Fatal("dial failed: " + err.Error())
			}
			return c
		}
	} else {
		srv = newServer(w, so)
		dial = func() *rpc.Conn {
			cl, sv := NewPipe()
			serveCodec(srv, sv, so)
			return newConn(cl, "", 64, nil)
		}
	}
	c1, c2 := dial(), dial()
	s1, e1 := c1.NewStream("StreamSvc.Push")
	s2, e2 := c2.NewStream("StreamSvc.Push")
	if e1 != nil || e2 != nil {
		x.Fail("C09/open-failed/two-connections", "NewStream: %v / %v (mode %s)", e1, e2, mode.name)
		return
	}
	exchange := func(st rpc.Stream, id byte, j int, label string) bool {
		m := streamMsg(id, j)
		var back []byte
		var rerr error
		ret := false
		vs.GoNamed("exchange", func() {
			st.WriteMessage(&m)
			rerr = st.ReadMessage(nil, &back)
			ret = true
		})
		vs.Quiesce()
		if !ret || rerr != nil || !eqBytes(back, transform(m)) {
			x.Fail("C09/client-sequence/two-connections", "%s (mode %s): wrote a message on the stream of connection %d and read: returned=%v err=%v echo-of-own-message=%v", label, mode.name, id-0x30, ret, rerr, eqBytes(back, transform(m)))
			return false
		}
		return true
	}
	ok := exchange(s1, 0x31, 0, "both streams open") && exchange(s2, 0x32, 0, "both streams open") && exchange(s1, 0x31, 1, "both streams open")
	if ok {
		c1.Close()
		vs.Quiesce()
		ok = exchange(s2, 0x32, 1, "after the other connection was closed")
	}
	x.Outcome("%s ok=%v handlers=%d/%d", mode.name, ok, w.streamsEx, w.streamsIn)
	c1.Close()
	c2.Close()
	if mode.listen {
		srv.Close()
	}
	vs.Quiesce()
}

func init() {
	register(&Scenario{Prop: "C09", Name: "c09/backlog-partial-drain", Quick: []Bound{{0, 0}}, Thorough: []Bound{{1, 0}}, Body: c09PartialDrain, BudgetQ: 20, BudgetT: 200, MaxSteps: 400000, MinHB: 1})
	register(&Scenario{Prop: "C09", Name: "c09/two-connections-allmodes", Quick: []Bound{{0, 0}, {1, 0}}, Thorough: []Bound{{2, 0}}, Body: c09TwoConnections, BudgetQ: 15, MaxSteps: 200000})
}

// two goroutines write to one stream at the same time (WriteMessage may be called from several
// goroutines): every message is echoed exactly once, and the messages of each writer keep their order.
func c09TwoWriters(x *X) {
	mode := x.Choose(3)
	so := srvOpts{bufSize: 64}
	co := cliOpts{bufSize: 64}
	switch mode {
	case 1:
		so.pipelining = true
	case 2:
		co.pipelining = true
	}
	f := newFixture(so, co)
	st, err := f.conn.NewStream("StreamSvc.Push")
	if err != nil {
		x.Fail("C09/open-failed/two-writers", "NewStream: %v", err)
		return
	}
	var got [][]byte
	vs.GoNamed("reader", func() {
		for {
			var m []byte
			if st.ReadMessage(nil, &m) != nil {
				return
			}
			got = append(got, append([]byte(nil), m...))
		}
	})
	per := 2
	for wi := 0; wi < 2; wi++ {
		wi := wi
		vs.GoNamed(fmt.Sprintf("writer%d", wi), func() {
			for j := 0; j < per; j++ {
				m := streamMsg(byte(0x31+wi), j)
				st.WriteMessage(&m)
			}
		})
	}
	vs.Quiesce()
	if len(got) != 2*per {
		x.Fail("C09/client-count/two-writers", "two goroutines wrote %d messages each to one stream: %d echoes arrived", per, len(got))
	}
	next := map[byte]int{}
	for _, g := range got {
		ok := false
		for wi := 0; wi < 2; wi++ {
			id := byte(0x31 + wi)
			if j := next[id]; j < per && eqBytes(g, transform(streamMsg(id, j))) {
				next[id]++
				ok = true
				break
			}
		}
		if !ok {
			x.Fail("C09/client-sequence/two-writers", "two goroutines wrote to one stream concurrently: an echo arrived that is not the echo of either writer's next message (a message was sent twice, lost, or out of its writer's order): %x; so far writer counts %v", clipBytes(g, 10), next)
			break
		}
	}
	x.Outcome("mode=%d got=%d", mode, len(got))
	st.Close()
	f.conn.Close()
	vs.Quiesce()
}

func init() {
	register(&Scenario{Prop: "C09", Name: "c09/two-writers-one-stream", Quick: []Bound{{1, 0}, {2, 0}}, Thorough: []Bound{{3, 0}}, Body: c09TwoWriters, BudgetQ: 20})
}

// the last use of a stream is a blocking ReadMessage (a one-shot subscription: write the request, return what
// ReadMessage returns) and a garbage collection happens while it is blocked: nobody has closed the stream,
// so the read stays blocked, and when the server writes, the message is delivered.  (Garbage collection is an
// environment event placed by the driver, see vsync.CollectGarbage; finalizers registered by the library run
// as threads of their own.)
func c09LastUseGC(x *X) {
	mode := basicModes[x.Choose(5)]
	ngc := 1 + x.Choose(2)
	f := newFixture(mode.so, mode.co)
	f.w.streamHold = true // the handler holds its echo back
	rdDone := false
	var rdErr error
	var got []byte
	m := streamMsg(0x31, 0)
	vs.GoNamed("subscriber", func() {
		st, err := f.conn.NewStream("StreamSvc.Push")
		if err != nil {
			rdErr, rdDone = err, true
			return
		}
		if err := st.WriteMessage(&m); err != nil {
			rdErr, rdDone = err, true
			return
		}
		rdErr = st.ReadMessage(nil, &got) // the last use of the stream
		rdDone = true
	})
	vs.Quiesce()
	if rdDone {
		x.Fail("C09/setup-failed/last-use", "the subscriber returned early: %v", rdErr)
	}
	for i := 0; i < ngc; i++ {
		vs.CollectGarbage()
		vs.Quiesce()
	}
	if rdDone {
		x.Fail("C09/stream-ended-behind-the-users-back", "a ReadMessage blocked on an open stream that nobody closed returned %v after a garbage collection (it was the last use of the stream by its owner; mode %s)", rdErr, mode.name)
	}
	f.w.streamHold = false
	vs.Quiesce()
	if !rdDone {
		x.Fail("C09/message-lost/last-use", "the server wrote its answer; the blocked ReadMessage has not returned")
	} else if rdErr != nil || !eqBytes(got, transform(m)) {
		x.Fail("C09/message-lost/last-use", "the server's answer on an open stream was not delivered to the reader that was blocked across a garbage collection: err=%v got %x (mode %s)", rdErr, got, mode.name)
	}
	x.Outcome("%s ngc=%d err=%s", mode.name, ngc, errStr(rdErr))
	f.conn.Close()
	vs.Quiesce()
}

func init() {
	register(&Scenario{Prop: "C09", Name: "c09/last-use-is-a-blocked-read-across-gc", Quick: []Bound{{0, 0}}, Thorough: []Bound{{1, 0}}, Body: c09LastUseGC, MaxSteps: 200000, BudgetQ: 20, BudgetT: 100})
}
