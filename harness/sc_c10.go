package main

import (
	"fmt"

	"github.com/hslam/rpc"
	vs "verif/shim/vsync"
)

// C10 — closing a stream or losing its connection unblocks both ends.
//
// A stream whose handler is blocked in ReadMessage and whose client reader is blocked in
// ReadMessage, a sibling stream and a unary call on the same connection; then one event:
// client stream.Close, conn.Close, peer EOF, reset, Server.Close — in every server mode.

const (
	evStreamClose = iota
	evConnClose
	evPeerEOF
	evReset
	evServerClose
)

var evNames = []string{"stream.Close", "conn.Close", "peer-EOF", "reset", "Server.Close"}

const shut = "The stream is shut down"

func c10Body(modes []sysMode) func(x *X) { return c10BodyCli(modes, false) }

func c10BodyCli(modes []sysMode, cliPipeChoice bool) func(x *X) {
	return func(x *X) {
		mode := modes[x.Choose(len(modes))]
		cliPipe := cliPipeChoice && x.Choose(2) == 1
		nev := 4
		if mode.listen {
			nev = 5
		}
		ev := x.Choose(nev)
		timing := x.Choose(3) // 0: event at a quiescent moment; 1: after one echo round trip; 2: racing with an in-flight stream message
		withTraffic := timing == 1
		s := newSys(mode, srvOpts{bufSize: 64}, cliOpts{bufSize: 64, pipelining: cliPipe})
		s.cl.WriteFaults = 0 // any client write may fail (fault budget f)
		st, err := s.conn.NewStream("StreamSvc.Push")
		sib, err2 := s.conn.NewStream("StreamSvc.Push")
		if s.cl.Injected > 0 {
			// the connection broke while the streams were being opened: nothing to set up
			x.Outcome("open write failed (injected)")
			s.finish()
			return
		}
		if err != nil || err2 != nil {
			x.Fail("C10/open-failed", "NewStream: %v %v", err, err2)
			return
		}

		if withTraffic {
			m := streamMsg(0x31, 0)
			var r []byte
			st.WriteMessage(&m)
			st.ReadMessage(nil, &r)
		}
		// a reader blocked on the stream
		var rdErr error
		rdDone := false
		vs.GoNamed("reader", func() {
			for rdErr == nil {
				var b []byte
				rdErr = st.ReadMessage(nil, &b)
			}
			rdDone = true
		})
		// a gated unary call in flight across the event
		u := newUcall(0x11, fGate, 40, formCall)
		u.spawn(s.conn)
		if timing == 2 {
			vs.GoNamed("writer", func() { m := streamMsg(0x31, 2); st.WriteMessage(&m) })
		} else {
			vs.Quiesce()
			if rdDone && s.cl.Injected == 0 {
				x.Fail("C10/reader-not-blocked", "the reader returned before anything was sent: %v", rdErr)
			}
		}
		evDone := false
		vs.GoNamed("event", func() {
			switch ev {
			case evStreamClose:
				st.Close()
			case evConnClose:
				s.conn.Close()
			case evPeerEOF:
				s.cl.Kill()
			case evReset:
				s.cl.Reset()
			case evServerClose:
				s.srv.Close()
			}
			evDone = true
		})
		vs.Quiesce()
		label := evNames[ev]
		out := fmt.Sprintf("%s %s timing=%d", mode.name, label, timing)
		// a failed client write (fault alternative) breaks the connection: from then on it counts as lost
		lost := s.cl.Injected > 0
		if !evDone {
			x.Fail("C10/close-blocked/"+label, "%s did not return", label)
		}
		if !rdDone {
			x.Fail("C10/client-reader-blocked/"+label, "a ReadMessage blocked on the stream is still blocked after %s", label)
		} else if rdErr != rpc.ErrStreamShutdown {
			x.Fail("C10/client-reader-error/"+label, "the blocked ReadMessage returned %v, want ErrStreamShutdown", rdErr)
		}
		// later operations on the client end
		if ev != evStreamClose || rdDone {
			var b []byte
			laterDone := false
			var e1, e2 error
			vs.GoNamed("later", func() {
				e1 = st.ReadMessage(nil, &b)
				m := []byte{1, 2, 3}
				e2 = st.WriteMessage(&m)
				laterDone = true
			})
			vs.Quiesce()
			if !laterDone {
				x.Fail("C10/later-op-blocked/"+label, "a ReadMessage/WriteMessage issued after %s blocks", label)
			} else if e1 != rpc.ErrStreamShutdown || e2 != rpc.ErrStreamShutdown {
				x.Fail("C10/later-op-error/"+label, "after %s a later ReadMessage returned %v and WriteMessage %v, want ErrStreamShutdown", label, e1, e2)
			}
		}
		connEnded := ev != evStreamClose || lost
		wantHandlers := 1
		if connEnded {
			wantHandlers = 2
			// ServeCodec waits for the unary handlers in flight before it stops the streams of a
			// dead connection: the gate is opened first so that "no handler stays blocked" is judged
			// without depending on how long another handler runs.
			s.w.open(0x11)
			vs.Quiesce()
			if !u.ret {
				x.Fail("C10/unary-blocked/"+label, "the unary call in flight is still blocked after %s", label)
			}
		}
		if connEnded {
			// the sibling stream went down with the connection as well
			var sb []byte
			sibDone := false
			var se1, se2 error
			vs.GoNamed("sibling-after-loss", func() {
				se1 = sib.ReadMessage(nil, &sb)
				m := []byte{4, 5, 6}
				se2 = sib.WriteMessage(&m)
				sibDone = true
			})
			vs.Quiesce()
			if !sibDone {
				x.Fail("C10/later-op-blocked/"+label, "a ReadMessage/WriteMessage on a second stream of the lost connection blocks after %s", label)
			} else if se1 != rpc.ErrStreamShutdown || se2 != rpc.ErrStreamShutdown {
				x.Fail("C10/later-op-error/"+label, "after %s a ReadMessage on a second stream of the connection returned %v and WriteMessage %v, want ErrStreamShutdown", label, se1, se2)
			}
		}
		if s.w.streamsIn != 2 {
			x.Fail("C10/handlers-not-started", "%d stream handlers entered, want 2", s.w.streamsIn)
		}
		if s.w.streamsEx != wantHandlers {
			x.Fail("C10/handler-blocked/"+label, "%d of %d affected stream handlers returned after %s (mode %s)", s.w.streamsEx, wantHandlers, label, mode.name)
		}
		for _, e := range s.w.streamEnd {
			if e[0] != shut || e[1] != shut || e[2] != shut {
				x.Fail("C10/server-side-error/"+label, "the handler's blocked ReadMessage returned %q, a later WriteMessage %q, a later ReadMessage %q; want ErrStreamShutdown", e[0], e[1], e[2])
			}
		}
		if !connEnded {
			// the sibling stream and the unary call are not disturbed
			m := streamMsg(0x32, 1)
			var r []byte
			sibDone := false
			var se1, se2 error
			vs.GoNamed("sibling", func() { se1 = sib.WriteMessage(&m); se2 = sib.ReadMessage(nil, &r); sibDone = true })
			s.w.open(0x11)
			vs.Quiesce()
			if s.cl.Injected > 0 {
				// the connection broke (injected write failure) after the stream had been closed
			} else if !sibDone || se1 != nil || se2 != nil || !eqBytes(r, transform(m)) {
				x.Fail("C10/sibling-disturbed", "after closing one stream the sibling stream: done=%v write=%v read=%v reply=%x", sibDone, se1, se2, r)
			}
			if s.cl.Injected > 0 {
			} else if !u.ret || u.err != nil || !eqBytes(u.reply, u.want()) {
				x.Fail("C10/unary-disturbed", "after closing one stream the unary call: returned=%v err=%v", u.ret, u.err)
			}
		}
		x.Outcome("%s handlers=%d/%d", out, s.w.streamsEx, s.w.streamsIn)
		s.finish()
	}
}

// a raw client opens a stream (optionally sends data and a unary request) and disappears at once:
// the handler that is started for it must not stay blocked.
func c10OpenThenGone(modes []c04Mode) func(x *X) {
	return func(x *X) {
		mode := modes[x.Choose(len(modes))]
		script := x.Choose(4)
		encName := []string{"", "yield-pb"}[x.Choose(2)] // a header codec with scheduling points inside the decode
		enc := wireEncoder(encName)
		so := mode.so
		so.enc = encName
		w, srv, cl, net := rawServer(mode.sys, so)
		switch script {
		case 0:
			cl.WriteMessage(mkReq(enc, 7, upOpen, "StreamSvc.Push", nil))
		case 1:
			cl.WriteMessage(mkReq(enc, 7, upOpen, "StreamSvc.Push", nil))
			cl.WriteMessage(mkReq(enc, 7, upData, "", streamMsg(0x31, 0)))
		case 2:
			cl.WriteMessage(mkReq(enc, 3, nil, "Svc.Echo", mkPayload(1, fYield, 12)))
			cl.WriteMessage(mkReq(enc, 7, upOpen, "StreamSvc.Push", nil))
		case 3:
			cl.WriteMessage(mkReq(enc, 7, upOpen, "StreamSvc.Push", nil))
			cl.WriteMessage(mkReq(enc, 8, upOpen, "StreamSvc.Push", nil))
		}
		cl.Close()
		vs.Quiesce()
		if w.streamsEx != w.streamsIn {
			x.Fail("C10/handler-blocked/open-then-disconnect", "%d stream handlers were started for a client that disconnected right after opening, %d returned (script %d, mode %s/%s)", w.streamsIn, w.streamsEx, script, mode.sys.name, modeName(mode.so))
		}
		x.Outcome("%s/%s script=%d handlers=%d/%d", mode.sys.name, modeName(mode.so), script, w.streamsEx, w.streamsIn)
		if net != nil {
			srv.Close()
		}
		vs.Quiesce()
		if !mode.sys.poll {
			for _, t := range blockedThreads(nil) {
				x.Fail("C20/thread-left-behind", "after the client disconnected (script %d) and the server was closed: %s", script, t)
			}
		}
	}
}

func init() {
	register(&Scenario{Prop: "C10", Name: "c10/open-then-disconnect", Quick: []Bound{{1, 0}, {2, 0}}, Thorough: []Bound{{3, 0}}, Body: c10OpenThenGone(c08SrvModes), OnlyKeys: []string{"C10/", "panic/", "livelock/"}})
	register(&Scenario{Prop: "C20", Name: "c20/server-after-abrupt-clients", Quick: []Bound{{1, 0}, {2, 0}}, Thorough: []Bound{{3, 0}}, Body: c10OpenThenGone(c08SrvModes[:3]), OnlyKeys: []string{"C20/", "panic/", "livelock/"}})
	register(&Scenario{Prop: "C10", Name: "c10/servecodec-atomic", Quick: []Bound{{1, 0}}, Thorough: []Bound{{2, 0}}, Body: c10Body(sysModes[:1]), Atomic: true})
	register(&Scenario{Prop: "C10", Name: "c10/servecodec-clientpipelining", Quick: []Bound{{2, 0}}, Thorough: []Bound{{3, 0}}, Body: c10BodyCli(sysModes[:1], true), BudgetQ: 30})
	register(&Scenario{Prop: "C10", Name: "c10/servecodec-writefaults", Quick: []Bound{{1, 1}}, Thorough: []Bound{{2, 1}}, Body: c10Body(sysModes[:1])})
	register(&Scenario{Prop: "C10", Name: "c10/servecodec", Quick: []Bound{{1, 0}, {2, 0}}, Thorough: []Bound{{3, 0}}, Body: c10Body(sysModes[:1])})
	register(&Scenario{Prop: "C10", Name: "c10/allmodes", Quick: []Bound{{1, 0}}, Thorough: []Bound{{2, 0}}, Body: c10Body(sysModes)})
}

// a stream ends while many messages are unread on it (n = 20 / 70 / 150 / 300 on the server
// behind a held handler, the same number pushed to a client that does not read): the stream's
// Close returns, a sibling stream on the same connection keeps working, every handler and every
// library thread ends once the connection is gone.  Default schedule and one deviation.
func closeWithBacklog(prop string) func(x *X) {
	return func(x *X) {
		n := []int{20, 70, 150, 300}[x.Choose(4)]
		side := x.Choose(2) // 0: unread on the server, 1: unread on the client
		cliDio := x.Choose(2) == 1
		end := x.Choose(2) // 0: Stream.Close then Conn.Close, 1: Conn.Close only
		f := newFixture(srvOpts{bufSize: 64}, cliOpts{bufSize: 64, directIO: cliDio})
		if side == 1 {
			f.w.pushN = n
		}
		st, err := f.conn.NewStream("StreamSvc.Push")
		if err != nil {
			x.Fail(prop+"/open-failed/close-with-backlog", "NewStream: %v", err)
			return
		}
		f.w.pushN = 0
		sib, err := f.conn.NewStream("StreamSvc.Push")
		if err != nil {
			x.Fail(prop+"/open-failed/close-with-backlog", "NewStream (sibling): %v", err)
			return
		}
		if side == 0 {
			f.w.streamHold = true
			for i := 0; i < n; i++ {
				m := streamMsg(0x31, i%7)
				st.WriteMessage(&m)
			}
		}
		vs.Quiesce()
		f.w.streamHold = false // (the held handler goes on; its echoes pile up unread on the client)
		vs.Quiesce()
		closed := false
		if end == 0 {
			vs.GoNamed("closer", func() { st.Close(); closed = true })
			vs.Quiesce()
			if !closed {
				x.Fail("C10/close-blocked/close-with-backlog", "Stream.Close of a stream with %d unread messages (%s side) did not return", n, []string{"server", "client"}[side])
			}
			// the sibling stream still works
			sm := streamMsg(0x32, 1)
			var back []byte
			sibDone := false
			var serr error
			vs.GoNamed("sibling", func() {
				sib.WriteMessage(&sm)
				serr = sib.ReadMessage(nil, &back)
				sibDone = true
			})
			vs.Quiesce()
			if !sibDone || serr != nil || !eqBytes(back, transform(sm)) {
				x.Fail("C10/later-op-blocked/close-with-backlog", "after a stream with %d unread messages (%s side) was closed, a sibling stream on the same connection: exchange completed=%v err=%v", n, []string{"server", "client"}[side], sibDone, serr)
			}
		}
		connClosed := false
		vs.GoNamed("conncloser", func() { f.conn.Close(); connClosed = true })
		vs.Quiesce()
		if !connClosed {
			x.Fail("C10/close-blocked/close-with-backlog", "Conn.Close did not return (a stream had %d unread messages on the %s side)", n, []string{"server", "client"}[side])
		}
		if f.w.streamsEx != f.w.streamsIn {
			x.Fail("C10/handler-blocked/close-with-backlog", "%d stream handlers entered, %d returned after the connection was closed (a stream had %d unread messages)", f.w.streamsIn, f.w.streamsEx, n)
		}
		for _, t := range blockedThreads(nil) {
			x.Fail("C20/thread-left-behind", "after a connection with a stream that had %d unread messages (%s side) was closed: %s", n, []string{"server", "client"}[side], t)
		}
		x.Outcome("n=%d side=%d dio=%v end=%d", n, side, cliDio, end)
	}
}

func init() {
	register(&Scenario{Prop: "C10", Name: "c10/close-with-backlog", Quick: []Bound{{0, 0}}, Thorough: []Bound{{1, 0}}, Body: closeWithBacklog("C10"), MaxSteps: 400000, BudgetQ: 15, BudgetT: 200, OnlyKeys: []string{"C10/", "panic/", "livelock/", "hang/"}})
	register(&Scenario{Prop: "C20", Name: "c20/close-with-backlog", Quick: []Bound{{0, 0}}, Thorough: []Bound{{1, 0}}, Body: closeWithBacklog("C20"), MaxSteps: 400000, BudgetQ: 15, BudgetT: 200, OnlyKeys: []string{"C20/", "panic/", "livelock/", "hang/"}})
}

// Close after a server-side stream write could not be encoded (the client has received the
// failed message's error on that stream): Stream.Close still tells the server, whose handler,
// blocked in ReadMessage, returns; later operations on the stream return at once.
func c10CloseAfterBad(x *X) {
	mode := x.Choose(2)
	so := srvOpts{bufSize: 64, codec: rejectBytesCodec}
	if mode == 1 {
		so.pipelining = true
	}
	f := newFixture(so, cliOpts{bufSize: 64})
	f.w.badPush = true
	st, err := f.conn.NewStream("StreamSvc.Push")
	if err != nil {
		x.Fail("C10/open-failed/after-unencodable-message", "NewStream: %v", err)
		return
	}
	m := append([]byte{0xBD}, streamMsg(0x31, 0)...)
	st.WriteMessage(&m)
	var back []byte
	st.ReadMessage(nil, &back)
	vs.Quiesce()
	closed := false
	vs.GoNamed("closer", func() { st.Close(); closed = true })
	vs.Quiesce()
	if !closed {
		x.Fail("C10/close-blocked/after-unencodable-message", "Stream.Close did not return")
	}
	if f.w.streamsEx != f.w.streamsIn {
		x.Fail("C10/handler-blocked/after-unencodable-message", "the client closed a stream on which a server-side write had failed to encode: %d handlers entered, %d returned (the connection is still up)", f.w.streamsIn, f.w.streamsEx)
	}
	c := newUcall(0x51, 0, 20, formCall)
	c.spawn(f.conn)
	vs.Quiesce()
	if !c.ret || c.err != nil {
		x.Fail("C10/later-op-blocked/after-unencodable-message", "a call on the same connection afterwards: returned=%v err=%v", c.ret, c.err)
	}
	x.Outcome("mode=%d handlers=%d/%d", mode, f.w.streamsEx, f.w.streamsIn)
	f.conn.Close()
	vs.Quiesce()
}

func init() {
	register(&Scenario{Prop: "C10", Name: "c10/close-after-unencodable-message", Quick: []Bound{{0, 0}, {1, 0}}, Thorough: []Bound{{2, 0}}, Body: c10CloseAfterBad, BudgetQ: 15})
}

// Stream.Close twice (the second is legal and returns), with a sibling stream and a call on the
// connection: the sibling goes on echoing, the call completes, and when the connection ends every
// reader returns.
func c10DoubleClose(x *X) {
	mode := x.Choose(2)
	so := srvOpts{bufSize: 64}
	if mode == 1 {
		so.pipelining = true
	}
	gap := x.Choose(2) == 1 // quiet between the two Close calls
	f := newFixture(so, cliOpts{bufSize: 64})
	sib, e0 := f.conn.NewStream("StreamSvc.Push")
	st, e1 := f.conn.NewStream("StreamSvc.Push")
	if e0 != nil || e1 != nil {
		x.Fail("C10/open-failed/double-close", "NewStream: %v / %v", e0, e1)
		return
	}
	closes := 0
	concurrent := x.Choose(2) == 1 // the two Close calls come from two goroutines
	if concurrent {
		for i := 0; i < 2; i++ {
			vs.GoNamed(fmt.Sprintf("closer%d", i), func() { st.Close(); closes++ })
		}
	} else {
		vs.GoNamed("closer", func() {
			st.Close()
			closes++
			if gap {
				vs.Yield()
			}
			st.Close()
			closes++
		})
	}
	vs.Quiesce()
	if closes != 2 {
		x.Fail("C10/close-blocked/double-close", "%d of 2 Stream.Close calls on one stream returned (from two goroutines: %v)", closes, concurrent)
	}
	if f.w.streamsEx != 1 {
		x.Fail("C10/handler-count/double-close", "one of two streams was closed (twice): %d of %d handlers have returned", f.w.streamsEx, f.w.streamsIn)
	}
	c := newUcall(0x51, 0, 20, formCall)
	c.spawn(f.conn)
	m := streamMsg(0x33, 0)
	var back []byte
	var rerr error
	echoed := false
	vs.GoNamed("sibling", func() {
		sib.WriteMessage(&m)
		rerr = sib.ReadMessage(nil, &back)
		echoed = true
	})
	vs.Quiesce()
	if !c.ret || c.err != nil {
		x.Fail("C10/later-op-blocked/double-close", "a call on the connection after a stream was closed twice: returned=%v err=%v", c.ret, c.err)
	}
	if !echoed || rerr != nil || !eqBytes(back, transform(m)) {
		x.Fail("C10/sibling-disturbed/double-close", "the sibling stream after another stream was closed twice: echoed=%v err=%v", echoed, rerr)
	}
	blocked := false
	vs.GoNamed("sibling-reader", func() { var b []byte; sib.ReadMessage(nil, &b); blocked = true })
	vs.QuiesceKeep()
	closed := false
	vs.GoNamed("conn-closer", func() { f.conn.Close(); closed = true })
	vs.Quiesce()
	if !closed {
		x.Fail("C10/conn-close-blocked/double-close", "Conn.Close did not return after a stream was closed twice")
	}
	if !blocked {
		x.Fail("C10/client-reader-blocked/double-close", "the connection was closed: the sibling stream's blocked ReadMessage did not return")
	}
	x.Outcome("mode=%d gap=%v concurrent=%v closes=%d", mode, gap, concurrent, closes)
	f.conn.Close()
	vs.Quiesce()
}

func init() {
	register(&Scenario{Prop: "C10", Name: "c10/double-close", Quick: []Bound{{0, 0}, {1, 0}}, Thorough: []Bound{{2, 0}}, Body: c10DoubleClose, BudgetQ: 15})
}

// a stream is closed by one goroutine while another one is writing to it (the message may reach
// the server after the close frame: a message for a stream the server no longer knows), next to a
// sibling stream whose handler is blocked; then the connection ends: every handler returns, the
// server's side of the connection is torn down completely, nothing is left blocked.
func c10WriteRacingClose(x *X) {
	mode := x.Choose(3)
	so := srvOpts{bufSize: 64}
	switch mode {
	case 1:
		so.pipelining = true
	case 2:
		so.directIO = true
	}
	end := x.Choose(2) // the connection ends by Conn.Close / by the peer's socket dying
	f := newFixture(so, cliOpts{bufSize: 64})
	a, e0 := f.conn.NewStream("StreamSvc.Push")
	b, e1 := f.conn.NewStream("StreamSvc.Push")
	if e0 != nil || e1 != nil {
		x.Fail("C10/open-failed/write-racing-close", "NewStream: %v / %v", e0, e1)
		return
	}
	_ = b
	wrote, closed := false, false
	vs.GoNamed("writer", func() {
		for j := 0; j < 2; j++ {
			m := streamMsg(0x31, j)
			a.WriteMessage(&m)
		}
		wrote = true
	})
	vs.GoNamed("closer", func() { a.Close(); closed = true })
	vs.Quiesce()
	if !wrote || !closed {
		x.Fail("C10/close-blocked/write-racing-close", "Stream.Close racing with WriteMessage on the same stream: writer returned=%v, Close returned=%v", wrote, closed)
	}
	// the sibling still works
	m := streamMsg(0x32, 0)
	var back []byte
	var rerr error
	echoed := false
	vs.GoNamed("sibling", func() {
		b.WriteMessage(&m)
		rerr = b.ReadMessage(nil, &back)
		echoed = true
	})
	vs.Quiesce()
	if !echoed || rerr != nil || !eqBytes(back, transform(m)) {
		x.Fail("C10/sibling-disturbed/write-racing-close", "the sibling stream afterwards: echoed=%v err=%v", echoed, rerr)
	}
	if end == 0 {
		vs.GoNamed("conn-closer", func() { f.conn.Close() })
	} else {
		f.cl.Kill()
	}
	vs.Quiesce()
	if f.w.streamsEx != f.w.streamsIn {
		x.Fail("C10/handler-blocked/write-racing-close", "the connection has ended (%d): %d stream handlers entered, %d returned", end, f.w.streamsIn, f.w.streamsEx)
	}
	f.conn.Close()
	vs.Quiesce()
	for _, t := range blockedThreads(nil) {
		x.Fail("C10/thread-left-behind/write-racing-close", "after the connection ended (%d) and both ends were closed: %s", end, t)
	}
	x.Outcome("mode=%d end=%d handlers=%d/%d", mode, end, f.w.streamsEx, f.w.streamsIn)
}

func init() {
	register(&Scenario{Prop: "C10", Name: "c10/write-racing-close", Quick: []Bound{{1, 0}, {2, 0}}, Thorough: []Bound{{3, 0}}, Body: c10WriteRacingClose, BudgetQ: 25})
}

// after a server-side stream write that could not be encoded (the client has received that
// message's error on the stream), the stream is still a stream: a reader blocked on it returns when
// the connection is lost or closed, later operations return at once, and the handler ends.
func c10LossAfterBad(x *X) {
	mode := x.Choose(2)
	end := x.Choose(3) // Conn.Close / the peer's socket dies / the server closes
	so := srvOpts{bufSize: 64, codec: rejectBytesCodec}
	if mode == 1 {
		so.pipelining = true
	}
	f := newFixture(so, cliOpts{bufSize: 64})
	f.w.badPush = true
	st, err := f.conn.NewStream("StreamSvc.Push")
	if err != nil {
		x.Fail("C10/open-failed/loss-after-unencodable-message", "NewStream: %v", err)
		return
	}
	m := append([]byte{0xBD}, streamMsg(0x31, 0)...)
	st.WriteMessage(&m)
	var back []byte
	st.ReadMessage(nil, &back)
	vs.Quiesce()
	rdDone := false
	var rdErr error
	vs.GoNamed("reader", func() { var b []byte; rdErr = st.ReadMessage(nil, &b); rdDone = true })
	vs.QuiesceKeep()
	switch end {
	case 0:
		vs.GoNamed("closer", func() { f.conn.Close() })
	case 1:
		f.cl.Kill()
	case 2:
		vs.GoNamed("closer", func() { f.sv.Close() })
	}
	vs.Quiesce()
	how := []string{"Conn.Close", "link died", "server closed the connection"}[end]
	if !rdDone {
		x.Fail("C10/client-reader-blocked/loss-after-unencodable-message", "a server-side stream write had failed to encode earlier; the connection then ended (%s): the client's blocked ReadMessage did not return", how)
	} else if rdErr == nil {
		x.Fail("C10/reader-outcome/loss-after-unencodable-message", "the blocked ReadMessage returned no error after the connection ended (%s)", how)
	}
	werr := error(nil)
	wdone := false
	vs.GoNamed("writer", func() { mm := streamMsg(0x31, 1); werr = st.WriteMessage(&mm); wdone = true })
	vs.Quiesce()
	if !wdone {
		x.Fail("C10/later-op-blocked/loss-after-unencodable-message", "a WriteMessage after the connection ended (%s) blocks", how)
	} else if werr == nil {
		x.Fail("C10/later-op-outcome/loss-after-unencodable-message", "a WriteMessage after the connection ended (%s) returned nil, want ErrStreamShutdown", how)
	}
	if f.w.streamsEx != f.w.streamsIn {
		x.Fail("C10/handler-blocked/loss-after-unencodable-message", "%d stream handlers entered, %d returned after the connection ended (%s)", f.w.streamsIn, f.w.streamsEx, how)
	}
	x.Outcome("mode=%d end=%d rd=%v/%v", mode, end, rdDone, rdErr)
	f.conn.Close()
	vs.Quiesce()
}

func init() {
	register(&Scenario{Prop: "C10", Name: "c10/connection-loss-after-unencodable-message", Quick: []Bound{{0, 0}, {1, 0}}, Thorough: []Bound{{2, 0}}, Body: c10LossAfterBad, BudgetQ: 15})
}

// a full-duplex handler (its own goroutine blocked in ReadMessage, a second goroutine pushing): the
// connection ends while a push is on its way - the push may fail before, while or after the server
// tears the connection's streams down, in every order.  The handler's blocked ReadMessage returns
// (the handler ends), the client's blocked reader returns, later pushes fail.
func c10Duplex(x *X) {
	mode := sysModes[x.Choose(len(sysModes))]
	directIO := x.Choose(2) == 1
	ev := []int{evConnClose, evPeerEOF, evReset}[x.Choose(3)]
	npush := x.Choose(3) // pushes released together with the event
	s := newSys(mode, srvOpts{bufSize: 64, directIO: directIO}, cliOpts{bufSize: 64})
	st, err := s.conn.NewStream("StreamSvc.Duplex")
	if err != nil {
		x.Fail("C10/open-failed", "NewStream: %v", err)
		return
	}
	m := streamMsg(0x31, 0)
	var r []byte
	if st.WriteMessage(&m) != nil || st.ReadMessage(nil, &r) != nil || !eqBytes(r, transform(m)) {
		x.Fail("C10/open-failed", "first echo on the duplex stream failed")
	}
	rdDone := false
	var rdErr error
	vs.GoNamed("reader", func() {
		for rdErr == nil {
			var b []byte
			rdErr = st.ReadMessage(nil, &b)
		}
		rdDone = true
	})
	vs.Quiesce()
	for i := 0; i < npush; i++ {
		s.w.open(byte(0xD0 + i))
	}
	vs.GoNamed("event", func() {
		switch ev {
		case evConnClose:
			s.conn.Close()
		case evPeerEOF:
			s.cl.Kill()
		case evReset:
			s.cl.Reset()
		}
	})
	vs.Quiesce()
	for i := npush; i < 3; i++ {
		s.w.open(byte(0xD0 + i))
	}
	vs.Quiesce()
	label := evNames[ev]
	if s.w.streamsEx != s.w.streamsIn {
		x.Fail("C10/handler-blocked/duplex", "after %s (mode %s, direct I/O %v, %d pushes in flight: %v) the full-duplex handler is still blocked in ReadMessage", label, mode.name, directIO, npush, s.w.duplexPush)
	}
	if !rdDone {
		x.Fail("C10/client-reader-blocked/duplex", "after %s the client's reader is still blocked", label)
	}
	if n := len(s.w.duplexPush); n != 3 {
		x.Fail("C10/writer-blocked/duplex", "after %s only %d of 3 pushes of the handler's second goroutine have returned: %v", label, n, s.w.duplexPush)
	} else if s.w.duplexPush[2] == "" {
		x.Fail("C10/later-op-outcome/duplex", "a push after %s returned nil: %v", label, s.w.duplexPush)
	}
	x.Outcome("%s dio=%v %s npush=%d pushes=%v rd=%s", mode.name, directIO, label, npush, s.w.duplexPush, errStr(rdErr))
	s.finish()
}

func init() {
	register(&Scenario{Prop: "C10", Name: "c10/full-duplex-handler", Quick: []Bound{{0, 0}, {1, 0}}, Thorough: []Bound{{2, 0}}, Body: c10Duplex, MaxSteps: 200000, BudgetQ: 25, BudgetT: 300})
}
