package main

import (
	"context"
	"fmt"

	"github.com/hslam/rpc"
	vs "verif/shim/vsync"
)

// C02 — every call completes exactly once.
//
// Closed system: a real client Conn over a message pipe against a scripted raw peer that
// answers each request according to a driver-chosen script (normal, duplicate, unsolicited,
// error+duplicate, answer then EOF, EOF without answer), 1-2 outstanding calls of driver-chosen
// forms, an optional racing local Close, and (fault budget) a failing request write.

type c02call struct {
	form  int
	call  *rpc.Call
	done  chan *rpc.Call
	ret   bool  // blocking form returned
	err   error // error returned by the blocking form
	reply []byte
	args  []byte
	first string // Error at the first signal
	nsig  int    // signals observed on Done (async forms)
	tag   byte
	rawOK bool
}

const (
	formCall = iota
	formGo
	formRoundTrip
	formCallCtx
	formPing
	nForms
)

var formNames = []string{"Call", "Go", "RoundTrip", "CallWithContext", "Ping"}

func c02Body(ncalls int, withClose bool) func(x *X) { return c02BodyEnc(ncalls, withClose, "") }

func c02BodyEnc(ncalls int, withClose bool, encName string) func(x *X) {
	return func(x *X) {
		script := x.Choose(6)
		forms := make([]int, ncalls)
		for i := range forms {
			forms[i] = x.Choose(nForms)
		}
		enc := wireEncoder(encName)
		cl, sv := NewPipe()
		cl.WriteFaults = 0 // every request write may fail (fault budget)
		conn := newConn(cl, encName, 0, nil)
		// scripted raw peer
		vs.GoNamed("peer", func() {
			for {
				m, err := sv.ReadMessage(nil)
				if err != nil {
					return
				}
				rq, ok := decodeReq(enc, m)
				if !ok {
					continue
				}
				var reply []byte
				if len(rq.Args) > 0 {
					reply = transform(rq.Args)
				}
				good := mkRes(enc, rq.Seq, "", reply)
				switch script {
				case 0: // normal
					sv.WriteMessage(good)
				case 1: // duplicate with a different body
					sv.WriteMessage(good)
					sv.WriteMessage(mkRes(enc, rq.Seq, "", []byte{1, 2, 3, 4}))
				case 2: // unsolicited, normal, late error for the same sequence number
					sv.WriteMessage(mkRes(enc, rq.Seq+100, "", []byte{9, 9}))
					sv.WriteMessage(good)
					sv.WriteMessage(mkRes(enc, rq.Seq, "late error", nil))
				case 3: // error, then a success for the same sequence number
					sv.WriteMessage(mkRes(enc, rq.Seq, "boom", nil))
					sv.WriteMessage(good)
				case 4: // answer, then the peer goes away
					sv.WriteMessage(good)
					sv.Close()
					return
				case 5: // the peer goes away without answering
					sv.Close()
					return
				}
			}
		})
		shared := make(chan *rpc.Call, 10)
		calls := make([]*c02call, ncalls)
		for i := range calls {
			c := &c02call{form: forms[i], tag: byte(i + 1)}
			c.args = mkPayload(c.tag, 0, 20+i*9)
			calls[i] = c
			switch c.form {
			case formGo:
				c.done = shared
				vs.GoNamed(fmt.Sprintf("caller%d", i), func() {
					c.call = conn.Go("Svc.Echo", &c.args, &c.reply, c.done)
					c.ret = true
				})
			case formRoundTrip:
				c.done = shared
				vs.GoNamed(fmt.Sprintf("caller%d", i), func() {
					call := &rpc.Call{ServiceMethod: "Svc.Echo", Args: &c.args, Reply: &c.reply, Done: c.done}
					c.call = conn.RoundTrip(call)
					c.ret = true
				})
			case formCall:
				vs.GoNamed(fmt.Sprintf("caller%d", i), func() {
					c.err = conn.Call("Svc.Echo", &c.args, &c.reply)
					c.ret = true
				})
			case formCallCtx:
				vs.GoNamed(fmt.Sprintf("caller%d", i), func() {
					c.err = conn.CallWithContext(context.Background(), "Svc.Echo", &c.args, &c.reply)
					c.ret = true
				})
			case formPing:
				vs.GoNamed(fmt.Sprintf("caller%d", i), func() {
					c.err = conn.Ping()
					c.ret = true
				})
			}
		}
		// watcher: records Error at the moment of each signal on the shared Done channel
		vs.GoNamed("watcher", func() {
			for {
				call := recvCall(shared)
				for _, c := range calls {
					if c.call == call || (c.call == nil && c.done != nil && matchArgs(call, c)) {
						c.nsig++
						if c.nsig == 1 {
							c.first = errStr(call.Error)
						}
					}
				}
			}
		})
		if withClose {
			vs.GoNamed("closer", func() { conn.Close() })
		}
		vs.Quiesce()
		// follow-up traffic: a late completion would land on a recycled Call
		var fr []byte
		fargs := mkPayload(0x70, 0, 33)
		var ferr error
		fret := false
		vs.GoNamed("followup", func() { ferr = conn.Call("Svc.Echo", &fargs, &fr); fret = true })
		vs.Quiesce()
		out := fmt.Sprintf("script%d", script)
		for i, c := range calls {
			name := formNames[c.form]
			var cerr error
			if c.done != nil {
				if !c.ret {
					x.Fail("C02/async-form-blocked/form="+name, "%s did not return", name)
					continue
				}
				cerr = c.call.Error
				if c.nsig != 1 {
					x.Fail(fmt.Sprintf("C02/completions=%d/form=%s", c.nsig, name), "call %d (%s) was signalled %d times on its Done channel (script %d, close=%v); Error at first signal %q, now %q", i, name, c.nsig, script, withClose, c.first, errStr(cerr))
				} else if c.first != errStr(cerr) {
					x.Fail("C02/error-changed-after-signal/form="+name, "call %d (%s): Error was %q when signalled and is %q now", i, name, c.first, errStr(cerr))
				}
			} else {
				if !c.ret {
					x.Fail("C02/never-completed/form="+name, "call %d (%s) never returned (script %d, close=%v)", i, name, script, withClose)
					continue
				}
				cerr = c.err
			}
			if cerr == nil && c.form != formPing && !eqBytes(c.reply, transform(c.args)) {
				// scripts 1-3 deliver contradictory duplicates; the first response for the sequence number is the good one
				x.Fail("C02/success-without-own-reply/form="+name, "call %d (%s) completed without error but its reply is %x, want %x", i, name, c.reply, transform(c.args))
			}
			out += fmt.Sprintf(" %s:%s/%d", name, errStr(cerr), c.nsig)
		}
		if !fret {
			x.Fail("C02/followup-blocked", "a call issued after quiescence never returned")
		} else if ferr == nil && !eqBytes(fr, transform(fargs)) {
			x.Fail("C02/followup-wrong-reply", "follow-up call succeeded with reply %x, want %x (a late completion landed on a recycled Call?)", fr, transform(fargs))
		}
		out += " followup:" + errStr(ferr)
		x.Outcome("%s", out)
		conn.Close()
		vs.Quiesce()
	}
}

func matchArgs(call *rpc.Call, c *c02call) bool {
	p, ok := call.Args.(*[]byte)
	return ok && p == &c.args
}

func init() {
	register(&Scenario{Prop: "C02", Name: "c02/raw-1call-close", Quick: []Bound{{1, 1}, {2, 1}}, Thorough: []Bound{{2, 1}, {3, 1}, {3, 2}}, Body: c02Body(1, true), MinOutcomes: 3})
	register(&Scenario{Prop: "C02", Name: "c02/raw-2calls", Quick: []Bound{{1, 1}}, Thorough: []Bound{{2, 1}, {2, 2}}, Body: c02Body(2, false)})
	register(&Scenario{Prop: "C02", Name: "c02/raw-1call-close-yieldcodec", Quick: []Bound{{1, 1}}, Thorough: []Bound{{2, 1}}, Body: c02BodyEnc(1, true, "yield-pb")})
	// the same closed system judged for crashes only (C08: a disconnecting or misbehaving peer must not panic a client)
	register(&Scenario{Prop: "C08", Name: "c08/client-peer-scripts", Quick: []Bound{{2, 1}}, Thorough: []Bound{{3, 1}}, Body: c02Body(1, true), OnlyKeys: []string{"panic/", "livelock/"}})
	register(&Scenario{Prop: "C08", Name: "c08/client-peer-scripts-yieldcodec", Quick: []Bound{{1, 1}}, Thorough: []Bound{{2, 1}}, Body: c02BodyEnc(2, true, "yield-pb"), OnlyKeys: []string{"panic/", "livelock/"}})
	register(&Scenario{Prop: "C02", Name: "c02/raw-2calls-close", Quick: []Bound{{1, 0}}, Thorough: []Bound{{2, 1}}, Body: c02Body(2, true)})
}

// rejectCodec: a body codec that yields and then refuses values starting with 0xEE 0xEE (a
// request that cannot be encoded fails locally, while other calls are in flight).
type rejectCodec struct{ inner rpc.Codec }

var errRejected = fmt.Errorf("value rejected by the body codec")

func (c rejectCodec) Marshal(buf []byte, v interface{}) ([]byte, error) {
	vs.Yield()
	if p, ok := v.(*[]byte); ok && len(*p) >= 2 && (*p)[0] == 0xEE && (*p)[1] == 0xEE {
		return nil, errRejected
	}
	return c.inner.Marshal(buf, v)
}

func (c rejectCodec) Unmarshal(data []byte, v interface{}) error { return c.inner.Unmarshal(data, v) }

func rejectBytesCodec() rpc.Codec { return rejectCodec{&rpc.BYTESCodec{}} }

// a request that cannot be encoded, issued between other calls: every call is still completed
// exactly once, the unencodable one with its own error, the others with their own replies.
func c02EncodeFailure(x *X) {
	pipelined := x.Choose(2) == 1
	nbad := 1 + x.Choose(2)
	f := newFixture(srvOpts{bufSize: 64, codec: rejectBytesCodec}, cliOpts{bufSize: 64, pipelining: pipelined})
	var bad []*ucall
	for i := 0; i < nbad; i++ {
		c := newUcall(0xEE, 0xEE, 20+i, formGo)
		bad = append(bad, c)
		c.spawn(f.conn)
	}
	b := newUcall(2, fGate, 31, formGo)
	b.spawn(f.conn)
	vs.QuiesceKeep()
	c := newUcall(3, fGate, 44, formCall)
	c.spawn(f.conn)
	d := newUcall(4, 0, 27, formRoundTrip)
	d.spawn(f.conn)
	vs.QuiesceKeep()
	f.w.open(3)
	vs.QuiesceKeep()
	f.w.open(2)
	vs.Quiesce()
	out := ""
	for _, a := range bad {
		switch {
		case !a.ret:
			x.Fail("C02/never-completed/unencodable", "a call whose arguments the body codec rejects never completed")
		case a.err == nil:
			x.Fail("C02/unencodable-call-succeeded", "a call whose arguments the body codec rejects completed without error, reply %x", a.reply)
		}
		out += " bad:" + errStr(a.err)
	}
	for _, c := range []*ucall{b, c, d} {
		switch {
		case !c.ret:
			x.Fail("C02/never-completed/next-to-unencodable", "call %d (%s) issued next to a call that could not be encoded never completed", c.tag, formNames[c.form])
		case c.err != nil:
			x.Fail("C02/failed/next-to-unencodable", "call %d (%s) issued next to a call that could not be encoded failed: %v", c.tag, formNames[c.form], c.err)
		case !eqBytes(c.reply, c.want()):
			x.Fail("C02/success-without-own-reply/next-to-unencodable", "call %d (%s) completed without error but its reply is %x, want %x", c.tag, formNames[c.form], c.reply, c.want())
		}
		out += fmt.Sprintf(" %d:%v/%s", c.tag, c.ret, errStr(c.err))
	}
	if n := f.conn.NumCalls(); n != 0 {
		x.Fail("C02/calls-left-registered", "NumCalls is %d after every call has completed", n)
	}
	x.Outcome("pipelined=%v nbad=%d%s", pipelined, nbad, out)
	f.conn.Close()
	vs.Quiesce()
}

func init() {
	register(&Scenario{Prop: "C02", Name: "c02/encode-failure-among-calls", Quick: []Bound{{1, 0}, {2, 0}}, Thorough: []Bound{{3, 0}}, Body: c02EncodeFailure, BudgetQ: 20})
}

// through a Transport: the pooled connection has been parked in the idle queue (unused past
// KeepAlive) and the server has closed it meanwhile (it restarted); the next asynchronous call
// for that host is signalled on its Done channel exactly once, whatever the Transport does
// about the stale connection.
func c02Parked(x *X) {
	form := []int{formGo, formRoundTrip}[x.Choose(2)]
	restart := x.Choose(2) == 1 // the server is reachable again / stays down
	t := newTrSys(x, "C02", 1, 1)
	t.call("a", formCall)
	t.advance(tKeepAlive+tTick, ">keepalive")
	t.kill("a")
	if restart {
		t.restart("a")
	}
	c := newUcall(0x51, 0, 22, form)
	done := make(chan *rpc.Call, 8)
	var call *rpc.Call
	if form == formGo {
		call = t.tr.Go("a", c.method, &c.args, &c.reply, done)
	} else {
		call = t.tr.RoundTrip("a", &rpc.Call{ServiceMethod: c.method, Args: &c.args, Reply: &c.reply, Done: done})
	}
	vs.Quiesce()
	n := len(done)
	first := "none"
	if n > 0 {
		f := <-done
		first = errStr(f.Error)
		if f != call {
			x.Fail("C02/foreign-call-signalled/transport-parked", "the Done channel received a Call that is not the one returned")
		}
	}
	switch {
	case n == 0:
		x.Fail("C02/never-completed/transport-parked", "%s on a host whose parked connection the server had closed was never signalled", formNames[form])
	case n > 1:
		x.Fail(fmt.Sprintf("C02/completions=%d/transport-parked", n), "%s on a host whose parked connection the server had closed was signalled %d times on its Done channel (Error at the first signal: %s, now: %s)", formNames[form], n, first, errStr(call.Error))
	case first != errStr(call.Error):
		x.Fail("C02/error-changed-after-signal/transport-parked", "Error was %s when signalled and is %s now", first, errStr(call.Error))
	case call.Error == nil && !eqBytes(c.reply, c.want()):
		x.Fail("C02/success-without-own-reply/transport-parked", "completed without error, reply %x", c.reply)
	}
	x.Outcome("form=%d restart=%v n=%d err=%s", form, restart, n, errStr(call.Error))
	t.shutdown()
}

func init() {
	register(&Scenario{Prop: "C02", Name: "c02/transport-parked-connection", Quick: []Bound{{0, 0}, {1, 0}}, Thorough: []Bound{{2, 0}}, Body: c02Parked, MaxSteps: 200000, BudgetQ: 15})
}

// the Client (load balancer) in front of a RoundTripper that, like the Transport, has already
// signalled completion when Go / RoundTrip return: four calls in a row while one (or every) target
// has just gone away and is still on the alive list.  Every Call is signalled exactly once, on the
// channel the caller gave, as the object Go / RoundTrip returned, and its Error does not change
// afterwards.
func c02ClientCompletion(x *X) {
	sched := rpc.Scheduling(x.Choose(3))
	form := []int{cfGo, cfRoundTrip}[x.Choose(2)]
	down := x.Choose(4) // nobody / a / b / both
	capa := 1 + x.Choose(2)*3
	s := newCliSys(x, sched, "a", "b")
	s.rt.up["a"], s.rt.up["b"] = true, true
	s.tick(2)
	if down&1 != 0 {
		s.rt.up["a"] = false
	}
	if down&2 != 0 {
		s.rt.up["b"] = false
	}
	out := ""
	for i := 0; i < 4; i++ {
		done := make(chan *rpc.Call, capa)
		var call *rpc.Call
		vs.GoNamed(fmt.Sprintf("caller%d", i), func() {
			if form == cfGo {
				call = s.c.Go("X.Y", nil, nil, done)
			} else {
				call = s.c.RoundTrip(&rpc.Call{ServiceMethod: "X.Y", Done: done})
			}
		})
		vs.Quiesce()
		if call == nil {
			x.Fail("C02/client-call-hangs", "Client.%s did not return (targets down: %d)", cfNames[form], down)
			break
		}
		n := len(done)
		var first *rpc.Call
		var firstErr error
		if n > 0 {
			first = <-done
			firstErr = first.Error
		}
		switch {
		case n == 0:
			x.Fail("C02/done-signals=0/client", "Client.%s returned a call that was never signalled on its Done channel (capacity %d, targets down: %d, call %d)", cfNames[form], capa, down, i)
		case first != call:
			x.Fail("C02/foreign-call-on-done/client", "the Done channel given to Client.%s delivered a call (error %v) that is not the one it returned (capacity %d, targets down: %d, call %d)", cfNames[form], firstErr, capa, down, i)
		case n > 1:
			x.Fail(fmt.Sprintf("C02/done-signals=%d/client", n), "the call of Client.%s was signalled %d times (targets down: %d, call %d)", cfNames[form], n, down, i)
		case call.Error != firstErr:
			x.Fail("C02/error-changed-after-signal/client", "the call's Error was %v when it was signalled and is %v now", firstErr, call.Error)
		}
		out += fmt.Sprintf(" %d:%s", n, errStr(call.Error))
	}
	x.Outcome("sched=%d form=%s down=%d cap=%d%s", sched, cfNames[form], down, capa, out)
	s.close()
}

func init() {
	register(&Scenario{Prop: "C02", Name: "c02/client-completion", Quick: []Bound{{0, 0}, {1, 0}}, Thorough: []Bound{{2, 0}}, Body: c02ClientCompletion, BudgetQ: 15, MinHB: 1})
}

// Call objects that are used again (RoundTrip takes a caller-owned Call) and share one Done
// channel with other calls: in every round each call that is issued is signalled exactly once on
// that channel, also when one call's completion is already waiting in the channel while the other
// call is issued again.
func c02ReusedSharedDone(x *X) {
	pipelined := x.Choose(2) == 1
	gap := x.Choose(2) == 1 // the first completion of a round is in the channel before the second call is issued
	f := newFixture(srvOpts{bufSize: 64}, cliOpts{bufSize: 64, pipelining: pipelined})
	done := make(chan *rpc.Call, 8)
	type slot struct {
		call  *rpc.Call
		args  []byte
		reply []byte
	}
	mk := func() *slot { s := &slot{}; s.call = &rpc.Call{ServiceMethod: "Svc.Echo", Done: done}; return s }
	a, b := mk(), mk()
	for round := 0; round < 3; round++ {
		for i, s := range []*slot{a, b} {
			s.args = mkPayload(byte(0x10*(round+1)+i), 0, 12+round+i)
			s.reply = nil
			s.call.Args, s.call.Reply, s.call.Error = &s.args, &s.reply, nil
			f.conn.RoundTrip(s.call)
			if gap {
				vs.Quiesce()
			}
		}
		vs.Quiesce()
		got := map[*rpc.Call]int{}
		for len(done) > 0 {
			got[<-done]++
		}
		for i, s := range []*slot{a, b} {
			if got[s.call] != 1 {
				x.Fail(fmt.Sprintf("C02/done-signals=%d/reused-shared-done", got[s.call]), "round %d: call object %d (used for its round trip number %d, sharing its Done channel with another call object) was signalled %d times (client pipelining %v, the first completion already in the channel when the second call was issued: %v)", round, i, round+1, got[s.call], pipelined, gap)
			} else if s.call.Error != nil || !eqBytes(s.reply, transform(s.args)) {
				x.Fail("C02/wrong-result/reused-shared-done", "round %d call %d: err=%v", round, i, s.call.Error)
			}
		}
	}
	x.Outcome("pipelined=%v gap=%v", pipelined, gap)
	f.conn.Close()
	vs.Quiesce()
}

// one Call object used for a sequence of Transport.RoundTrips across the life of a server: success,
// the connection is lost (ErrShutdown), the server is unreachable (ErrDial, completed by the
// Transport itself), the server is back (success): each round trip signals the call exactly once.
func c02TransportReusedCall(x *X) {
	lim := [][2]int{{1, 1}, {2, 2}}[x.Choose(2)]
	t := newTrSys(x, "C02", lim[0], lim[1])
	done := make(chan *rpc.Call, 4)
	call := &rpc.Call{ServiceMethod: "Svc.Echo", Done: done}
	step := func(label string, wantOK bool) {
		args := mkPayload(t.tag(), 0, 16)
		var reply []byte
		call.Args, call.Reply, call.Error = &args, &reply, nil
		ret := false
		vs.GoNamed("caller", func() { t.tr.RoundTrip("a", call); ret = true })
		vs.Quiesce()
		n := len(done)
		for len(done) > 0 {
			<-done
		}
		switch {
		case !ret:
			x.Fail("C02/roundtrip-hangs/transport-reused-call", "%s: Transport.RoundTrip did not return", label)
		case n != 1:
			x.Fail(fmt.Sprintf("C02/done-signals=%d/transport-reused-call", n), "%s: the reused Call was signalled %d times (Error %v)", label, n, call.Error)
		case wantOK && (call.Error != nil || !eqBytes(reply, transform(args))):
			x.Fail("C02/wrong-result/transport-reused-call", "%s: err=%v", label, call.Error)
		case !wantOK && call.Error == nil:
			x.Fail("C02/wrong-result/transport-reused-call", "%s: the call succeeded although the server is gone", label)
		}
		t.log = append(t.log, label+"="+errStr(call.Error))
	}
	step("server up", true)
	step("server up again", true)
	t.kill("a")
	step("connection lost", false)
	step("server unreachable", false)
	step("server unreachable again", false)
	t.restart("a")
	step("server back", true)
	x.Outcome("lim=%v %v", lim, t.log)
	t.shutdown()
}

func init() {
	register(&Scenario{Prop: "C02", Name: "c02/reused-calls-sharing-a-done-channel", Quick: []Bound{{0, 0}, {1, 0}}, Thorough: []Bound{{2, 0}}, Body: c02ReusedSharedDone, BudgetQ: 15})
	register(&Scenario{Prop: "C02", Name: "c02/transport-reused-call", Quick: []Bound{{0, 0}, {1, 0}}, Thorough: []Bound{{2, 0}}, Body: c02TransportReusedCall, MaxSteps: 200000, BudgetQ: 15})
}

// a burst of thousands of calls outstanding at the same time on one connection (the peer's answers are
// held back, then arrive together), and a call that is issued while the reader is handing over the LAST
// answer of the burst (the user's body codec is slow in that Unmarshal: the new call is registered right
// there).  Every call of the burst and the late one are completed exactly once with their own replies.
type parkCodec struct {
	inner rpc.Codec
	st    *parkState
}
type parkState struct {
	lastTag        byte
	inLast, goOn   bool
	unmarshalCalls int
}

func (c parkCodec) Marshal(buf []byte, v interface{}) ([]byte, error) { return c.inner.Marshal(buf, v) }
func (c parkCodec) Unmarshal(data []byte, v interface{}) error {
	c.st.unmarshalCalls++
	if len(data) > 0 && c.st.lastTag != 0 && data[len(data)-1] == c.st.lastTag^0x5A && !c.st.inLast { // (replies are the reversed, masked arguments)
		c.st.inLast = true
		vs.Block("user codec: slow Unmarshal of the last reply", func() bool { return c.st.goOn })
	}
	return c.inner.Unmarshal(data, v)
}

func c02Burst(x *X) {
	n := []int{300, 4200}[x.Choose(2)]
	dio := x.Choose(2) == 1
	st := &parkState{}
	so := srvOpts{bufSize: 64}
	w := newWorld()
	srv := newServer(w, so)
	cl, sv := NewPipe()
	serveCodec(srv, sv, so)
	conn := newConn(cl, "", 64, func() rpc.Codec { return parkCodec{&rpc.BYTESCodec{}, st} })
	if dio {
		conn.SetDirectIO(true)
	}
	warm := newUcall(1, 0, 20, formCall)
	warm.issue(conn)
	cl.p.stall[1] = true // the peer's answers are held back
	done := make(chan *rpc.Call, n+8)
	calls := make([]*ucall, n)
	for i := range calls {
		tag := byte(2 + i%100)
		if i == n-1 {
			tag = 0x7E
		}
		c := newUcall(tag, 0, 6+i%20, formGo)
		c.args[1] = 0
		calls[i] = c
		c.call = conn.Go(c.method, &c.args, &c.reply, done)
	}
	vs.Quiesce()
	if k := conn.NumCalls(); k != uint64(n) {
		x.Fail("C02/outstanding-count/burst", "%d calls were issued and none answered; NumCalls reports %d", n, k)
	}
	st.lastTag = 0x7E
	late := newUcall(0x7F, 0, 24, formGo)
	lateDone := make(chan *rpc.Call, 1)
	vs.GoNamed("late-caller", func() {
		vs.Block("until the reader hands over the last answer", func() bool { return st.inLast })
		late.call = conn.Go(late.method, &late.args, &late.reply, lateDone)
		st.goOn = true
	})
	sv.Unstall()
	vs.Quiesce()
	if !st.inLast {
		st.goOn = true
		x.Fail("C02/setup/burst", "the body codec never saw the last reply (%d Unmarshal calls)", st.unmarshalCalls)
	}
	got := map[*rpc.Call]int{}
	for len(done) > 0 {
		got[<-done]++
	}
	for i, c := range calls {
		switch k := got[c.call]; {
		case k == 0:
			x.Fail("C02/never-completed/burst", "call %d of a burst of %d was never completed", i, n)
		case k > 1:
			x.Fail("C02/completed-twice/burst", "call %d of a burst of %d was completed %d times", i, n, k)
		case c.call.Error != nil || !eqBytes(c.reply, c.want()):
			x.Fail("C02/wrong-outcome/burst", "call %d of a burst of %d: err=%v", i, n, c.call.Error)
		}
		if got[c.call] != 1 {
			break
		}
	}
	if len(lateDone) == 0 {
		x.Fail("C02/never-completed/after-burst", "a call issued while the reader was handing over the last answer of a burst of %d (inside the user's Unmarshal, direct I/O %v) has not been completed although the server answered it; NumCalls=%d", n, dio, conn.NumCalls())
	} else if <-lateDone; late.call.Error != nil || !eqBytes(late.reply, late.want()) {
		x.Fail("C02/wrong-outcome/after-burst", "the call issued right after a burst of %d: err=%v", n, late.call.Error)
	}
	after := newUcall(0x11, fGate, 20, formGo)
	afterDone := make(chan *rpc.Call, 1)
	after.call = conn.Go(after.method, &after.args, &after.reply, afterDone)
	vs.Quiesce()
	conn.Close()
	vs.Quiesce()
	if len(afterDone) != 1 || after.call.Error != rpc.ErrShutdown {
		x.Fail("C02/not-failed-by-close/after-burst", "a call outstanding when the connection was closed (after a burst of %d) was completed %d times, error %v", n, len(afterDone), after.call.Error)
	}
	if len(lateDone) > 0 || len(done) > 0 {
		x.Fail("C02/completed-twice/burst", "Close completed calls again: %d + %d", len(lateDone), len(done))
	}
	x.Outcome("n=%d dio=%v unmarshal=%d", n, dio, st.unmarshalCalls)
	w.open(0x11)
	vs.Quiesce()
}

func init() {
	register(&Scenario{Prop: "C02", Name: "c02/burst-then-call-inside-last-unmarshal", Quick: []Bound{{0, 0}}, Thorough: []Bound{{0, 0}}, Body: c02Burst, MaxSteps: 5000000, BudgetQ: 60, BudgetT: 200})
}
