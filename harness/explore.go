package main

import (
	"encoding/gob"
	"fmt"
	"io"
	"os"
	"os/exec"
	"runtime"
	"sort"
	"strconv"
	"strings"
	"sync/atomic"
	"time"

	vs "verif/shim/vsync"
)

// Bound of an exploration: D schedule deviations, F environment deviations.
type Bound struct{ D, F int }

// Scenario is one closed system plus its oracle.
type Scenario struct {
	Prop     string
	Name     string
	Quick    []Bound
	Thorough []Bound
	MaxSteps int
	Atomic   bool
	NoPoison bool
	// BudgetQ/BudgetT: wall seconds allowed for this scenario per tier (0 = default)
	BudgetQ, BudgetT int
	Body             func(x *X)
	// MinOutcomes: vacuity guard — fewer distinct outcomes than this at the largest bound is an engine error.
	MinOutcomes int
	// MinHB: vacuity guard on distinct happens-before signatures (default 2).
	MinHB int
	// OnlyKeys: when set, only violations whose key starts with one of these prefixes count
	// (a body shared between properties reports each property's clauses under its own check).
	OnlyKeys []string
	NoStalls bool
	// UnlockedWrites: struct-field writes by a thread holding no lock are scheduling points
	UnlockedWrites bool
	// UnlockPoints: every Mutex/RWMutex release is followed by a scheduling point
	UnlockPoints bool
	// SoloStalls: while the driver waits between events (QuiesceKeep), a thread that is the only enabled
	// one may be stalled as well (one deviation): the driver goes on to its next event
	SoloStalls bool
	// SeqBases: when set, a driver choice picks the sequence number at which the harness-made
	// connections of this execution start
	SeqBases []uint64
	// MapRaces: vector clocks + reported map accesses: unsynchronised concurrent map access is a violation
	// (key fatal/concurrent-map-access/<function>); see shim/vsync/race.go
	MapRaces bool
	// MapOrder: the iteration order of every instrumented map range is an environment choice
	// (rotations of the canonical order; counted by the fault bound)
	MapOrder bool
}

var scenarios []*Scenario

func register(s *Scenario) { scenarios = append(scenarios, s) }

// forceMapRaces (development knob, inherited by the workers): run every scenario with the map-race detector.
var forceMapRaces = os.Getenv("VERIF_FORCE_MAPRACES") != ""

// forceUnlock (development knob, inherited by the workers): run every scenario with a scheduling
// point after each lock release.
var forceUnlock = os.Getenv("VERIF_FORCE_UNLOCK") != ""

func findScenario(name string) *Scenario {
	for _, s := range scenarios {
		if s.Name == name {
			return s
		}
	}
	return nil
}

// Violation found in one execution.
type Violation struct {
	Key string
	Msg string
}

// X is the per-execution context handed to a scenario body.
type X struct {
	viol    []Violation
	outcome []string
	notes   []string
	cases   int64
	shapes  map[string]struct{}
}

// Case counts one enumerated input case and its shape class (input-enumeration scenarios).
func (x *X) Case(shape string) {
	x.cases++
	if x.shapes == nil {
		x.shapes = map[string]struct{}{}
	}
	if len(x.shapes) < 5000 {
		x.shapes[shape] = struct{}{}
	}
}

// Fail records a violation of the scenario's property.
func (x *X) Fail(key, format string, a ...interface{}) {
	for _, v := range x.viol {
		if v.Key == key {
			return
		}
	}
	x.viol = append(x.viol, Violation{Key: key, Msg: fmt.Sprintf(format, a...)})
}

// Outcome adds a component to the outcome fingerprint of this execution.
func (x *X) Outcome(format string, a ...interface{}) {
	x.outcome = append(x.outcome, fmt.Sprintf(format, a...))
}

// Choose is a driver choice (enumerated completely, free of cost).
func (x *X) Choose(n int) int { return vs.Choose(vs.KDriver, n) }

// Fault is an environment choice: 0 is the default answer, others cost one fault unit.
func (x *X) Fault(n int) int { return vs.Choose(vs.KEnv, n) }

// ExecReport is what one execution produced.
type ExecReport struct {
	Choices  []int
	Points   []vs.Point
	Viol     []Violation
	Outcome  string
	Res      *vs.Result
	EngineEr string
	Cases    int64
	Shapes   map[string]struct{}
}

func panicClass(v string) string {
	// strip numbers so that one defect has one key
	var b strings.Builder
	for _, r := range v {
		if r >= '0' && r <= '9' {
			continue
		}
		b.WriteRune(r)
	}
	s := b.String()
	if len(s) > 80 {
		s = s[:80]
	}
	return s
}

func shortFunc(f string) string {
	f = strings.TrimPrefix(f, "github.com/hslam/rpc.")
	return f
}

// runOne executes the scenario once along prefix.
// execStart is when the execution in progress began (unix nanoseconds; 0: none): the worker's watchdog reads it.
var execStart int64

func runOne(sc *Scenario, prefix []int, trace bool) *ExecReport {
	atomic.StoreInt64(&execStart, time.Now().UnixNano())
	defer atomic.StoreInt64(&execStart, 0)
	x := &X{}
	cfg := vs.Config{Prefix: prefix, MaxSteps: sc.MaxSteps, Trace: trace, AtomicPoints: sc.Atomic, NoPoison: sc.NoPoison, NoStalls: sc.NoStalls, SoloStalls: sc.SoloStalls, UnlockedWrites: sc.UnlockedWrites, UnlockPoints: sc.UnlockPoints || forceUnlock, MapRaces: sc.MapRaces || (forceMapRaces && sc.MaxSteps <= 500000)} // (vector clocks grow with the number of threads: never on the long histories)
	if sc.MapOrder {
		vs.MapOrderChoices = true
	}
	body := sc.Body
	if len(sc.SeqBases) > 0 {
		body = func(x *X) {
			seqBase = sc.SeqBases[x.Choose(len(sc.SeqBases))]
			defer func() { seqBase = 0 }()
			sc.Body(x)
		}
	}
	res := vs.Run(cfg, func() { body(x) })
	if sc.MapOrder {
		vs.MapOrderChoices = false
	}
	rep := &ExecReport{Points: res.Points, Res: res}
	rep.Choices = make([]int, len(res.Points))
	for i, p := range res.Points {
		rep.Choices[i] = p.Choice
	}
	if res.Err != "" {
		rep.EngineEr = res.Err
	} else if len(res.Points) < len(prefix) {
		rep.EngineEr = fmt.Sprintf("replay divergence: the execution ended after %d choice points, the prefix has %d", len(res.Points), len(prefix))
	}
	for _, p := range res.Panics {
		if strings.HasPrefix(p.Func, "concurrent-map-access/") {
			x.Fail("fatal/"+p.Func, "%s", p.Value)
			continue
		}
		x.Fail("panic/"+shortFunc(p.Func)+"/"+panicClass(p.Value), "panic in thread %d (%s): %s\n%s", p.Thread, p.Name, p.Value, trimStack(p.Stack))
	}
	if len(res.Threads) > 0 && res.Threads[0].State != "done" && len(res.Panics) == 0 && !res.Aborted && res.Err == "" {
		// the scenario driver itself is stuck inside a synchronous call into the library
		what := res.Threads[0].What
		if i := strings.Index(what, " @"); i > 0 {
			what = what[:i]
		}
		x.Fail("hang/driver-blocked/"+what, "the scenario driver never returned from a synchronous library call: blocked on %q; outcome so far: %s", res.Threads[0].What, strings.Join(x.outcome, " | "))
	}
	if res.Aborted {
		x.Fail("livelock/step-horizon", "execution did not quiesce within %d scheduling steps", res.Steps)
	}
	rep.Viol = x.viol
	if len(sc.OnlyKeys) > 0 {
		rep.Viol = nil
		for _, v := range x.viol {
			for _, p := range append([]string{"fatal/"}, sc.OnlyKeys...) {
				if strings.HasPrefix(v.Key, p) {
					rep.Viol = append(rep.Viol, v)
					break
				}
			}
		}
	}
	rep.Cases, rep.Shapes = x.cases, x.shapes
	rep.Outcome = strings.Join(x.outcome, " | ")
	if len(res.Panics) > 0 {
		rep.Outcome += " PANIC"
	}
	return rep
}

func trimStack(st string) string {
	lines := strings.Split(st, "\n")
	var out []string
	for _, l := range lines {
		if strings.Contains(l, "hslam/rpc") || strings.Contains(l, "/repo/") {
			out = append(out, l)
		}
		if len(out) >= 12 {
			break
		}
	}
	return strings.Join(out, "\n")
}

// Item is a unit of work: explore the subtree below Prefix.
type Item struct {
	Scenario string
	Prefix   []int
	Bound    Bound
	Split    int // >0: run this node only and return its children
	Deadline time.Time
	Retries  int // times this item was handed out again after its worker had to be replaced
}

// FoundViolation is a violation with the choice sequence that produced it.
type FoundViolation struct {
	Key     string
	Msg     string
	Choices []int
	Cost    int
	Outcome string
}

// ItemResult aggregates a subtree.
type ItemResult struct {
	Execs     int64
	Points    int64
	Steps     int64
	MaxPoints int
	Outcomes  map[string]int64
	HB        []uint64
	Viol      map[string]*FoundViolation
	ViolCount map[string]int64
	Children  []Item
	EngineErr string
	Truncated bool
	Samples   []Sample
	Cases     int64
	Shapes    []string
}

// Sample is one explored execution written out for the evidence file.
type Sample struct {
	Scenario string `json:"scenario"`
	Choices  []int  `json:"choices"`
	Kinds    string `json:"kinds"`
	Outcome  string `json:"outcome"`
	// executions of the long histories have hundreds of thousands of choice points: the evidence keeps
	// their number and the first 64 (the others are the default choice 0 unless a replay file says otherwise)
	ChoicePoints int `json:"choice_points,omitempty"`
}

func newSample(scenario string, choices []int, kinds, outcome string) Sample {
	s := Sample{Scenario: scenario, Choices: choices, Kinds: kinds, Outcome: outcome}
	if len(choices) > 256 {
		s.ChoicePoints = len(choices)
		s.Choices = append([]int(nil), choices[:64]...)
		s.Kinds = kinds[:64] + "..."
	}
	if len(s.Outcome) > 2000 {
		s.Outcome = s.Outcome[:2000] + "..."
	}
	return s
}

func kindsString(pts []vs.Point) string {
	b := make([]byte, len(pts))
	for i, p := range pts {
		b[i] = "sed"[p.Kind]
	}
	return string(b)
}

type explorer struct {
	sc       *Scenario
	bound    Bound
	deadline time.Time
	res      *ItemResult
	hb       map[uint64]struct{}
	shapes   map[string]struct{}
}

const maxOutcomeKeys = 4000

// memory bounds of the work queue: a node whose children's prefixes add up to more than maxSplitInts is not
// split; while the coordinator's queue holds more than maxQueueInts the items it hands out are not split further
const maxSplitInts = 4000000
const maxQueueInts = 60000000
const maxHBPerItem = 200000

func (e *explorer) record(rep *ExecReport, plen int) {
	r := e.res
	r.Execs++
	r.Points += int64(len(rep.Points) - plen)
	r.Steps += int64(rep.Res.Steps)
	if len(rep.Points) > r.MaxPoints {
		r.MaxPoints = len(rep.Points)
	}
	if len(r.Outcomes) < maxOutcomeKeys || r.Outcomes[rep.Outcome] > 0 {
		r.Outcomes[rep.Outcome]++
	}
	if len(e.hb) < maxHBPerItem {
		e.hb[rep.Res.HB] = struct{}{}
	}
	r.Cases += rep.Cases
	for k := range rep.Shapes {
		if len(e.shapes) < 20000 {
			e.shapes[k] = struct{}{}
		}
	}
	if rep.EngineEr != "" && r.EngineErr == "" {
		r.EngineErr = fmt.Sprintf("%s (scenario %s choices %v)", rep.EngineEr, e.sc.Name, rep.Choices)
	}
	if len(r.Samples) < 2 {
		r.Samples = append(r.Samples, newSample(e.sc.Name, rep.Choices, kindsString(rep.Points), rep.Outcome))
	}
	for _, v := range rep.Viol {
		r.ViolCount[v.Key]++
		d, f := costs(rep.Points, len(rep.Points))
		c := d + f
		if old := r.Viol[v.Key]; old == nil || c < old.Cost || c == old.Cost && len(rep.Choices) < len(old.Choices) {
			r.Viol[v.Key] = &FoundViolation{Key: v.Key, Msg: v.Msg, Choices: rep.Choices, Cost: c, Outcome: rep.Outcome}
		}
	}
}

func costs(pts []vs.Point, upto int) (d, f int) {
	for i := 0; i < upto; i++ {
		if pts[i].Choice != 0 {
			switch pts[i].Kind {
			case vs.KSched:
				d++
			case vs.KEnv:
				f++
			}
		}
	}
	return
}

// children lists the alternative prefixes branching off the execution rep at positions >= from.
type child struct {
	prefix []int
	kind   vs.Kind
}

func (e *explorer) children(rep *ExecReport, from int) []child {
	var out []child
	d, f := costs(rep.Points, from)
	for i := from; i < len(rep.Points); i++ {
		p := rep.Points[i]
		ok := true
		switch p.Kind {
		case vs.KSched:
			ok = d+1 <= e.bound.D
		case vs.KEnv:
			ok = f+1 <= e.bound.F
		}
		if ok {
			for alt := 1; alt < p.N; alt++ {
				np := make([]int, i+1)
				copy(np, rep.Choices[:i])
				np[i] = alt
				out = append(out, child{np, p.Kind})
			}
		}
		if p.Choice != 0 {
			switch p.Kind {
			case vs.KSched:
				d++
			case vs.KEnv:
				f++
			}
		}
	}
	return out
}

func (e *explorer) explore(prefix []int, split int) {
	if e.res.EngineErr != "" {
		return
	}
	if !e.deadline.IsZero() && e.res.Execs%64 == 0 && time.Now().After(e.deadline) {
		e.res.Truncated = true
		return
	}
	rep := runOne(e.sc, prefix, false)
	e.record(rep, len(prefix))
	if rep.EngineEr != "" {
		return
	}
	kids := e.children(rep, len(prefix))
	if split > 0 {
		// handing the children of a very long execution back to the coordinator would cost more memory than the
		// parallelism is worth (every child carries its whole choice prefix): such a node is explored in place
		total := 0
		for _, k := range kids {
			total += len(k.prefix)
		}
		if total > maxSplitInts {
			split = 0
		}
	}
	if split > 0 {
		for _, k := range kids {
			ns := split - 1
			if k.kind == vs.KDriver {
				ns = split // driver alternatives (variants) are split further
			}
			e.res.Children = append(e.res.Children, Item{Scenario: e.sc.Name, Prefix: k.prefix, Bound: e.bound, Split: ns, Deadline: e.deadline})
		}
		return
	}
	for _, k := range kids {
		e.explore(k.prefix, 0)
		if e.res.Truncated {
			return
		}
	}
}

func processItem(it Item) *ItemResult {
	sc := findScenario(it.Scenario)
	res := &ItemResult{Outcomes: map[string]int64{}, Viol: map[string]*FoundViolation{}, ViolCount: map[string]int64{}}
	if sc == nil {
		res.EngineErr = "unknown scenario " + it.Scenario
		return res
	}
	e := &explorer{sc: sc, bound: it.Bound, deadline: it.Deadline, res: res, hb: map[uint64]struct{}{}, shapes: map[string]struct{}{}}
	e.explore(it.Prefix, it.Split)
	for h := range e.hb {
		res.HB = append(res.HB, h)
	}
	for k := range e.shapes {
		res.Shapes = append(res.Shapes, k)
	}
	return res
}

// ---- worker process protocol (gob over stdin/stdout)

// watchdogLimit: no single execution of any scenario takes longer than a few seconds; one that has not ended
// after this long is stuck outside the controlled scheduler (an engine problem, never a verdict).  The worker
// writes every goroutine's stack to stderr and to a file and exits; the coordinator hands the item to a
// fresh worker once more before it gives up with ENGINE-ERROR.
var watchdogLimit = 120 * time.Second

// watchdogExit: the exit status of a process stopped by its watchdog (vcheck.sh runs the check once more)
const watchdogExit = 3

func watchdogSetup() {
	if v := os.Getenv("VERIF_WATCHDOG_S"); v != "" {
		if n, err := strconv.Atoi(v); err == nil && n > 0 {
			watchdogLimit = time.Duration(n) * time.Second
		}
	}
	go workerWatchdog()
}

func workerWatchdog() {
	for {
		time.Sleep(5 * time.Second)
		t0 := atomic.LoadInt64(&execStart)
		if t0 == 0 || time.Since(time.Unix(0, t0)) < watchdogLimit {
			continue
		}
		buf := make([]byte, 4<<20)
		buf = buf[:runtime.Stack(buf, true)]
		msg := fmt.Sprintf("mc worker %d: one execution has been running for more than %v; goroutines:\n%s\n", os.Getpid(), watchdogLimit, buf)
		os.Stderr.WriteString(msg)
		os.WriteFile(fmt.Sprintf("/var/tmp/mc-watchdog-%d.txt", os.Getpid()), []byte(msg), 0644)
		os.Exit(watchdogExit)
	}
}

func workerMain() {
	watchdogSetup()
	dec := gob.NewDecoder(os.Stdin)
	enc := gob.NewEncoder(os.Stdout)
	for {
		var it Item
		if err := dec.Decode(&it); err != nil {
			return
		}
		res := processItem(it)
		if err := enc.Encode(res); err != nil {
			return
		}
	}
}

type workerProc struct {
	cmd *exec.Cmd
	enc *gob.Encoder
	dec *gob.Decoder
	in  io.WriteCloser
}

func startWorker() (*workerProc, error) {
	cmd := exec.Command(os.Args[0], "worker")
	cmd.Env = append(os.Environ(), "GOMAXPROCS=1", "GOGC=800")
	cmd.Stderr = os.Stderr
	in, err := cmd.StdinPipe()
	if err != nil {
		return nil, err
	}
	out, err := cmd.StdoutPipe()
	if err != nil {
		return nil, err
	}
	if err := cmd.Start(); err != nil {
		return nil, err
	}
	return &workerProc{cmd: cmd, enc: gob.NewEncoder(in), dec: gob.NewDecoder(out), in: in}, nil
}

func (w *workerProc) stop() {
	w.in.Close()
	w.cmd.Wait()
}

// BoundReport is the aggregated result for one (scenario, bound).
type BoundReport struct {
	Scenario  string `json:"scenario"`
	D         int    `json:"d"`
	F         int    `json:"f"`
	Execs     int64  `json:"executions"`
	Points    int64  `json:"decision_points"`
	Steps     int64  `json:"steps"`
	MaxPoints int    `json:"max_points_per_execution"`
	Outcomes  int    `json:"distinct_outcomes"`
	DistinctH int    `json:"distinct_hb"`
	Complete  bool   `json:"complete"`
	Restarts  int    `json:"worker_restarts,omitempty"`
	Cases     int64  `json:"input_cases,omitempty"`
	NShapes   int    `json:"distinct_shape_classes,omitempty"`
	shapeset  map[string]struct{}
	WallS     float64          `json:"wall_s"`
	TopOut    map[string]int64 `json:"outcome_histogram,omitempty"`
	viol      map[string]*FoundViolation
	violCount map[string]int64
	samples   []Sample
	engineErr string
	hbset     map[uint64]struct{}
}

type pool struct {
	workers []*workerProc
}

func newPool(n int) (*pool, error) {
	p := &pool{}
	for i := 0; i < n; i++ {
		w, err := startWorker()
		if err != nil {
			return nil, err
		}
		p.workers = append(p.workers, w)
	}
	return p, nil
}

func (p *pool) close() {
	for _, w := range p.workers {
		w.stop()
	}
}

type done struct {
	w   int
	res *ItemResult
	err error
	it  Item
}

// runBound explores one scenario at one bound using the worker pool.
func (p *pool) runBound(sc *Scenario, b Bound, budget time.Duration) *BoundReport {
	t0 := time.Now()
	br := &BoundReport{Scenario: sc.Name, D: b.D, F: b.F, Complete: true, viol: map[string]*FoundViolation{}, violCount: map[string]int64{}, hbset: map[uint64]struct{}{}, TopOut: map[string]int64{}, shapeset: map[string]struct{}{}}
	deadline := t0.Add(budget)
	queue := []Item{{Scenario: sc.Name, Prefix: nil, Bound: b, Split: splitFor(b), Deadline: deadline}}
	idle := make([]int, 0, len(p.workers))
	for i := range p.workers {
		idle = append(idle, i)
	}
	ch := make(chan done, len(p.workers))
	inflight := 0
	queueInts := 0
	dead := map[int]bool{}
	for len(queue) > 0 || inflight > 0 {
		for len(queue) > 0 && len(idle) > 0 {
			if time.Now().After(deadline) {
				// out of time: what is still queued is dropped - except items whose worker had to be stopped, which
				// get their second attempt whatever the clock says (a verdict on them is owed)
				br.Complete = false
				var keep []Item
				for _, q := range queue {
					if q.Retries > 0 {
						keep = append(keep, q)
					}
				}
				queue = keep
				if len(queue) == 0 {
					break
				}
			}
			// largest subtrees first: shortest prefixes
			it := queue[0]
			queue = queue[1:]
			queueInts -= len(it.Prefix)
			if queueInts > maxQueueInts {
				it.Split = 0
			}
			wi := idle[len(idle)-1]
			idle = idle[:len(idle)-1]
			inflight++
			go func(wi int, it Item) {
				w := p.workers[wi]
				if err := w.enc.Encode(it); err != nil {
					ch <- done{w: wi, err: err, it: it}
					return
				}
				var r ItemResult
				if err := w.dec.Decode(&r); err != nil {
					ch <- done{w: wi, err: err, it: it}
					return
				}
				ch <- done{w: wi, res: &r, it: it}
			}(wi, it)
		}
		if inflight == 0 {
			break
		}
		d := <-ch
		inflight--
		if d.err != nil {
			dead[d.w] = true
			p.workers[d.w].cmd.Process.Kill()
			p.workers[d.w].cmd.Wait()
			byWatchdog := p.workers[d.w].cmd.ProcessState != nil && p.workers[d.w].cmd.ProcessState.ExitCode() == 3
			if d.it.Retries < 1 {
				// (a worker stopped by its watchdog or by the system: its item goes to a fresh worker once)
				d.it.Retries++
				d.it.Deadline = time.Now().Add(budget) // (it may take as long again as the whole bound was given)
				queue = append(queue, d.it)
				queueInts += len(d.it.Prefix)
				br.Restarts++
			} else if !byWatchdog {
				// the worker was not stopped by its own watchdog (killed by the system - out of memory? - or crashed
				// outside an execution): that says nothing about the code under test
				if br.engineErr == "" {
					br.engineErr = fmt.Sprintf("a worker process died twice (%v) while exploring scenario %s at or below the choice prefix %v; it was not stopped by its watchdog", p.workers[d.w].cmd.ProcessState, d.it.Scenario, d.it.Prefix)
				}
			} else if br.viol["hang/execution-never-ends"] == nil {
				// twice, at the same place, in fresh workers: not an accident of the engine. The explorations are
				// deterministic, so this is an execution of the code under test that does not end and never reaches a
				// scheduling point (a loop that does not terminate): reported as a violation with the prefix as its replay
				br.viol["hang/execution-never-ends"] = &FoundViolation{Key: "hang/execution-never-ends", Msg: fmt.Sprintf("an execution of scenario %s at or below the choice prefix %v did not end within %v of wall time in two fresh worker processes (no scheduling point is reached any more: a loop in the code under test that does not terminate); goroutine stacks: /var/tmp/mc-watchdog-*.txt", d.it.Scenario, d.it.Prefix, watchdogLimit), Choices: d.it.Prefix, Cost: 0}
				br.violCount["hang/execution-never-ends"]++
			}
			// replace the worker
			if w, err := startWorker(); err == nil {
				p.workers[d.w] = w
				idle = append(idle, d.w)
			}
			continue
		}
		idle = append(idle, d.w)
		r := d.res
		br.Execs += r.Execs
		br.Points += r.Points
		br.Steps += r.Steps
		if r.MaxPoints > br.MaxPoints {
			br.MaxPoints = r.MaxPoints
		}
		for k, v := range r.Outcomes {
			if len(br.TopOut) < maxOutcomeKeys || br.TopOut[k] > 0 {
				br.TopOut[k] += v
			}
		}
		for _, h := range r.HB {
			if len(br.hbset) < 4000000 {
				br.hbset[h] = struct{}{}
			}
		}
		br.Cases += r.Cases
		for _, k := range r.Shapes {
			br.shapeset[k] = struct{}{}
		}
		for k, v := range r.Viol {
			if old := br.viol[k]; old == nil || v.Cost < old.Cost || v.Cost == old.Cost && len(v.Choices) < len(old.Choices) {
				br.viol[k] = v
			}
		}
		for k, v := range r.ViolCount {
			br.violCount[k] += v
		}
		if r.Truncated {
			br.Complete = false
		}
		if r.EngineErr != "" && br.engineErr == "" {
			br.engineErr = r.EngineErr
		}
		if len(br.samples) < 4 {
			br.samples = append(br.samples, r.Samples...)
		}
		queue = append(queue, r.Children...)
		for _, c := range r.Children {
			queueInts += len(c.Prefix)
		}
	}
	br.Outcomes = len(br.TopOut)
	br.DistinctH = len(br.hbset)
	br.NShapes = len(br.shapeset)
	br.WallS = time.Since(t0).Seconds()
	// keep the histogram small in the evidence file
	if len(br.TopOut) > 12 {
		type kv struct {
			k string
			v int64
		}
		var kvs []kv
		for k, v := range br.TopOut {
			kvs = append(kvs, kv{k, v})
		}
		sort.Slice(kvs, func(i, j int) bool { return kvs[i].v > kvs[j].v })
		br.TopOut = map[string]int64{}
		for _, e := range kvs[:12] {
			br.TopOut[e.k] = e.v
		}
	}
	return br
}

func splitFor(b Bound) int {
	if b.D+b.F >= 3 {
		return 2
	}
	return 1
}

// engine self-test (only with VERIF_WATCHDOG_SELFTEST=<marker file>): the first execution blocks outside the
// controlled scheduler; the watchdog must stop that worker and the item must succeed in a fresh one.
func init() {
	marker := os.Getenv("VERIF_WATCHDOG_SELFTEST")
	if marker == "" {
		return
	}
	register(&Scenario{Prop: "C07", Name: "c07/zz-watchdog-selftest", Quick: []Bound{{0, 0}}, Thorough: []Bound{{0, 0}}, MinHB: 1, Body: func(x *X) {
		inWorker := len(os.Args) > 1 && os.Args[1] == "worker"
		if _, err := os.Stat(marker); err != nil && inWorker == (os.Getenv("VERIF_WATCHDOG_SELFTEST_WHERE") != "coordinator") {
			os.WriteFile(marker, []byte("x"), 0644)
			select {}
		}
		x.Outcome("second attempt")
	}})
}
