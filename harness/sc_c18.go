package main

import (
	"context"
	"fmt"
	"time"

	"github.com/hslam/rpc"
	vs "verif/shim/vsync"
	vt "verif/shim/vtime"
)

// C18 — failover, wake-ups, timeouts and Close strand nobody.

type waiter struct {
	form   int
	err    error
	done   bool
	doneAt time.Duration
}

func spawnWaiters(s *cliSys, forms []int) []*waiter {
	var ws []*waiter
	for i, f := range forms {
		w := &waiter{form: f}
		ws = append(ws, w)
		vs.GoNamed(fmt.Sprintf("waiter%d", i), func() {
			w.err = clientCall(s.c, w.form)
			w.done = true
			w.doneAt = vt.Elapsed()
		})
	}
	return ws
}

func pickForms(x *X, n int) []int {
	off := x.Choose(nCForms)
	var fs []int
	for i := 0; i < n; i++ {
		fs = append(fs, (off+i*2)%nCForms)
	}
	return fs
}

// no target live: callers wait; one comes up: everybody is released within two detector ticks
func c18Wake(n int) func(x *X) {
	return func(x *X) {
		s := newCliSys(x, rpc.Scheduling(x.Choose(3)), "a", "b")
		ws := spawnWaiters(s, pickForms(x, n))
		pre := x.Choose(3)
		s.tick(pre)
		for _, w := range ws {
			if w.done {
				x.Fail("C18/waiter-returned-early", "a %s caller returned %v after %v although no target is live and DialTimeout (500ms) has not elapsed", cfNames[w.form], w.err, w.doneAt)
			}
		}
		upAt := vt.Elapsed()
		both := x.Choose(2) == 1 // every target becomes reachable (afterwards the detector has no dead target left to re-examine)
		vs.GoNamed("health", func() {
			s.rt.up["b"] = true
			if both {
				s.rt.up["a"] = true
			}
		})
		s.tick(2)
		for _, w := range ws {
			if !w.done {
				x.Fail("C18/waiter-not-released", "a %s caller is still waiting two detector ticks after target b became reachable", cfNames[w.form])
			} else if w.err != nil {
				x.Fail("C18/waiter-failed-after-wake", "a %s caller failed with %v although target b became reachable at %v (returned at %v)", cfNames[w.form], w.err, upAt, w.doneAt)
			}
		}
		for _, r := range s.rt.userRoutes(0) {
			if r.addr != "b" && !both {
				x.Fail("C18/routed-to-dead-target", "a released caller was routed to %q", r.addr)
			}
		}
		x.Outcome("n=%d pre=%d both=%v", n, pre, both)
		s.close()
	}
}

// nobody comes up: callers fail exactly when DialTimeout has elapsed
func c18Timeout(n int) func(x *X) {
	return func(x *X) {
		s := newCliSys(x, rpc.RoundRobinScheduling, "a", "b")
		late := x.Choose(3) // the callers start 0, 1 or 3 ticks after the client
		s.tick(late)
		start := vt.Elapsed()
		ws := spawnWaiters(s, pickForms(x, n))
		vs.Quiesce()
		for k := 0; k < 7; k++ {
			s.tick(1)
			el := vt.Elapsed() - start
			for _, w := range ws {
				if w.done && w.doneAt-start < s.c.DialTimeout && w.err != rpc.ErrShutdown {
					x.Fail("C18/timeout-too-early", "a %s caller failed with %v after %v, DialTimeout is %v", cfNames[w.form], w.err, w.doneAt-start, s.c.DialTimeout)
				}
				if !w.done && el > s.c.DialTimeout {
					x.Fail("C18/waits-longer-than-dialtimeout", "a %s caller is still waiting %v after it started, DialTimeout is %v", cfNames[w.form], el, s.c.DialTimeout)
				}
			}
		}
		for _, w := range ws {
			if !w.done {
				continue
			}
			switch w.form {
			case cfCall, cfCallCtx:
				if w.err != rpc.ErrTimeout {
					x.Fail("C18/timeout-error", "%s returned %v after DialTimeout, want ErrTimeout", cfNames[w.form], w.err)
				}
			default:
				if w.err == nil {
					x.Fail("C18/timeout-error", "%s completed without error after DialTimeout with no live target", cfNames[w.form])
				}
			}
		}
		x.Outcome("n=%d late=%d", n, late)
		s.close()
		for _, t := range blockedThreads(func(t vs.ThreadInfo) bool { return isEnvWait(t) }) {
			x.Fail("C18/thread-left-behind", "after Close: %s", t)
		}
	}
}

// Close while callers wait, and calls after Close
func c18Close(n int) func(x *X) {
	return func(x *X) {
		s := newCliSys(x, rpc.RoundRobinScheduling, "a", "b")
		pre := x.Choose(2)
		ws := spawnWaiters(s, pickForms(x, n))
		if pre == 1 {
			s.tick(1)
		}
		t0 := vt.Elapsed()
		var cerr error
		closed := false
		vs.GoNamed("closer", func() { cerr = s.c.Close(); closed = true })
		vs.Quiesce()
		if !closed || cerr != nil {
			x.Fail("C18/close-failed", "Close returned=%v err=%v", closed, cerr)
		}
		for _, w := range ws {
			if !w.done {
				x.Fail("C18/waiter-stranded-by-close", "a %s caller is still waiting after Close (no time has passed)", cfNames[w.form])
				continue
			}
			switch w.form {
			case cfCall, cfCallCtx:
				if w.err != rpc.ErrShutdown {
					x.Fail("C18/close-error", "%s returned %v after Close, want ErrShutdown", cfNames[w.form], w.err)
				}
			default:
				if w.err == nil {
					x.Fail("C18/close-error", "%s completed without error after Close", cfNames[w.form])
				}
			}
		}
		// after Close every call fails at once
		late := spawnWaiters(s, []int{cfCall, cfGo, cfPing, cfCallCtx, cfRoundTrip, cfStream})
		vs.Quiesce()
		for _, w := range late {
			if !w.done {
				x.Fail("C18/call-after-close-waits", "a %s call issued after Close does not return at once", cfNames[w.form])
			} else if w.err == nil {
				x.Fail("C18/call-after-close-succeeds", "a %s call issued after Close returned nil", cfNames[w.form])
			} else if (w.form == cfCall || w.form == cfCallCtx) && w.err != rpc.ErrShutdown {
				x.Fail("C18/close-error", "%s after Close returned %v, want ErrShutdown", cfNames[w.form], w.err)
			}
		}
		if vt.Elapsed() != t0 {
			x.Fail("C18/close-needs-time", "virtual time advanced")
		}
		s.tick(6)
		x.Outcome("n=%d pre=%d", n, pre)
		for _, t := range blockedThreads(func(t vs.ThreadInfo) bool { return isEnvWait(t) }) {
			x.Fail("C18/thread-left-behind", "after Close and DialTimeout: %s", t)
		}
	}
}

// failover: target a refuses connections while b stays healthy; then a recovers
func c18Failover(x *X) {
	form := x.Choose(nCForms)
	sched := rpc.Scheduling(x.Choose(2)) // round robin or random
	s := newCliSys(x, sched, "a", "b")
	s.rt.up["a"], s.rt.up["b"] = true, true
	s.tick(2)
	for i := 0; i < 2; i++ {
		clientCall(s.c, form)
	}
	s.rt.up["a"] = false
	// calls keep coming, one per tick
	var firstFail time.Duration = -1
	for i := 0; i < 8; i++ {
		from := len(s.rt.routed)
		err := clientCall(s.c, form)
		for _, r := range s.rt.userRoutes(from) {
			if r.addr == "a" {
				if firstFail < 0 {
					firstFail = r.at
				} else if r.at-firstFail > 2*cTick {
					x.Fail("C18/no-failover/form="+cfNames[form], "target a refused a %s call at %v and was still chosen at %v (more than two detector ticks later) while b is healthy", cfNames[form], firstFail, r.at)
				}
			}
		}
		_ = err
		s.tick(1)
	}
	// recovery
	s.rt.up["a"] = true
	s.tick(2)
	from := len(s.rt.routed)
	for i := 0; i < 6; i++ {
		clientCall(s.c, form)
	}
	used := false
	for _, r := range s.rt.userRoutes(from) {
		if r.addr == "a" {
			used = true
		}
	}
	if !used && sched == rpc.RoundRobinScheduling {
		x.Fail("C18/recovered-target-unused", "target a recovered two ticks ago but none of 6 round-robin calls went to it")
	}
	x.Outcome("form=%s sched=%d firstFail=%v", cfNames[form], sched, firstFail)
	s.close()
}

// three targets: one dies and another recovers within the same detector period
func c18Swap(x *X) {
	form := []int{cfCall, cfGo, cfPing}[x.Choose(3)]
	s := newCliSys(x, rpc.RoundRobinScheduling, "a", "b", "c")
	dying := []string{"a", "b"}[x.Choose(2)]
	s.rt.up["a"], s.rt.up["b"], s.rt.up["c"] = true, true, false
	s.tick(2)
	for i := 0; i < 3; i++ {
		clientCall(s.c, form)
	}
	// the swap
	s.rt.up[dying] = false
	s.rt.up["c"] = true
	hit := x.Choose(3) // calls between the swap and the next detector tick (one of them hits the dying target)
	for i := 0; i < hit; i++ {
		clientCall(s.c, form)
	}
	s.tick(1)
	var firstFail time.Duration = -1
	cUsed := false
	for i := 0; i < 9; i++ {
		from := len(s.rt.routed)
		clientCall(s.c, form)
		for _, r := range s.rt.userRoutes(from) {
			if r.addr == dying {
				if firstFail < 0 {
					firstFail = r.at
				} else if r.at-firstFail > 2*cTick {
					x.Fail("C18/no-failover/swap", "target %s refused a %s call at %v and was still chosen at %v while two other targets are healthy (c recovered in the same detector period)", dying, cfNames[form], firstFail, r.at)
				}
			}
			if r.addr == "c" {
				cUsed = true
			}
		}
		s.tick(1)
	}
	// C17: the live set has been {survivor, c} for ten detector periods: round robin alternates between them
	{
		from := len(s.rt.routed)
		for i := 0; i < 6; i++ {
			clientCall(s.c, form)
		}
		var seq []string
		for _, r := range s.rt.userRoutes(from) {
			seq = append(seq, r.addr)
			if r.addr == dying {
				x.Fail("C17/not-a-live-target", "round robin routed a call to %q, which has been down for ten detector periods while two targets are live (sequence %v)", dying, seq)
			}
		}
		for i := 0; i+2 <= len(seq); i++ {
			if seq[i] == seq[i+1] {
				x.Fail("C17/roundrobin-repeats", "round robin over the 2 live targets (stable for ten detector periods) sent 2 consecutive calls to %q (sequence %v)", seq[i], seq)
			}
		}
	}
	if !cUsed {
		x.Fail("C18/recovered-target-unused", "target c recovered 10 detector ticks ago but none of 9 round-robin calls went to it (target %s died in the same period)", dying)
	}
	x.Outcome("form=%s dying=%s hit=%d firstFail=%v cUsed=%v", cfNames[form], dying, hit, firstFail, cUsed)
	s.close()
}

// Fallback pauses routing; callers wait and are released afterwards (or time out)
func c18Fallback(x *X) {
	s := newCliSys(x, rpc.RoundRobinScheduling, "a", "b")
	s.rt.up["a"], s.rt.up["b"] = true, true
	s.tick(2)
	d := []time.Duration{150 * time.Millisecond, 2 * time.Second}[x.Choose(2)]
	s.c.Fallback(d)
	start := vt.Elapsed()
	ws := spawnWaiters(s, pickForms(x, 2))
	vs.Quiesce()
	for _, w := range ws {
		if w.done {
			x.Fail("C18/fallback-ignored", "a %s caller was routed (%v) during Fallback", cfNames[w.form], w.err)
		}
	}
	for k := 0; k < 8; k++ {
		s.tick(1)
	}
	for _, w := range ws {
		switch {
		case !w.done:
			x.Fail("C18/waits-longer-than-dialtimeout", "a %s caller is still waiting %v after it started (Fallback %v, DialTimeout %v)", cfNames[w.form], vt.Elapsed()-start, d, s.c.DialTimeout)
		case d < s.c.DialTimeout && w.err != nil:
			x.Fail("C18/not-released-after-fallback", "Fallback(%v) ended before DialTimeout but the %s caller failed with %v at %v", d, cfNames[w.form], w.err, w.doneAt-start)
		case d < s.c.DialTimeout && w.doneAt-start > d+2*cTick:
			x.Fail("C18/not-released-after-fallback", "Fallback(%v) ended but the %s caller was only released after %v", d, cfNames[w.form], w.doneAt-start)
		case d >= s.c.DialTimeout && w.err == nil:
			x.Fail("C18/fallback-ignored", "a caller was routed during a Fallback longer than DialTimeout")
		}
	}
	x.Outcome("d=%v", d)
	s.close()
	vt.Advance(3 * time.Second)
	vs.Quiesce()
	for _, t := range blockedThreads(func(t vs.ThreadInfo) bool { return isEnvWait(t) }) {
		x.Fail("C18/thread-left-behind", "after Close: %s", t)
	}
}

func init() {
	register(&Scenario{Prop: "C18", Name: "c18/wake-2", Quick: []Bound{{1, 0}, {2, 0}}, Thorough: []Bound{{3, 0}}, Body: c18Wake(2), MaxSteps: 100000})
	register(&Scenario{Prop: "C18", Name: "c18/wake-3", Quick: []Bound{{1, 0}}, Thorough: []Bound{{2, 0}}, Body: c18Wake(3), MaxSteps: 100000})
	register(&Scenario{Prop: "C18", Name: "c18/timeout-2", Quick: []Bound{{1, 0}, {2, 0}}, Thorough: []Bound{{3, 0}}, Body: c18Timeout(2), MaxSteps: 100000})
	register(&Scenario{Prop: "C18", Name: "c18/close-2", Quick: []Bound{{1, 0}, {2, 0}}, Thorough: []Bound{{3, 0}}, Body: c18Close(2), MaxSteps: 100000})
	register(&Scenario{Prop: "C18", Name: "c18/close-3", Quick: []Bound{{1, 0}}, Thorough: []Bound{{2, 0}}, Body: c18Close(3), MaxSteps: 100000})
	register(&Scenario{Prop: "C18", Name: "c18/failover", Quick: []Bound{{0, 0}, {1, 0}}, Thorough: []Bound{{2, 0}}, Body: c18Failover, MaxSteps: 100000})
	register(&Scenario{Prop: "C17", Name: "c17/stable-after-swap", Quick: []Bound{{1, 0}, {2, 0}}, Thorough: []Bound{{3, 0}}, Body: c18Swap, MaxSteps: 100000, OnlyKeys: []string{"C17/", "panic/", "livelock/"}})
	register(&Scenario{Prop: "C18", Name: "c18/swap-3targets", Quick: []Bound{{1, 0}, {2, 0}}, Thorough: []Bound{{3, 0}}, Body: c18Swap, MaxSteps: 100000})
	// the same closed system judged for crashes only (C08: a server that goes away and refuses reconnects must not panic the load-balancing client)
	register(&Scenario{Prop: "C08", Name: "c08/client-targets-die-and-recover", Quick: []Bound{{1, 0}, {2, 0}}, Thorough: []Bound{{3, 0}}, Body: c18Swap, MaxSteps: 100000, OnlyKeys: []string{"panic/", "livelock/"}})
	register(&Scenario{Prop: "C18", Name: "c18/fallback", Quick: []Bound{{1, 0}}, Thorough: []Bound{{2, 0}}, Body: c18Fallback, MaxSteps: 100000})
}

// Update with targets that are already live: the client keeps routing, nobody waits.  Every
// pair (current list, new list) over {a, b, c} where the new list contains at least one target
// that is currently live.
func c18UpdateLive(x *X) {
	lists := [][]string{{"a"}, {"a", "b"}, {"b", "c"}, {"a", "b", "c"}, {"c"}}
	cur := lists[x.Choose(len(lists))]
	nw := lists[x.Choose(len(lists))]
	form := []int{cfCall, cfGo, cfPing, cfCallCtx}[x.Choose(4)]
	sched := rpc.Scheduling(x.Choose(3))
	s := newCliSys(x, sched, cur...)
	for _, a := range []string{"a", "b", "c"} {
		s.rt.up[a] = true
	}
	s.tick(2)
	clientCall(s.c, form)
	s.c.Update(nw...)
	common := false
	for _, a := range nw {
		if member(cur, a) {
			common = true
		}
	}
	start := vt.Elapsed()
	ws := spawnWaiters(s, []int{form})
	vs.Quiesce()
	for k := 0; k < 8 && !ws[0].done; k++ {
		s.tick(1)
	}
	w := ws[0]
	switch {
	case !w.done:
		x.Fail("C18/waits-longer-than-dialtimeout", "a %s caller is still waiting %v after Update(%v) (before: %v; every target is reachable)", cfNames[form], vt.Elapsed()-start, nw, cur)
	case w.err != nil:
		x.Fail("C18/caller-failed-with-live-targets", "after Update(%v) (before: %v; every target is reachable) a %s caller failed with %v after %v", nw, cur, cfNames[form], w.err, w.doneAt-start)
	case w.doneAt-start > 2*cTick:
		x.Fail("C18/not-released-promptly", "after Update(%v) (before: %v) a %s caller was only served after %v although every target is reachable", nw, cur, cfNames[form], w.doneAt-start)
	}
	x.Outcome("cur=%v new=%v common=%v form=%s sched=%d at=%v", cur, nw, common, cfNames[form], sched, w.doneAt-start)
	s.close()
}

// many targets (70): a target beyond the 64th goes down and later comes back; the client fails
// over and recovers exactly as for the first few.  Default schedule.
func c18ManyTargets(x *X) {
	n := 70
	idx := []int{2, 63, 64, 66, 69}[x.Choose(5)]
	sched := []rpc.Scheduling{rpc.RoundRobinScheduling, rpc.LeastTimeScheduling}[x.Choose(2)]
	var addrs []string
	for i := 0; i < n; i++ {
		addrs = append(addrs, fmt.Sprintf("t%02d", i))
	}
	s := newCliSys(x, sched, addrs...)
	for _, a := range addrs {
		s.rt.up[a] = true
	}
	s.tick(2)
	victim := addrs[idx]
	for i := 0; i < n; i++ {
		clientCall(s.c, cfCall)
	}
	s.rt.up[victim] = false
	// calls until the victim has refused one, then a few detector periods
	for i := 0; i < 2*n; i++ {
		clientCall(s.c, cfCall)
	}
	s.tick(3)
	from := len(s.rt.routed)
	for i := 0; i < 2*n; i++ {
		clientCall(s.c, cfCall)
	}
	k := 0
	for _, r := range s.rt.userRoutes(from) {
		if r.addr == victim {
			k++
		}
	}
	if k > 0 {
		x.Fail("C18/no-failover/many-targets", "target %s (number %d of %d) has been refusing connections for three detector periods and still received %d of %d calls", victim, idx, n, k, 2*n)
	}
	if sched != rpc.RoundRobinScheduling {
		x.Outcome("idx=%d sched=%d k=%d", idx, sched, k)
		s.close()
		return
	}
	// all down, a caller waits, the victim alone comes back
	for _, a := range addrs {
		s.rt.up[a] = false
	}
	// (calls until the client has seen every target refuse: a call that is still routed fails with ErrDial at once)
	for i, routedNone := 0, 0; i < 40*n && routedNone < 3; i++ {
		from := len(s.rt.routed)
		clientCallNoWait(s, cfCall)
		if len(s.rt.userRoutes(from)) == 0 {
			routedNone++
		}
	}
	s.tick(3)
	start := vt.Elapsed()
	ws := spawnWaiters(s, []int{cfCall})
	vs.Quiesce()
	s.rt.up[victim] = true
	for j := 0; j < 4 && !ws[0].done; j++ {
		s.tick(1)
	}
	if !ws[0].done || ws[0].err != nil {
		x.Fail("C18/waiter-not-released/many-targets", "every target was down, a caller waited, target %s (number %d of %d) came back: the caller is done=%v err=%v after %v", victim, idx, n, ws[0].done, ws[0].err, vt.Elapsed()-start)
	}
	x.Outcome("idx=%d sched=%d k=%d", idx, sched, k)
	s.close()
}

func init() {
	register(&Scenario{Prop: "C18", Name: "c18/update-with-live-targets", Quick: []Bound{{0, 0}, {1, 0}}, Thorough: []Bound{{2, 0}}, Body: c18UpdateLive, MaxSteps: 100000, BudgetQ: 15})
	register(&Scenario{Prop: "C18", Name: "c18/many-targets", Quick: []Bound{{0, 0}}, Thorough: []Bound{{1, 0}}, Body: c18ManyTargets, MaxSteps: 2000000, BudgetQ: 20, BudgetT: 100, MinHB: 1})
}

// clientCallNoWait issues a call in its own thread and does not wait for it when it is not served at once
// (no live target: the caller waits for DialTimeout).
func clientCallNoWait(s *cliSys, form int) {
	vs.GoNamed("probe-caller", func() { clientCall(s.c, form) })
	vs.Quiesce()
}

// a caller that has waited exactly DialTimeout is released by a target coming up in the very
// detector period in which its timer expires; routing is then paused (Fallback) and another caller has
// to wait: it waits (it does not fail at once with a time-out left over from the first wait).
func c18SecondWait(x *X) {
	s := newCliSys(x, rpc.RoundRobinScheduling, "a", "b")
	forms := pickForms(x, 2)
	w1 := spawnWaiters(s, forms[:1])
	s.tick(4)
	s.rt.up["a"] = true
	s.tick(1) // t = 500 ms = DialTimeout: the timer and the wake-up fall into the same instant
	s.tick(1)
	out := fmt.Sprintf("first=%v/%v@%v", w1[0].done, w1[0].err, w1[0].doneAt)
	// routing is paused (Fallback): the next caller has to wait again
	s.c.Fallback(2 * time.Second)
	start := vt.Elapsed()
	w2 := spawnWaiters(s, forms[1:])
	vs.Quiesce()
	for k := 0; k < 7; k++ {
		w := w2[0]
		if w.done && w.err == rpc.ErrTimeout && w.doneAt-start < s.c.DialTimeout {
			x.Fail("C18/timeout-too-early/second-wait", "a %s caller that had to wait (no live target) failed with ErrTimeout after %v, DialTimeout is %v; an earlier %s caller had been released at %v by a target coming up", cfNames[w.form], w.doneAt-start, s.c.DialTimeout, cfNames[w1[0].form], w1[0].doneAt)
			break
		}
		s.tick(1)
	}
	if w := w2[0]; !w.done {
		x.Fail("C18/waits-longer-than-dialtimeout/second-wait", "a %s caller is still waiting %v after it started, DialTimeout is %v", cfNames[w.form], vt.Elapsed()-start, s.c.DialTimeout)
	}
	x.Outcome("%s second=%v/%v@%v", out, w2[0].done, w2[0].err, w2[0].doneAt-start)
	s.close()
}

func init() {
	register(&Scenario{Prop: "C18", Name: "c18/second-wait", Quick: []Bound{{1, 0}, {2, 0}}, Thorough: []Bound{{3, 0}}, Body: c18SecondWait, MaxSteps: 100000, BudgetQ: 20})
}

// callers wait (no target live); a target comes up and, in the same detector period, the
// application re-supplies the target list (Update with the same addresses: what a discovery loop
// does): the callers are released - by this probe round or the next - and succeed; none of them
// fails with ErrDial on the way.
func c18WakeVsUpdate(x *X) {
	s := newCliSys(x, rpc.Scheduling(x.Choose(3)), "a", "b")
	ws := spawnWaiters(s, pickForms(x, 2))
	pre := x.Choose(2)
	s.tick(pre)
	vs.GoNamed("health", func() { s.rt.up["b"] = true })
	vs.GoNamed("updater", func() { s.c.Update("b", "a") })
	s.tick(3)
	for _, w := range ws {
		if !w.done {
			x.Fail("C18/waiter-not-released/update", "a %s caller is still waiting three detector ticks after target b became reachable (the target list was re-supplied in the same period)", cfNames[w.form])
		} else if w.err != nil {
			x.Fail("C18/waiter-failed-after-wake/update", "a %s caller failed with %v at %v although target b is reachable (the target list was re-supplied by Update while it was being released)", cfNames[w.form], w.err, w.doneAt)
		}
	}
	x.Outcome("pre=%d %v/%v %v/%v", pre, ws[0].done, ws[0].err, ws[1].done, ws[1].err)
	s.close()
}

func init() {
	register(&Scenario{Prop: "C18", Name: "c18/wake-vs-update", Quick: []Bound{{1, 0}, {2, 0}}, Thorough: []Bound{{3, 0}}, Body: c18WakeVsUpdate, MaxSteps: 100000, BudgetQ: 20})
}

// one target does not refuse connections but hangs (its probes never return) while the other one
// comes up: the waiting callers are still released within two detector periods, and a target that
// went away is still found dead and used again after it recovers.
func c18HungProbe(x *X) {
	s := newCliSys(x, rpc.RoundRobinScheduling, "a", "b")
	s.rt.up["a"], s.rt.gate["a"] = true, true // a: every round trip hangs
	ws := spawnWaiters(s, pickForms(x, 2))
	pre := 1 + x.Choose(2)
	s.tick(pre)
	upAt := vt.Elapsed()
	s.rt.up["b"] = true
	s.tick(2)
	for _, w := range ws {
		if !w.done && !(len(s.rt.userRoutes(0)) > 0) {
			x.Fail("C18/waiter-not-released/hung-probe", "a %s caller is still waiting two detector ticks after target b became reachable at %v (the probes of target a never return)", cfNames[w.form], upAt)
		}
	}
	for _, r := range s.rt.userRoutes(0) {
		if r.addr != "b" && r.addr != "a" {
			x.Fail("C18/routed-to-dead-target/hung-probe", "a released caller was routed to %q", r.addr)
		}
	}
	// b goes away and comes back
	s.rt.up["b"] = false
	for i := 0; i < 2; i++ {
		vs.GoNamed(fmt.Sprintf("prober%d", i), func() { clientCall(s.c, cfCall) })
		vs.Quiesce()
		s.tick(1)
	}
	s.rt.up["b"] = true
	s.tick(3)
	done := false
	var err error
	vs.GoNamed("late-caller", func() { err = clientCall(s.c, cfCall); done = true })
	vs.Quiesce()
	s.tick(2)
	if !done {
		// (it may have been routed to the hanging target a)
		routedA := false
		for _, r := range s.rt.userRoutes(0) {
			if r.addr == "a" && r.thread == "late-caller" {
				routedA = true
			}
		}
		if !routedA {
			x.Fail("C18/recovered-target-unused/hung-probe", "target b recovered three detector ticks ago (the probes of target a never return): a call still waits for a live target")
		}
	} else if err != nil && err != rpc.ErrDial {
		x.Fail("C18/recovered-target-unused/hung-probe", "target b recovered three detector ticks ago: a call failed with %v", err)
	}
	x.Outcome("pre=%d done=%v err=%v", pre, done, err)
	s.rt.gate["a"] = false
	vs.Quiesce()
	s.close()
}

// Director callbacks that are slow or call back into the Client: a Director that re-supplies the
// target list (Update) and declines, and a Director that takes long while another caller's
// DialTimeout runs out and the Client is closed.
func c18Director(x *X) {
	kind := x.Choose(2)
	s := newCliSys(x, rpc.RoundRobinScheduling, "a", "b")
	out := ""
	switch kind {
	case 0:
		s.rt.up["a"], s.rt.up["b"] = true, true
		s.tick(2)
		s.c.Director = func() string {
			s.c.Update("a", "b") // (what a discovery hook does)
			return ""
		}
		done := 0
		for i := 0; i < 2; i++ {
			vs.GoNamed(fmt.Sprintf("caller%d", i), func() { clientCall(s.c, cfCall); done++ })
			vs.Quiesce()
			s.tick(2)
		}
		for k := 0; k < 6 && done < 2; k++ {
			s.tick(1)
		}
		if done != 2 {
			x.Fail("C18/caller-stuck/director-calls-update", "%d of 2 callers returned although both targets are live: the Director hook calls Client.Update and returns \"\"", done)
		}
		out = fmt.Sprintf("done=%d", done)
	case 1:
		held := true
		calls := 0
		s.c.Director = func() string {
			calls++
			if calls == 1 {
				vs.Block("user Director callback is slow", func() bool { return !held })
			}
			return ""
		}
		ws := spawnWaiters(s, []int{cfCall})
		vs.Quiesce()
		start := vt.Elapsed()
		w2 := spawnWaiters(s, []int{cfCallCtx})
		for k := 0; k < 7; k++ {
			s.tick(1)
		}
		if !w2[0].done {
			x.Fail("C18/waits-longer-than-dialtimeout/slow-director", "a caller is still waiting %v after it started (no live target, DialTimeout %v) while another caller's Director hook is slow", vt.Elapsed()-start, s.c.DialTimeout)
		}
		closed := false
		vs.GoNamed("closer", func() { s.c.Close(); closed = true })
		vs.Quiesce()
		if !closed {
			x.Fail("C18/close-blocked/slow-director", "Client.Close does not return while a caller's Director hook is slow")
		}
		held = false
		vs.Quiesce()
		s.tick(6)
		if !ws[0].done {
			x.Fail("C18/caller-stuck/slow-director", "the caller whose Director hook was slow never returned after the Client was closed")
		}
		out = fmt.Sprintf("w2=%v closed=%v first=%v", w2[0].done, closed, ws[0].done)
	}
	x.Outcome("kind=%d %s", kind, out)
	s.close()
}

func init() {
	register(&Scenario{Prop: "C18", Name: "c18/hung-probe", Quick: []Bound{{0, 0}, {1, 0}}, Thorough: []Bound{{2, 0}}, Body: c18HungProbe, MaxSteps: 100000, BudgetQ: 15})
	register(&Scenario{Prop: "C18", Name: "c18/director-callbacks", Quick: []Bound{{0, 0}, {1, 0}}, Thorough: []Bound{{2, 0}}, Body: c18Director, MaxSteps: 100000, BudgetQ: 15})
}

// the application re-supplies the target list (Update) while a health probe of one target is in
// flight; the probe then succeeds.  Later that target starts refusing connections: it stops
// receiving calls within the detection time like any other (a probe result that belongs to the
// replaced target table must not leave something behind that nobody examines any more).
func c18UpdateDuringProbe(x *X) {
	sched := []rpc.Scheduling{rpc.RoundRobinScheduling, rpc.LeastTimeScheduling}[x.Choose(2)]
	same := x.Choose(2) == 1 // Update with the same addresses / with one more
	s := newCliSys(x, sched, "a", "b")
	s.rt.up["a"], s.rt.up["b"], s.rt.up["c"] = true, true, true
	s.rt.gate["a"] = true // probes of a take long
	s.tick(1)
	if same {
		s.c.Update("a", "b")
	} else {
		s.c.Update("b", "a", "c")
	}
	vs.Quiesce()
	s.rt.gate["a"] = false // the probes that were in flight return now: a is reachable
	s.tick(3)
	for i := 0; i < 4; i++ {
		clientCall(s.c, cfCall)
	}
	s.rt.up["a"] = false
	for i := 0; i < 4; i++ { // one of these hits a and fails
		clientCall(s.c, cfCall)
		s.tick(1)
	}
	s.tick(2)
	from := len(s.rt.routed)
	for i := 0; i < 6; i++ {
		clientCall(s.c, cfCall)
		s.tick(1)
	}
	hits := 0
	var seq []string
	for _, r := range s.rt.userRoutes(from) {
		seq = append(seq, r.addr)
		if r.addr == "a" {
			hits++
		}
	}
	if hits > 1 {
		x.Fail("C18/no-failover/update-during-probe", "target a has refused connections for 4 calls and 6 detector periods while another target is healthy, and %d of the next 6 calls were still sent to it (%v); earlier, Update(%v) had run while a probe of a was in flight", hits, seq, map[bool]string{true: "a, b", false: "b, a, c"}[same])
	}
	x.Outcome("sched=%d same=%v seq=%v", sched, same, seq)
	s.close()
}

func init() {
	register(&Scenario{Prop: "C18", Name: "c18/update-during-probe", Quick: []Bound{{0, 0}, {1, 0}}, Thorough: []Bound{{2, 0}}, Body: c18UpdateDuringProbe, MaxSteps: 100000, BudgetQ: 15})
}

// an outage shorter than a detector period: a live target refuses one call and is reachable again
// before the next probe: after a few detector periods it is used again.
func c18ShortOutage(x *X) {
	sched := []rpc.Scheduling{rpc.RoundRobinScheduling, rpc.LeastTimeScheduling}[x.Choose(2)]
	form := []int{cfCall, cfGo, cfRoundTrip, cfPing}[x.Choose(4)]
	n := 2 + x.Choose(2)
	addrs := []string{"a", "b", "c"}[:n]
	s := newCliSys(x, sched, addrs...)
	s.c.Tick = 50 * time.Millisecond
	for _, a := range addrs {
		s.rt.up[a] = true
	}
	s.tick(2)
	for i := 0; i < n; i++ {
		clientCall(s.c, form)
	}
	s.rt.up["a"] = false
	hit := false
	for i := 0; i < 2*n+2 && !hit; i++ {
		from := len(s.rt.routed)
		clientCall(s.c, form)
		for _, r := range s.rt.userRoutes(from) {
			hit = hit || r.addr == "a"
		}
		if sched == rpc.LeastTimeScheduling {
			vt.Advance(60 * time.Millisecond) // (the next call is a probe of the next target; no detector period passes: 60 ms < 100 ms)
			vs.Quiesce()
			if vt.Elapsed()%(100*time.Millisecond) < 60*time.Millisecond && false {
				break
			}
		}
	}
	s.rt.up["a"] = true // reachable again
	s.tick(4)
	from := len(s.rt.routed)
	for i := 0; i < 3*n; i++ {
		clientCall(s.c, form)
		s.tick(1)
	}
	used := false
	var seq []string
	for _, r := range s.rt.userRoutes(from) {
		seq = append(seq, r.addr)
		used = used || r.addr == "a"
	}
	if hit && !used {
		x.Fail("C18/recovered-target-unused/short-outage", "target a refused one %s call and was reachable again before the next detector period; four periods later none of %d calls (scheduling %d, %d targets) went to it: %v", cfNames[form], 3*n, sched, n, seq)
	}
	x.Outcome("sched=%d form=%s n=%d hit=%v used=%v", sched, cfNames[form], n, hit, used)
	s.close()
}

func init() {
	register(&Scenario{Prop: "C18", Name: "c18/short-outage", Quick: []Bound{{0, 0}, {1, 0}}, Thorough: []Bound{{2, 0}}, Body: c18ShortOutage, MaxSteps: 100000, BudgetQ: 15})
}

// the whole stack (Client, Transport, Conn, fake network, real servers): targets that served calls go away,
// calls observe the broken connections, nobody is alive any more and callers wait; Client.Close then
// releases every waiter with ErrShutdown, makes later calls fail at once and leaves nothing behind -
// whatever state the Transport's connections are in (healthy, broken and noticed, broken and unnoticed).
func c18RealClose(x *X) {
	ntargets := 1 + x.Choose(2)
	noticed := x.Choose(3) // after the outage and before Close: nobody calls / one call / calls until one has to wait
	forms := pickForms(x, 2)
	n := newNet()
	so := srvOpts{bufSize: 64}
	addrs := []string{"a", "b"}[:ntargets]
	var srvs []*rpc.Server
	var worlds []*World
	for _, a := range addrs {
		w := newWorld()
		s, _ := startListener(n, w, a, so, false)
		srvs, worlds = append(srvs, s), append(worlds, w)
	}
	vs.Quiesce()
	c := rpc.NewClient(so.options(n, 64), addrs...)
	c.DialTimeout = 10 * time.Second
	vs.Quiesce()
	vt.Advance(cTick)
	vs.Quiesce()
	for i := 0; i < 2*ntargets; i++ {
		u := newUcall(byte(1+i), 0, 20, formCall)
		if err := c.Call(u.method, &u.args, &u.reply); err != nil || !eqBytes(u.reply, u.want()) {
			x.Fail("C18/setup-call-failed", "call %d with %d live targets: %v", i, ntargets, err)
		}
	}
	for _, s := range srvs {
		s.Close()
	}
	vs.Quiesce()
	// calls after the outage: each fails (the broken connection, then the refused re-dial) or - once the Client
	// has seen every target refuse - waits for a live target
	type wt struct {
		done bool
		err  error
		form int
	}
	var ws []*wt
	var seen []string
	for i := 0; i < []int{0, 1, 4 * ntargets}[noticed] && len(ws) == 0; i++ {
		u := newUcall(byte(0x20+i), 0, 20, formCall)
		w := &wt{form: cfCall}
		vs.GoNamed(fmt.Sprintf("after-outage%d", i), func() { w.err = c.Call(u.method, &u.args, &u.reply); w.done = true })
		vs.Quiesce()
		if w.done {
			seen = append(seen, errStr(w.err))
			if w.err == nil {
				x.Fail("C18/call-succeeded-without-server", "a call succeeded after every server was closed")
			}
		} else {
			seen = append(seen, "waits")
			ws = append(ws, w)
		}
	}
	if len(ws) > 0 {
		for k := 0; k < 3; k++ {
			vt.Advance(cTick)
			vs.Quiesce()
		}
		for i, f := range forms {
			i, f := i, f
			w := &wt{form: f}
			ws = append(ws, w)
			vs.GoNamed(fmt.Sprintf("waiter%d", i), func() {
				u := newUcall(byte(0x40+i), 0, 20, formCall)
				switch f {
				case cfGo:
					done := make(chan *rpc.Call, 1)
					call := c.Go(u.method, &u.args, &u.reply, done)
					recvCall(done)
					w.err = call.Error
				case cfPing:
					w.err = c.Ping()
				case cfCallCtx:
					w.err = c.CallWithContext(context.Background(), u.method, &u.args, &u.reply)
				default:
					w.err = c.Call(u.method, &u.args, &u.reply)
				}
				w.done = true
			})
		}
		vs.Quiesce()
		for i, w := range ws {
			if w.done {
				x.Fail("C18/call-did-not-wait", "no target is alive (all servers closed, every target has refused a call: %v) but call %d returned %v instead of waiting", seen, i, w.err)
			}
		}
	}
	var c1 error
	closed := false
	vs.GoNamed("closer", func() { c1 = c.Close(); closed = true })
	vs.Quiesce()
	what := fmt.Sprintf("%d targets that served calls went away, after the outage %v", ntargets, seen)
	if !closed {
		x.Fail("C18/close-hangs", "%s: Client.Close has not returned", what)
	}
	for i, w := range ws {
		if !w.done {
			x.Fail("C18/waiter-not-released/real-close", "%s: a caller (form %d) waiting for a live target is still waiting after Client.Close returned %v", what, w.form, c1)
		} else if w.err != rpc.ErrShutdown {
			x.Fail("C18/waiter-error/real-close", "%s: the waiting caller %d returned %v after Client.Close, want ErrShutdown", what, i, w.err)
		}
	}
	lateDone := false
	var lateErr error
	vs.GoNamed("late", func() { lateErr = c.Call("Svc.Echo", nil, nil); lateDone = true })
	vs.Quiesce()
	if !lateDone {
		x.Fail("C18/call-after-close-waits", "%s: a call started after Client.Close (which returned %v) waits instead of failing at once", what, c1)
	} else if lateErr != rpc.ErrShutdown {
		x.Fail("C18/call-after-close-error", "%s: a call started after Client.Close returned %v, want ErrShutdown", what, lateErr)
	}
	vt.Advance(3 * cTick)
	vs.Quiesce()
	for _, t := range blockedThreads(nil) {
		x.Fail("C18/thread-left-behind", "%s: after Client.Close: %s", what, t)
	}
	x.Outcome("n=%d noticed=%d forms=%v seen=%v close=%v", ntargets, noticed, forms, seen, c1)
	// (let a Client that did not close go: its callers time out)
	vt.Advance(11 * time.Second)
	vs.Quiesce()
}

func init() {
	register(&Scenario{Prop: "C18", Name: "c18/close-after-outage-whole-stack", Quick: []Bound{{0, 0}, {1, 0}}, Thorough: []Bound{{2, 0}}, Body: c18RealClose, MaxSteps: 400000, BudgetQ: 25, BudgetT: 300})
}
