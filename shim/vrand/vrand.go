// Package vrand replaces math/rand in the instrumented build: Intn and friends are explorer
// choices, so every outcome of a random decision is explored.
package vrand

import (
	"math/rand"

	vs "verif/shim/vsync"
)

type Rand = rand.Rand
type Source = rand.Source

func NewSource(seed int64) Source { return rand.NewSource(seed) }
func New(src Source) *Rand        { return rand.New(src) }
func Seed(seed int64)             { rand.Seed(seed) }

func Intn(n int) int {
	if !vs.Controlled() {
		return rand.Intn(n)
	}
	if n <= 0 {
		panic("invalid argument to Intn")
	}
	return vs.Choose(vs.KDriver, n)
}
func Int31n(n int32) int32 { return int32(Intn(int(n))) }
func Int63n(n int64) int64 { return int64(Intn(int(n))) }
func Int() int {
	if !vs.Controlled() {
		return rand.Int()
	}
	return 0
}
func Int63() int64 {
	if !vs.Controlled() {
		return rand.Int63()
	}
	return 0
}
func Float64() float64 {
	if !vs.Controlled() {
		return rand.Float64()
	}
	return 0
}
func Perm(n int) []int {
	if !vs.Controlled() {
		return rand.Perm(n)
	}
	p := make([]int, n)
	for i := range p {
		p[i] = i
	}
	return p
}
