// Package vtime replaces package time in the instrumented build.  Under a controlled execution
// the clock is virtual: it only moves when the scenario driver calls Advance, timers and tickers
// fire when their deadline is reached.  In pass-through mode everything delegates to package time.
package vtime

import (
	"time"

	vs "verif/shim/vsync"
)

type Time = time.Time
type Duration = time.Duration
type Month = time.Month
type Weekday = time.Weekday
type Location = time.Location

const (
	Nanosecond  = time.Nanosecond
	Microsecond = time.Microsecond
	Millisecond = time.Millisecond
	Second      = time.Second
	Minute      = time.Minute
	Hour        = time.Hour
	RFC3339     = time.RFC3339
	RFC3339Nano = time.RFC3339Nano
)

var (
	UTC   = time.UTC
	Local = time.Local
)

func Date(y int, m Month, d, h, mi, s, ns int, loc *Location) Time {
	return time.Date(y, m, d, h, mi, s, ns, loc)
}
func Unix(s, ns int64) Time                    { return time.Unix(s, ns) }
func ParseDuration(s string) (Duration, error) { return time.ParseDuration(s) }

var base = time.Date(2030, 1, 1, 0, 0, 0, 0, time.UTC)
var off Duration
var timers []*tm
var created int

type tm struct {
	c      chan Time
	f      func()
	when   Duration
	period Duration
	active bool
	lib    bool
}

func init() { vs.OnReset(func() { off = 0; timers = nil; created = 0 }) }

// Now returns the virtual time under a controlled execution.
func Now() Time {
	if !vs.Controlled() {
		return time.Now()
	}
	return base.Add(off)
}
func Since(t Time) Duration { return Now().Sub(t) }
func Until(t Time) Duration { return t.Sub(Now()) }

// Epoch is the virtual time at the start of every execution.
func Epoch() Time { return base }

// Elapsed is the virtual time elapsed in this execution.
func Elapsed() Duration { return off }

type Ticker struct {
	C    <-chan Time
	real *time.Ticker
	t    *tm
}

func NewTicker(d Duration) *Ticker {
	if !vs.Controlled() {
		r := time.NewTicker(d)
		return &Ticker{C: r.C, real: r}
	}
	if d <= 0 {
		panic("non-positive interval for NewTicker")
	}
	t := &tm{c: make(chan Time, 1), when: off + d, period: d, active: true}
	timers = append(timers, t)
	created++
	return &Ticker{C: t.c, t: t}
}
func (k *Ticker) Stop() {
	if k.real != nil {
		k.real.Stop()
		return
	}
	k.t.active = false
}
func (k *Ticker) Reset(d Duration) {
	if k.real != nil {
		k.real.Reset(d)
		return
	}
	k.t.period, k.t.when, k.t.active = d, off+d, true
}

type Timer struct {
	C    <-chan Time
	real *time.Timer
	t    *tm
}

func NewTimer(d Duration) *Timer {
	if !vs.Controlled() {
		r := time.NewTimer(d)
		return &Timer{C: r.C, real: r}
	}
	t := &tm{c: make(chan Time, 1), when: off + d, active: true}
	timers = append(timers, t)
	created++
	return &Timer{C: t.c, t: t}
}
func (k *Timer) Stop() bool {
	if k.real != nil {
		return k.real.Stop()
	}
	was := k.t.active
	k.t.active = false
	return was
}
func (k *Timer) Reset(d Duration) bool {
	if k.real != nil {
		return k.real.Reset(d)
	}
	was := k.t.active
	k.t.when, k.t.active = off+d, true
	return was
}

func After(d Duration) <-chan Time { return NewTimer(d).C }

func AfterFunc(d Duration, f func()) *Timer {
	if !vs.Controlled() {
		r := time.AfterFunc(d, f)
		return &Timer{real: r}
	}
	t := &tm{f: f, when: off + d, active: true}
	timers = append(timers, t)
	created++
	return &Timer{t: t}
}

func Sleep(d Duration) {
	if !vs.Controlled() {
		time.Sleep(d)
		return
	}
	t := NewTimer(d)
	vs.WaitRecv(t.C)
	<-t.C
}

// Advance moves the virtual clock forward by d, firing every timer whose deadline is reached
// in deadline order, then yields.  Harness only.
func Advance(d Duration) {
	target := off + d
	for {
		var next *tm
		for _, t := range timers {
			if t.active && t.when <= target && (next == nil || t.when < next.when) {
				next = t
			}
		}
		if next == nil {
			break
		}
		if next.when > off {
			off = next.when
		}
		if next.period > 0 {
			next.when += next.period
		} else {
			next.active = false
		}
		if next.f != nil {
			vs.Go(next.f)
		} else {
			select {
			case next.c <- base.Add(off):
			default:
			}
		}
	}
	off = target
	vs.Yield()
}

// ActiveTimers is the number of live (unstopped, unfired) timers and tickers: leak oracle.
func ActiveTimers() int {
	n := 0
	for _, t := range timers {
		if t.active {
			n++
		}
	}
	return n
}

// Created is the number of timers and tickers created in this execution.
func Created() int { return created }
