package vsync

import (
	"runtime"
	"sync"
)

// Locker is sync.Locker.
type Locker = sync.Locker

// Map is sync.Map (no blocking behaviour of its own under a single token).
type Map = sync.Map

// Mutex replaces sync.Mutex.
type Mutex struct {
	real  sync.Mutex
	st    objState
	held  bool
	owner *thread
}

func (m *Mutex) sync(s *sched) *objState {
	if m.st.ep != epoch {
		m.held, m.owner = false, nil
	}
	return s.touch(&m.st)
}

// Lock is a scheduling point; it blocks while the mutex is held.
func (m *Mutex) Lock() {
	s := S
	if s == nil {
		m.real.Lock()
		return
	}
	if reaping {
		runtime.Goexit()
	}
	o := m.sync(s)
	s.point("mutex.Lock", o, func() bool { return !m.held })
	m.held = true
	s.acq(o)
	m.owner = s.cur
	if s.cur != nil {
		s.cur.xl++
	}
}

// Unlock releases the mutex (not a scheduling point).
func (m *Mutex) Unlock() {
	s := S
	if s == nil {
		m.real.Unlock()
		return
	}
	if reaping {
		return
	}
	m.sync(s)
	if !m.held {
		panic("sync: unlock of unlocked mutex")
	}
	s.rel(&m.st)
	m.held = false
	if m.owner != nil && m.owner.xl > 0 {
		m.owner.xl--
	}
	m.owner = nil
	if s.cfg.UnlockPoints {
		s.point("mutex.Unlock", &m.st, nil)
	}
}

// RWMutex replaces sync.RWMutex.
type RWMutex struct {
	real  sync.RWMutex
	st    objState
	w     bool
	r     int
	owner *thread
}

func (m *RWMutex) sync(s *sched) *objState {
	if m.st.ep != epoch {
		m.w, m.r, m.owner = false, 0, nil
	}
	return s.touch(&m.st)
}

func (m *RWMutex) Lock() {
	s := S
	if s == nil {
		m.real.Lock()
		return
	}
	if reaping {
		runtime.Goexit()
	}
	o := m.sync(s)
	s.point("rwmutex.Lock", o, func() bool { return !m.w && m.r == 0 })
	m.w = true
	s.acq(o)
	m.owner = s.cur
	if s.cur != nil {
		s.cur.xl++
	}
}

func (m *RWMutex) Unlock() {
	s := S
	if s == nil {
		m.real.Unlock()
		return
	}
	if reaping {
		return
	}
	m.sync(s)
	if !m.w {
		panic("sync: Unlock of unlocked RWMutex")
	}
	s.rel(&m.st)
	m.w = false
	if m.owner != nil && m.owner.xl > 0 {
		m.owner.xl--
	}
	m.owner = nil
	if s.cfg.UnlockPoints {
		s.point("rwmutex.Unlock", &m.st, nil)
	}
}

func (m *RWMutex) RLock() {
	s := S
	if s == nil {
		m.real.RLock()
		return
	}
	if reaping {
		runtime.Goexit()
	}
	o := m.sync(s)
	s.point("rwmutex.RLock", o, func() bool { return !m.w })
	m.r++
	s.acq(o)
	if s.cur != nil {
		s.cur.rl++
	}
}

func (m *RWMutex) RUnlock() {
	s := S
	if s == nil {
		m.real.RUnlock()
		return
	}
	if reaping {
		return
	}
	m.sync(s)
	if m.r <= 0 {
		panic("sync: RUnlock of unlocked RWMutex")
	}
	s.rel(&m.st)
	m.r--
	if s.cur != nil && s.cur.rl > 0 {
		s.cur.rl--
	}
}

// RLocker returns a Locker for the read side.
func (m *RWMutex) RLocker() Locker { return (*rlocker)(m) }

type rlocker RWMutex

func (r *rlocker) Lock()   { (*RWMutex)(r).RLock() }
func (r *rlocker) Unlock() { (*RWMutex)(r).RUnlock() }

// Cond replaces sync.Cond.  The zero value with L set is usable, as with sync.Cond.
type Cond struct {
	L       Locker
	once    sync.Once
	real    *sync.Cond
	st      objState
	waiters []*int
}

// NewCond returns a new Cond with Locker l.
func NewCond(l Locker) *Cond { return &Cond{L: l} }

func (c *Cond) rc() *sync.Cond { c.once.Do(func() { c.real = sync.NewCond(c.L) }); return c.real }

func (c *Cond) sync(s *sched) *objState {
	if c.st.ep != epoch {
		c.waiters = nil
	}
	return s.touch(&c.st)
}

func (c *Cond) Wait() {
	s := S
	if s == nil {
		c.rc().Wait()
		return
	}
	if reaping {
		runtime.Goexit()
	}
	o := c.sync(s)
	// entering Wait is a scheduling point of its own: a Signal/Broadcast issued by a thread that
	// does not hold L can land between the caller's last check and its registration as a waiter
	s.point("cond.Wait(enter)", o, nil)
	tok := new(int)
	c.waiters = append(c.waiters, tok)
	c.L.Unlock()
	s.point("cond.Wait", o, func() bool { return *tok == 1 })
	s.acq(o)
	c.L.Lock()
}

func (c *Cond) Signal() {
	s := S
	if s == nil {
		c.rc().Signal()
		return
	}
	if reaping {
		return
	}
	s.rel(c.sync(s))
	if n := len(c.waiters); n > 0 {
		// which waiter is woken is unspecified: explorer-owned (default: the oldest)
		i := Choose(KEnv, n)
		*c.waiters[i] = 1
		c.waiters = append(c.waiters[:i:i], c.waiters[i+1:]...)
	}
}

func (c *Cond) Broadcast() {
	s := S
	if s == nil {
		c.rc().Broadcast()
		return
	}
	if reaping {
		return
	}
	s.rel(c.sync(s))
	for _, w := range c.waiters {
		*w = 1
	}
	c.waiters = nil
}

// WaitGroup replaces sync.WaitGroup and mirrors the runtime's misuse detection.
type WaitGroup struct {
	real sync.WaitGroup
	st   objState
	v, w int
}

func (g *WaitGroup) sync(s *sched) *objState {
	if g.st.ep != epoch {
		g.v, g.w = 0, 0
	}
	return s.touch(&g.st)
}

func (g *WaitGroup) Add(d int) {
	s := S
	if s == nil {
		g.real.Add(d)
		return
	}
	if reaping {
		return
	}
	if o := g.sync(s); d < 0 {
		s.rel(o)
	}
	g.v += d
	if g.v < 0 {
		panic("sync: negative WaitGroup counter")
	}
	if g.w != 0 && d > 0 && g.v == d {
		panic("sync: WaitGroup misuse: Add called concurrently with Wait")
	}
	if g.v == 0 {
		g.w = 0
	}
}

func (g *WaitGroup) Done() { g.Add(-1) }

func (g *WaitGroup) Wait() {
	s := S
	if s == nil {
		g.real.Wait()
		return
	}
	if reaping {
		runtime.Goexit()
	}
	o := g.sync(s)
	s.point("wg.Wait", o, nil)
	if g.v == 0 {
		s.acq(o)
		return
	}
	g.w++
	s.point("wg.Wait(blocked)", o, func() bool { return g.w == 0 })
	s.acq(o)
	if g.v != 0 {
		panic("sync: WaitGroup is reused before previous Wait has returned")
	}
}

// Once replaces sync.Once.
type Once struct {
	real     sync.Once
	realDone bool
	st       objState
	state    int // 0 idle, 1 running, 2 done
}

func (o *Once) Do(f func()) {
	s := S
	if s == nil {
		o.real.Do(func() { f(); o.realDone = true })
		return
	}
	if reaping {
		return
	}
	if o.st.ep != epoch {
		o.state = 0
		if o.realDone {
			o.state = 2
		}
	}
	ob := s.touch(&o.st)
	if o.state == 2 {
		s.acq(ob)
		return
	}
	if o.state == 1 {
		s.point("once.Do(wait)", ob, func() bool { return o.state == 2 })
		s.acq(ob)
		return
	}
	o.state = 1
	defer func() { o.state = 2; s.rel(ob) }()
	f()
}

// Pool replaces sync.Pool: a deterministic LIFO stack, emptied at the start of every
// execution.  A []byte handed to Put is poisoned over its full capacity (use-after-free
// poisoning): after Put nobody may read the object, so a retained alias that now reads 0xDB is
// exactly the defect the buffer-ownership properties are about.
type Pool struct {
	New   func() interface{}
	real  sync.Pool
	items []interface{}
	vcs   []vclock // Config.MapRaces: the clock of the thread that put the item
	ep    int32
}

// PoolMiss makes Get ignore pooled items (the real pool may do so after a GC).
var PoolMiss bool

func (p *Pool) Get() interface{} {
	s := S
	if s == nil {
		if x := p.real.Get(); x != nil {
			return x
		}
		if p.New != nil {
			return p.New()
		}
		return nil
	}
	if p.ep != epoch {
		p.ep, p.items, p.vcs = epoch, nil, nil
	}
	if n := len(p.items); n > 0 && !PoolMiss {
		x := p.items[n-1]
		p.items[n-1] = nil
		p.items = p.items[:n-1]
		if s.cfg.MapRaces && len(p.vcs) == n && s.cur != nil {
			s.cur.vc.join(p.vcs[n-1])
			p.vcs = p.vcs[:n-1]
		}
		return x
	}
	if p.New != nil {
		return p.New()
	}
	return nil
}

func (p *Pool) Put(x interface{}) {
	s := S
	if s == nil {
		p.real.Put(x)
		return
	}
	if reaping {
		return
	}
	if p.ep != epoch {
		p.ep, p.items, p.vcs = epoch, nil, nil
	}
	if b, ok := x.([]byte); ok && !s.cfg.NoPoison {
		b = b[:cap(b)]
		for i := range b {
			b[i] = 0xDB
		}
	}
	p.items = append(p.items, x)
	if s.cfg.MapRaces && s.cur != nil {
		for len(p.vcs) < len(p.items)-1 {
			p.vcs = append(p.vcs, nil)
		}
		p.vcs = append(p.vcs, s.cur.vc.copy())
		s.cur.vc[s.cur.id]++
	}
}
