package vsync

import (
	"reflect"
	"runtime"
	"sort"
	"sync"
	"time"
)

// Finalizers.  runtime.SetFinalizer in instrumented code becomes SetFinalizer: when the collector finds the
// object unreachable, the finalizer is not run on the runtime's finalizer goroutine (which the scheduler does
// not control) but put aside; it runs as a controlled thread of its own from the moment the scenario says
// that a garbage collection happens (CollectGarbage).  Garbage collection is thus an environment event the
// driver places; an execution without it is one in which no collection happened to run.

type finEntry struct {
	ep  int32
	seq int
	run func()
}

var (
	finMu      sync.Mutex
	finPending []finEntry
	finSeq     int
)

// SetFinalizer replaces runtime.SetFinalizer in instrumented code.
func SetFinalizer(obj, f interface{}) {
	s := S
	if f == nil || s == nil || reaping {
		runtime.SetFinalizer(obj, f)
		return
	}
	finMu.Lock()
	finSeq++
	ep, seq := epoch, finSeq
	finMu.Unlock()
	fv := reflect.ValueOf(f)
	runtime.SetFinalizer(obj, func(o interface{}) {
		finMu.Lock()
		finPending = append(finPending, finEntry{ep, seq, func() { fv.Call([]reflect.Value{reflect.ValueOf(o)}) }})
		finMu.Unlock()
	})
}

type finSentinel struct {
	p   *int
	pad [64]byte
}

// CollectGarbage (harness, from the driver): a garbage collection happens now.  The finalizers of the objects
// of this execution that instrumented code has made unreachable are started as library threads, in the
// order in which they were registered.
func CollectGarbage() {
	s := S
	if s == nil || reaping {
		return
	}
	runtime.GC()
	done := make(chan struct{})
	x := &finSentinel{p: new(int)}
	runtime.SetFinalizer(x, func(*finSentinel) { close(done) })
	x = nil
	for i := 0; i < 100; i++ {
		runtime.GC()
		select {
		case <-done:
			i = 100
		case <-time.After(10 * time.Millisecond):
		}
	}
	finMu.Lock()
	var mine []finEntry
	for _, e := range finPending {
		if e.ep == epoch {
			mine = append(mine, e)
		}
	}
	finPending = nil
	finMu.Unlock()
	sort.Slice(mine, func(i, j int) bool { return mine[i].seq < mine[j].seq })
	for _, e := range mine {
		GoLib("finalizer", e.run)
	}
}
