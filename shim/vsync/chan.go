package vsync

import (
	"reflect"
	"runtime"
	"sort"
)

// Case is one communication clause of an instrumented select statement.
type Case struct {
	ch   reflect.Value
	send bool
	sel  bool // evaluated for a select statement
}

// CR describes a receive clause on ch.
func CR(ch interface{}) Case { return Case{ch: reflect.ValueOf(ch)} }

// CS describes a send clause on ch.
func CS(ch interface{}) Case { return Case{ch: reflect.ValueOf(ch), send: true} }

func (s *sched) chanObj(c reflect.Value) *objState {
	if !c.IsValid() || c.IsNil() {
		return nil
	}
	p := c.Pointer()
	o := s.chans[p]
	if o == nil {
		o = &objState{ep: epoch}
		s.chans[p] = o
	}
	return o
}

func (s *sched) ready(c Case) bool {
	if !c.ch.IsValid() || c.ch.IsNil() {
		return false
	}
	closed := s.closed[c.ch.Pointer()]
	if c.send {
		if closed {
			return true // the real send panics, as it should
		}
		if s.syncCh[c.ch.Pointer()] {
			// an unbuffered channel made by instrumented code (MakeSync): one value in transit at a time; the
			// sender then waits in AfterSend until a receiver has taken it
			if c.sel {
				s.fatal("unsupported: select with a send on an unbuffered channel under the controlled scheduler")
			}
			return c.ch.Len() == 0
		}
		if c.ch.Cap() == 0 {
			s.fatal("unsupported: send on an unbuffered channel under the controlled scheduler")
		}
		return c.ch.Len() < c.ch.Cap()
	}
	if c.ch.Cap() == 0 && !closed {
		// an unbuffered channel can only become ready by being closed (harness contexts)
		return false
	}
	return c.ch.Len() > 0 || closed
}

// WaitRecv is placed before a receive statement: scheduling point, blocks until the receive
// can complete without blocking.
func WaitRecv(ch interface{}) {
	s := S
	if s == nil {
		return
	}
	if reaping {
		runtime.Goexit()
	}
	c := CR(ch)
	o := s.chanObj(c.ch)
	s.point("chan recv", o, func() bool { return s.ready(c) })
	s.acq(o)
}

// WaitSend is placed before a send statement.
func WaitSend(ch interface{}) {
	s := S
	if s == nil {
		return
	}
	if reaping {
		runtime.Goexit()
	}
	c := CS(ch)
	o := s.chanObj(c.ch)
	s.rel(o) // what the sender has done so far happens before whoever receives the value
	s.point("chan send", o, func() bool { return s.ready(c) })
}

// MakeSync stands for make(chan T) / make(chan T, 0) in instrumented code: mk(n) makes the channel with
// capacity n.  Under the controlled scheduler an unbuffered channel is represented by a channel with one
// slot that carries the value in transit: the sender deposits it (WaitSend: when the slot is free) and
// waits in AfterSend until a receiver has taken it, which is when a send on an unbuffered channel returns.
// Observable differences: len and cap of such a channel; a select with a send case on it is not supported.
func MakeSync(mk func(n int) interface{}) interface{} {
	s := S
	if s == nil || reaping {
		return mk(0)
	}
	c := mk(1)
	s.syncCh[reflect.ValueOf(c).Pointer()] = true
	return c
}

// AfterSend is placed after a send statement: on an unbuffered channel the sender goes on when the value
// has been received (or the channel was closed under it).
func AfterSend(ch interface{}) {
	s := S
	if s == nil {
		return
	}
	if reaping {
		runtime.Goexit()
	}
	c := CS(ch)
	if !c.ch.IsValid() || c.ch.IsNil() || !s.syncCh[c.ch.Pointer()] {
		return
	}
	o := s.chanObj(c.ch)
	s.point("chan send (waits for the receiver)", o, func() bool { return c.ch.Len() == 0 || s.closed[c.ch.Pointer()] })
}

// Select waits until one of the cases can proceed (or returns -1 at once when hasDefault and
// none can), lets the explorer choose among the ready cases and returns the index of the chosen
// case WITHOUT performing the operation: the instrumented case body starts with the original
// operation, which cannot block because only one thread runs at a time.
func Select(hasDefault bool, cases ...Case) int {
	s := S
	if s == nil {
		panic("vsync.Select in pass-through mode")
	}
	if reaping {
		runtime.Goexit()
	}
	var rdy []int
	scan := func() bool {
		rdy = rdy[:0]
		for i, c := range cases {
			c.sel = true
			if s.ready(c) {
				rdy = append(rdy, i)
			}
		}
		return len(rdy) > 0
	}
	var o *objState
	for _, c := range cases {
		if o = s.chanObj(c.ch); o != nil {
			break
		}
	}
	if s.cfg.MapRaces {
		for _, c := range cases {
			if c.send {
				s.rel(s.chanObj(c.ch))
			}
		}
	}
	if hasDefault {
		s.point("select(default)", o, nil)
	} else {
		s.point("select", o, scan)
	}
	if !scan() {
		return -1
	}
	i := rdy[Choose(KSched, len(rdy))]
	if !cases[i].send {
		s.acq(s.chanObj(cases[i].ch))
	}
	return i
}

// Close replaces the builtin close for channels.
func Close(ch interface{}) {
	v := reflect.ValueOf(ch)
	if s := S; s != nil && !reaping {
		s.closed[v.Pointer()] = true
		s.rel(s.chanObj(v))
	}
	v.Close()
}

// RegisterObj gives p a deterministic id now (call at creation time of harness objects that
// end up as keys or values of library maps).
func RegisterObj(p interface{}) {
	v := reflect.ValueOf(p)
	if v.Kind() == reflect.Ptr || v.Kind() == reflect.Map || v.Kind() == reflect.Chan {
		ObjID(v.Pointer())
	}
}

// Unowned counts map iterations whose order fell back to addresses.
var Unowned int

func ptrOf(v reflect.Value) (uintptr, bool) {
	for v.Kind() == reflect.Interface {
		if v.IsNil() {
			return 0, false
		}
		v = v.Elem()
	}
	switch v.Kind() {
	case reflect.Ptr, reflect.Map, reflect.Chan, reflect.Func, reflect.UnsafePointer:
		return v.Pointer(), true
	}
	return 0, false
}

func (s *sched) knownID(v reflect.Value) (int, bool) {
	p, ok := ptrOf(v)
	if !ok {
		return 0, false
	}
	id, ok := s.objids[p]
	return id, ok
}

// MapKeys returns the keys of m in a deterministic order: sorted for ordered kinds; pointer-like
// keys by the deterministic id of the key (or of the value it maps to) when the harness
// registered one, else by address (counted in Unowned).  With more than one key the explorer may
// rotate the order (environment alternative).
func MapKeys(m interface{}) []interface{} {
	v := reflect.ValueOf(m)
	ks := v.MapKeys()
	s := S
	if len(ks) > 1 {
		less := func(a, b reflect.Value) bool { return false }
		switch ks[0].Kind() {
		case reflect.Uint64, reflect.Uint32, reflect.Uint, reflect.Uintptr, reflect.Uint16, reflect.Uint8:
			less = func(a, b reflect.Value) bool { return a.Uint() < b.Uint() }
		case reflect.Int, reflect.Int64, reflect.Int32, reflect.Int16, reflect.Int8:
			less = func(a, b reflect.Value) bool { return a.Int() < b.Int() }
		case reflect.String:
			less = func(a, b reflect.Value) bool { return a.String() < b.String() }
		default:
			rank := func(k reflect.Value) (int, uintptr) {
				if s != nil {
					if id, ok := s.knownID(k); ok {
						return id, 0
					}
					if id, ok := s.knownID(v.MapIndex(k)); ok {
						return id, 0
					}
				}
				p, _ := ptrOf(k)
				Unowned++
				return 1 << 30, p
			}
			less = func(a, b reflect.Value) bool {
				ia, pa := rank(a)
				ib, pb := rank(b)
				if ia != ib {
					return ia < ib
				}
				return pa < pb
			}
		}
		sort.Slice(ks, func(i, j int) bool { return less(ks[i], ks[j]) })
		if s != nil && !reaping && MapOrderChoices {
			if r := Choose(KEnv, len(ks)); r > 0 {
				ks = append(ks[r:len(ks):len(ks)], ks[:r]...)
			}
		}
	}
	out := make([]interface{}, len(ks))
	for i, k := range ks {
		out[i] = k.Interface()
	}
	return out
}

// MapOrderChoices makes the iteration order of maps an environment choice (rotations of the
// canonical order).
var MapOrderChoices bool
