package vsync

import (
	"fmt"
	"reflect"
	"runtime"
	"strings"
)

// Unsynchronised map access (Config.MapRaces).
//
// The Go runtime kills the process ("fatal error: concurrent map writes" / "concurrent map read
// and map write") when two goroutines touch a map at the same time and one of them writes.  Under
// a single-token scheduler that can never happen literally, so it is decided the way a race
// detector does: every thread and every synchronisation object carries a vector clock; the shim's
// own operations are the happens-before edges (mutex unlock -> lock, channel send -> receive,
// close -> receive, WaitGroup Done -> Wait, Cond Signal -> Wait, Once, Pool Put -> Get, atomic
// operations on one address, go statement -> new thread); the instrumenter reports every map
// write, delete, range and (statement-level) read to MapAccess.  Two accesses to one map by
// different threads, at least one of them a write, that are not ordered by happens-before are
// reported as the fatal error they can become.  Missing edges can only come from synchronisation
// the shim does not see (there is none in the instrumented packages); extra edges (a receive takes
// the clocks of every earlier sender of that channel) can only hide a report.

type vclock map[int]uint32

func (v vclock) copy() vclock {
	c := make(vclock, len(v)+1)
	for k, x := range v {
		c[k] = x
	}
	return c
}

func (v *vclock) join(o vclock) {
	if *v == nil {
		*v = vclock{}
	}
	for k, x := range o {
		if (*v)[k] < x {
			(*v)[k] = x
		}
	}
}

type mapAcc struct {
	thread int
	clock  uint32
	where  string
}

type mapState struct {
	keep   interface{} // keeps the map alive so that its address is not reused within the execution
	write  *mapAcc
	reads  map[int]*mapAcc
	report bool
}

// rel: the running thread releases into o (everything it has done so far happens before whoever
// acquires from o later).
func (s *sched) rel(o *objState) {
	if !s.cfg.MapRaces || o == nil || s.cur == nil {
		return
	}
	t := s.cur
	o.vc.join(t.vc)
	t.vc[t.id]++
}

// acq: the running thread acquires from o.
func (s *sched) acq(o *objState) {
	if !s.cfg.MapRaces || o == nil || s.cur == nil {
		return
	}
	s.cur.vc.join(o.vc)
}

func (s *sched) before(a *mapAcc, t *thread) bool {
	return a.thread == t.id || a.clock <= t.vc[a.thread]
}

// MapAccess is called by instrumented code before a statement that reads (write == false) or
// writes / deletes from (write == true) the map m.
func MapAccess(m interface{}, write bool) {
	s := S
	if s == nil || reaping || !s.cfg.MapRaces || s.cur == nil {
		return
	}
	v := reflect.ValueOf(m)
	if v.Kind() != reflect.Map || v.IsNil() {
		return
	}
	p := v.Pointer()
	ms := s.maps[p]
	if ms == nil {
		ms = &mapState{keep: m, reads: map[int]*mapAcc{}}
		if s.maps == nil {
			s.maps = map[uintptr]*mapState{}
		}
		s.maps[p] = ms
	}
	t := s.cur
	here := ""
	conflict := func(a *mapAcc, what string) {
		if ms.report {
			return
		}
		ms.report = true
		if here == "" {
			here = accessSite()
		}
		kind := "concurrent map read and map write"
		if write && what == "write" {
			kind = "concurrent map writes"
		}
		msg := fmt.Sprintf("fatal error: %s (the Go runtime ends the process when it notices): %s in thread %d (%s) at %s is not ordered with the earlier %s in thread %d at %s", kind, map[bool]string{true: "write", false: "read"}[write], t.id, t.name, here, what, a.thread, a.where)
		s.panics = append(s.panics, PanicInfo{Thread: t.id, Name: t.name, Value: msg, Func: "concurrent-map-access/" + funcOf(here), Stack: here})
		if s.cfg.Trace {
			s.log = append(s.log, "FATAL "+msg)
		}
	}
	if ms.write != nil && !s.before(ms.write, t) {
		conflict(ms.write, "write")
	}
	if write {
		for _, r := range ms.reads {
			if !s.before(r, t) {
				conflict(r, "read")
			}
		}
	}
	if here == "" && (ms.write == nil || ms.write.thread != t.id || write) {
		here = accessSite()
	}
	acc := &mapAcc{thread: t.id, clock: t.vc[t.id], where: here}
	if write {
		ms.write = acc
		ms.reads = map[int]*mapAcc{}
	} else {
		ms.reads[t.id] = acc
	}
}

func accessSite() string {
	pc := make([]uintptr, 6)
	n := runtime.Callers(3, pc)
	fr := runtime.CallersFrames(pc[:n])
	for {
		f, more := fr.Next()
		if !strings.Contains(f.Function, "vsync.") {
			fn := f.Function
			if i := strings.LastIndex(fn, "/"); i >= 0 {
				fn = fn[i+1:]
			}
			file := f.File
			if i := strings.LastIndex(file, "/"); i >= 0 {
				file = file[i+1:]
			}
			return fmt.Sprintf("%s (%s:%d)", fn, file, f.Line)
		}
		if !more {
			return "?"
		}
	}
}

func funcOf(site string) string {
	if i := strings.Index(site, " ("); i > 0 {
		return site[:i]
	}
	return site
}
