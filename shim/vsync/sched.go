// Package vsync is the controlled-scheduler replacement for package sync used by the
// instrumented build of hslam/rpc (and of the dependencies whose concurrency matters).
//
// Exactly one goroutine of the system under test runs at a time (single token).  Every
// synchronisation operation is a scheduling point; blocking is a predicate evaluated by the
// scheduler; every remaining source of nondeterminism is a numbered choice point owned by the
// explorer.  When no controlled execution is active every primitive delegates to the real
// package sync ("pass-through mode"), so the instrumented code is also correct under real
// concurrency (used by package init and by the instrumentation self-check).
package vsync

import (
	"fmt"
	"runtime"
	"runtime/debug"
	"strings"
	"unsafe"
)

// Kind of a choice point.
type Kind uint8

const (
	KSched  Kind = iota // which enabled thread runs next
	KEnv                // environment answer (fault, select case, map order, ...): alternative 0 is the default
	KDriver             // scenario driver alphabet: enumerated completely, free of cost
)

// Point is one recorded choice point of an execution.
type Point struct {
	Kind    Kind
	N       int  // number of alternatives (>= 2)
	Choice  int  // alternative taken
	Running bool // KSched: the running thread was still enabled (a non-zero choice is a preemption)
}

// PanicInfo describes a panic in a controlled thread.
type PanicInfo struct {
	Thread int
	Name   string
	Value  string
	Func   string // top-most frame inside the library under test
	Stack  string
}

// ThreadInfo is the state of a thread at the end of an execution.
type ThreadInfo struct {
	ID    int
	Name  string
	Lib   bool   // spawned by instrumented (library) code
	State string // "done" | "blocked" | "runnable"
	What  string // what it is blocked on
}

// Config of one execution.
type Config struct {
	Prefix         []int
	MaxSteps       int
	Trace          bool // keep a human readable log of every step
	AtomicPoints   bool // sync/atomic operations are scheduling points
	NoPoison       bool // do not poison []byte handed to a Pool
	NoStalls       bool // do not offer the "stall the default thread" alternative
	SoloStalls     bool // while the driver waits in QuiesceKeep, a thread that is the only enabled one may be stalled too (the driver goes on)
	UnlockPoints   bool // releasing a Mutex / RWMutex is followed by a scheduling point: the plain reads and writes a thread does right after leaving a critical section can then interleave with other threads
	MapRaces       bool // vector clocks + map accesses reported by instrumented code: unsynchronised concurrent map access is reported as the fatal error it can become (see race.go)
	UnlockedWrites bool // a struct-field write by a thread that holds no lock is a scheduling point (see SharedWrite)
	Names          bool // resolve the names of library threads from their call site (slow; always on when tracing)
	LibPrefix      string
}

// Result of one execution.
type Result struct {
	Points    []Point
	Steps     int
	Aborted   bool // step horizon reached (livelock / spin)
	Panics    []PanicInfo
	Threads   []ThreadInfo
	HB        uint64 // happens-before signature (order-independent)
	TraceHash uint64 // order-dependent hash of (thread, operation) steps
	Err       string // engine error (replay divergence, unsupported operation)
	Log       []string
	MaxLive   int
}

type objState struct {
	ep  int32
	ver uint32
	id  uint64
	vc  vclock // Config.MapRaces: what happened before the last release into this object
}

type thread struct {
	id      int
	name    string
	lib     bool
	path    uint64
	spawns  uint64
	opIdx   uint64
	wake    chan struct{}
	pred    func() bool
	what    string
	obj     *objState
	done    bool
	exited  bool
	gone    chan struct{}
	demoted int    // > 0: stalled (order of demotion); scheduled only when no other thread can run
	xl      int    // exclusive locks (Mutex.Lock, RWMutex.Lock) currently held by this thread
	vc      vclock // Config.MapRaces: this thread's vector clock
	rl      int    // read locks (RWMutex.RLock) currently held by this thread
}

type sched struct {
	cfg          Config
	threads      []*thread
	live         []*thread // threads that have not finished, in creation order
	cur          *thread
	reporting    bool // the run loop is collecting the result: no thread is running
	points       []Point
	finish       chan struct{}
	finished     bool
	steps        int
	aborted      bool
	panics       []PanicInfo
	closed       map[uintptr]bool
	chans        map[uintptr]*objState
	syncCh       map[uintptr]bool // unbuffered channels made by instrumented code (MakeSync)
	atoms        map[uintptr]*objState
	maps         map[uintptr]*mapState
	objids       map[uintptr]int
	hb           uint64
	th           uint64
	err          string
	log          []string
	quiescer     *thread
	quiescerKeep bool // the driver is waiting in QuiesceKeep
	ndemoted     int
}

// S is the active execution (nil = pass-through mode).
var S *sched
var reaping bool
var epoch int32
var resets []func()

// OnReset registers a function run at the start of every controlled execution (package-level
// state of instrumented dependencies is re-created there).
func OnReset(f func()) { resets = append(resets, f) }

// Controlled reports whether a controlled execution is active.
func Controlled() bool { return S != nil && !reaping }

// Ctl is the guard used by instrumented select statements: true under a controlled execution,
// false in pass-through mode; a thread being reaped leaves here.
func Ctl() bool {
	if S == nil {
		return false
	}
	if reaping {
		runtime.Goexit()
	}
	return true
}

// Epoch is the number of the current execution.
func Epoch() int32 { return epoch }

func mix(a, b, c, d uint64) uint64 {
	h := a*0x9E3779B97F4A7C15 ^ (b+0x7F4A7C15)*0xC2B2AE3D27D4EB4F
	h ^= h >> 29
	h = h*0x165667B19E3779F9 ^ (c+1)*0xD6E8FEB86659FD93
	h ^= h >> 32
	h = h*0x9E3779B97F4A7C15 ^ (d+3)*0xFF51AFD7ED558CCD
	h ^= h >> 31
	return h
}

func hashStr(s string) uint64 {
	var h uint64 = 14695981039346656037
	for i := 0; i < len(s); i++ {
		h ^= uint64(s[i])
		h *= 1099511628211
	}
	return h
}

// Run executes body as thread 0 under the scheduler, following cfg.Prefix at the first
// len(Prefix) choice points and taking alternative 0 afterwards.
func Run(cfg Config, body func()) *Result {
	if S != nil {
		panic("vsync: nested Run")
	}
	if cfg.MaxSteps <= 0 {
		cfg.MaxSteps = 20000
	}
	if cfg.LibPrefix == "" {
		cfg.LibPrefix = "github.com/hslam/rpc."
	}
	s := &sched{cfg: cfg, finish: make(chan struct{}), closed: map[uintptr]bool{}, chans: map[uintptr]*objState{}, syncCh: map[uintptr]bool{}, atoms: map[uintptr]*objState{}, objids: map[uintptr]int{}}
	epoch++
	S = s
	for _, f := range resets {
		f()
	}
	t := s.newThread("driver", false, nil)
	s.cur = t
	go s.runThread(t, body)
	t.wake <- struct{}{}
	<-s.finish
	res := s.result()
	// Reap parked goroutines one at a time; every blocking shim operation leaves through Goexit.
	reaping = true
	for _, th := range s.threads {
		if !th.exited {
			select {
			case th.wake <- struct{}{}:
			default:
			}
			<-th.gone
		}
	}
	reaping = false
	S = nil
	return res
}

func (s *sched) result() *Result {
	s.reporting = true
	r := &Result{Points: s.points, Steps: s.steps, Aborted: s.aborted, Panics: s.panics, HB: s.hb, TraceHash: s.th, Err: s.err, Log: s.log, MaxLive: len(s.threads)}
	for _, t := range s.threads {
		ti := ThreadInfo{ID: t.id, Name: t.name, Lib: t.lib}
		switch {
		case t.done:
			ti.State = "done"
		case t.pred == nil || t.pred():
			ti.State, ti.What = "runnable", t.what
		default:
			ti.State, ti.What = "blocked", t.what
		}
		r.Threads = append(r.Threads, ti)
	}
	r.Err = s.err
	return r
}

func (s *sched) newThread(name string, lib bool, parent *thread) *thread {
	t := &thread{id: len(s.threads), name: name, lib: lib, wake: make(chan struct{}, 1), gone: make(chan struct{})}
	if parent != nil {
		parent.spawns++
		t.path = mix(parent.path, parent.spawns, 17, 0)
	} else {
		t.path = 1
	}
	if s.cfg.MapRaces {
		// go statement: everything the parent has done happens before the new thread starts
		if parent != nil {
			t.vc = parent.vc.copy()
			parent.vc[parent.id]++
		} else {
			t.vc = vclock{}
		}
		t.vc[t.id] = 1
	}
	s.threads = append(s.threads, t)
	s.live = append(s.live, t)
	return t
}

func libFunc(stack, prefix string) string {
	for _, l := range strings.Split(stack, "\n") {
		if strings.HasPrefix(l, prefix) {
			if i := strings.LastIndex(l, "("); i > 0 {
				l = l[:i]
			}
			return l
		}
	}
	return ""
}

func (s *sched) runThread(t *thread, f func()) {
	<-t.wake
	defer func() {
		if reaping || s.finished && S != s {
			recover()
			t.exited = true
			close(t.gone)
			return
		}
		if r := recover(); r != nil {
			st := string(debug.Stack())
			s.panics = append(s.panics, PanicInfo{Thread: t.id, Name: t.name, Value: fmt.Sprint(r), Func: libFunc(st, s.cfg.LibPrefix), Stack: st})
			if s.cfg.Trace {
				s.log = append(s.log, fmt.Sprintf("PANIC in T%d(%s): %v", t.id, t.name, r))
			}
			// a panic in production kills the process: the execution ends here.
			t.done = true
			t.exited = true
			close(t.gone)
			s.doFinish()
			return
		}
		t.done = true
		t.exited = true
		close(t.gone)
		s.schedule(nil)
	}()
	if reaping {
		return
	}
	f()
}

func (s *sched) doFinish() {
	if !s.finished {
		s.finished = true
		close(s.finish)
	}
}

// park ends the execution from inside a controlled thread and never returns.
func (s *sched) stop(me *thread) {
	s.doFinish()
	if me != nil {
		<-me.wake
		runtime.Goexit()
	}
}

func (s *sched) fatal(msg string) {
	if s.err == "" {
		s.err = msg
	}
	if s.reporting {
		// a predicate evaluated by the run loop itself while it collects the result (not by a thread): there is
		// nobody to park
		return
	}
	s.stop(s.cur)
}

func enabled(t *thread) bool { return !t.done && (t.pred == nil || t.pred()) }

// schedule is the single decision procedure: the caller (me, nil when it has terminated) has
// announced its next operation (me.pred/what/obj) and hands the token to the chosen thread.
func (s *sched) schedule(me *thread) {
	if s.finished {
		if me != nil {
			<-me.wake
			runtime.Goexit()
		}
		return
	}
	s.steps++
	var en, dem []*thread
	curEnabled := me != nil && enabled(me)
	if curEnabled {
		if me.demoted > 0 {
			dem = append(dem, me)
		} else {
			en = append(en, me)
		}
	}
	// threads that have finished are dropped from the scan list first (an execution may create
	// tens of thousands of short-lived threads); predicates are only evaluated afterwards, since
	// the quiescing driver's predicate walks the same list
	live := s.live[:0]
	for _, t := range s.live {
		if !t.done {
			live = append(live, t)
		}
	}
	for i := len(live); i < len(s.live); i++ {
		s.live[i] = nil
	}
	s.live = live
	for _, t := range s.live {
		if t == me {
			continue
		}
		if t.pred == nil || t.pred() {
			if t.demoted > 0 {
				dem = append(dem, t)
			} else {
				en = append(en, t)
			}
		}
	}
	// stalled threads come last, in the order in which they were stalled
	for i := 1; i < len(dem); i++ {
		for j := i; j > 0 && dem[j].demoted < dem[j-1].demoted; j-- {
			dem[j], dem[j-1] = dem[j-1], dem[j]
		}
	}
	canStall := len(en) >= 1 && len(en)+len(dem) >= 2 && !s.cfg.NoStalls
	en = append(en, dem...)
	if len(en) == 0 {
		s.stop(me)
		return
	}
	if s.steps > s.cfg.MaxSteps {
		s.aborted = true
		s.stop(me)
		return
	}
	if q := s.quiescer; s.cfg.SoloStalls && !s.cfg.NoStalls && len(en) == 1 && en[0].demoted == 0 && q != nil && s.quiescerKeep && en[0] != q && !q.done && q.pred != nil {
		// the only enabled thread, while the driver waits in QuiesceKeep: it may be slow (stalled) and
		// the driver goes on with its next event
		c := 0
		i := len(s.points)
		if i < len(s.cfg.Prefix) {
			c = s.cfg.Prefix[i]
			if c < 0 || c >= 2 {
				s.fatal(fmt.Sprintf("replay divergence at point %d: solo-stall choice %d of 2", i, c))
				return
			}
		}
		s.points = append(s.points, Point{Kind: KSched, N: 2, Choice: c, Running: curEnabled})
		if c == 1 {
			s.ndemoted++
			en[0].demoted = s.ndemoted
			if s.cfg.Trace {
				s.log = append(s.log, fmt.Sprintf("        T%d(%s) is stalled (it was the only enabled thread)", en[0].id, en[0].name))
			}
			if q.pred() {
				en = []*thread{q}
			}
		}
	}
	choice := 0
	if len(en) > 1 {
		n := len(en)
		if canStall {
			n++ // extra alternative: stall the default thread persistently and run the next one
		}
		i := len(s.points)
		if i < len(s.cfg.Prefix) {
			choice = s.cfg.Prefix[i]
			if choice < 0 || choice >= n {
				s.fatal(fmt.Sprintf("replay divergence at point %d: schedule choice %d of %d", i, choice, n))
				return
			}
		}
		s.points = append(s.points, Point{Kind: KSched, N: n, Choice: choice, Running: curEnabled})
		if choice == len(en) {
			s.ndemoted++
			en[0].demoted = s.ndemoted
			if s.cfg.Trace {
				s.log = append(s.log, fmt.Sprintf("        T%d(%s) is stalled", en[0].id, en[0].name))
			}
			choice = 1
		}
	}
	next := en[choice]
	next.pred = nil
	// account the operation the chosen thread is about to perform
	if next.obj != nil {
		if next.obj.id == 0 {
			next.obj.id = mix(next.path, next.opIdx, 29, 1) | 1
		}
		s.hb += mix(next.path, next.opIdx, next.obj.id, uint64(next.obj.ver))
		next.obj.ver++
	}
	next.opIdx++
	s.th = mix(s.th, uint64(next.id), hashStr(next.what), 7)
	if s.cfg.Trace {
		s.log = append(s.log, fmt.Sprintf("step %d: T%d(%s) %s  [enabled %d, choice %d]", s.steps, next.id, next.name, next.what, len(en), choice))
	}
	next.obj = nil
	s.cur = next
	if next == me {
		return
	}
	next.wake <- struct{}{}
	if me != nil {
		<-me.wake
		if reaping || s.finished {
			runtime.Goexit()
		}
	}
}

func (s *sched) touch(o *objState) *objState {
	if o.ep != epoch {
		o.ep = epoch
		o.ver = 0
		o.id = 0
		o.vc = nil
	}
	return o
}

// point announces the next operation of the running thread and yields to the scheduler.
func (s *sched) point(what string, o *objState, pred func() bool) {
	me := s.cur
	me.pred = pred
	if s.cfg.Trace {
		what += " @" + callSite()
	}
	me.what = what
	me.obj = o
	s.schedule(me)
}

// Yield is an unconditional scheduling point.
func Yield() {
	s := S
	if s == nil {
		runtime.Gosched()
		return
	}
	if reaping {
		return
	}
	s.point("yield", nil, nil)
}

// SharedWrite is called by instrumented code before a statement that writes a struct field.  A
// critical section entered with RLock can run concurrently with other such sections, so a field
// write inside one is a step other readers can interleave with: it is a scheduling point while the
// running thread holds a read lock, and nothing otherwise.  With Config.UnlockedWrites a field
// write by a thread that holds no lock at all is a scheduling point too (costly: constructors and
// per-call bookkeeping write many fields without a lock).
func SharedWrite() {
	s := S
	if s == nil || reaping {
		return
	}
	if s.cur == nil {
		return
	}
	if s.cur.rl == 0 && (s.cur.xl > 0 || !s.cfg.UnlockedWrites) {
		return
	}
	s.point("write under read lock", nil, nil)
}

// Block parks the caller until pred holds (harness / environment model use).
func Block(what string, pred func() bool) {
	if reaping {
		runtime.Goexit()
	}
	s := S
	if s == nil {
		panic("vsync.Block outside a controlled execution")
	}
	s.point(what, nil, pred)
}

// BlockObj is Block on an identified object (for the happens-before signature).
func BlockObj(what string, o *Obj, pred func() bool) {
	if reaping {
		runtime.Goexit()
	}
	s := S
	if s == nil {
		panic("vsync.BlockObj outside a controlled execution")
	}
	s.point(what, s.touch(&o.st), pred)
}

// Obj is an identity for environment-model objects.
type Obj struct{ st objState }

// Go starts f as a controlled thread (instrumented `go` statements).
func Go(f func()) { spawn("", true, f) }

// GoNamed starts a harness thread.
func GoNamed(name string, f func()) { spawn(name, false, f) }

// GoLib starts a thread that counts as library-spawned (environment threads that stand for
// goroutines of replaced dependencies, e.g. netpoll workers).
func GoLib(name string, f func()) { spawn(name, true, f) }

func spawn(name string, lib bool, f func()) {
	if reaping {
		return
	}
	s := S
	if s == nil {
		go f()
		return
	}
	if name == "" {
		if s.cfg.Trace || s.cfg.Names {
			name = callerName()
		} else {
			name = "lib"
		}
	}
	t := s.newThread(name, lib, s.cur)
	t.what = "start"
	go s.runThread(t, f)
	s.point("go "+name, nil, nil)
}

// callSite names the first frame outside the shim (trace mode only).
func callSite() string {
	pc := make([]uintptr, 12)
	n := runtime.Callers(3, pc)
	fr := runtime.CallersFrames(pc[:n])
	for {
		f, more := fr.Next()
		if !strings.Contains(f.Function, "verif/shim") {
			file := f.File
			if i := strings.LastIndex(file, "/"); i >= 0 {
				file = file[i+1:]
			}
			fn := f.Function
			if i := strings.LastIndex(fn, "."); i >= 0 {
				fn = fn[i+1:]
			}
			return fmt.Sprintf("%s:%d(%s)", file, f.Line, fn)
		}
		if !more {
			break
		}
	}
	return "?"
}

func callerName() string {
	pc := make([]uintptr, 6)
	n := runtime.Callers(3, pc)
	fr := runtime.CallersFrames(pc[:n])
	for {
		f, more := fr.Next()
		if !strings.Contains(f.Function, "verif/shim") {
			fn := f.Function
			if i := strings.LastIndex(fn, "/"); i >= 0 {
				fn = fn[i+1:]
			}
			return fn
		}
		if !more {
			break
		}
	}
	return "?"
}

// Quiesce blocks the caller (the scenario driver) until no other thread is enabled.
func Quiesce() {
	if reaping {
		runtime.Goexit()
	}
	s := S
	me := s.cur
	if s.quiescer != nil && s.quiescer != me {
		s.fatal("vsync.Quiesce used by two threads")
	}
	s.quiescer = me
	s.quiescerKeep = false
	for _, t := range s.live {
		t.demoted = 0
	}
	s.point("quiesce", nil, func() bool {
		for _, t := range s.live {
			if t != me && !t.done && (t.pred == nil || t.pred()) {
				return false
			}
		}
		return true
	})
}

// QuiesceKeep is Quiesce that leaves stalled threads stalled: it returns when no thread other than
// the stalled ones is enabled, so a stall can span several driver events.  Oracles that judge
// "has returned / has terminated" must use Quiesce, which releases every stalled thread first.
func QuiesceKeep() {
	if reaping {
		runtime.Goexit()
	}
	s := S
	me := s.cur
	s.quiescer = me
	s.quiescerKeep = true
	s.point("quiesce(keep)", nil, func() bool {
		for _, t := range s.live {
			if t != me && !t.done && t.demoted == 0 && (t.pred == nil || t.pred()) {
				return false
			}
		}
		return true
	})
}

// Choose is an explorer-owned choice among n alternatives.
func Choose(kind Kind, n int) int {
	s := S
	if s == nil || reaping || n <= 1 {
		return 0
	}
	c := 0
	i := len(s.points)
	if i < len(s.cfg.Prefix) {
		c = s.cfg.Prefix[i]
		if c < 0 || c >= n {
			s.fatal(fmt.Sprintf("replay divergence at point %d: choice %d of %d (kind %d)", i, c, n, kind))
		}
	}
	s.points = append(s.points, Point{Kind: kind, N: n, Choice: c})
	if s.cfg.Trace {
		s.log = append(s.log, fmt.Sprintf("        T%d(%s) choose kind=%d %d/%d", s.cur.id, s.cur.name, kind, c, n))
	}
	return c
}

// Logf appends to the trace log (only kept when tracing).
func Logf(format string, a ...interface{}) {
	s := S
	if s != nil && s.cfg.Trace {
		s.log = append(s.log, "        "+fmt.Sprintf(format, a...))
	}
}

// Fatal reports an engine error from the environment model.
func Fatal(msg string) {
	if S != nil {
		S.fatal(msg)
	}
	panic(msg)
}

// Census returns the state of every thread of the running execution.
func Census() []ThreadInfo {
	s := S
	if s == nil {
		return nil
	}
	return s.result().Threads
}

// Self returns the id of the running thread.
func Self() int {
	if S == nil {
		return -1
	}
	return S.cur.id
}

// Steps returns the number of scheduling steps so far.
func Steps() int {
	if S == nil {
		return 0
	}
	return S.steps
}

// ObjID gives a small deterministic id (first-sight order within the execution) to a pointer.
func ObjID(p uintptr) int {
	s := S
	if s == nil {
		return int(p)
	}
	if id, ok := s.objids[p]; ok {
		return id
	}
	id := len(s.objids) + 1
	s.objids[p] = id
	return id
}

// AtomicPoint is called by package vatomic before every atomic operation.
func AtomicPoint(p unsafe.Pointer, what string) {
	s := S
	if s == nil || reaping {
		return
	}
	a := uintptr(p)
	if _, ok := s.objids[a]; !ok {
		s.objids[a] = len(s.objids) + 1
	}
	if !s.cfg.AtomicPoints && !s.cfg.MapRaces {
		return
	}
	o := s.atoms[a]
	if o == nil {
		o = &objState{ep: epoch}
		s.atoms[a] = o
	}
	if s.cfg.AtomicPoints {
		s.point(what, o, nil)
	}
	// an atomic operation is both an acquire and a release on its address
	s.acq(o)
	s.rel(o)
}

// SelfLib reports whether the running thread was spawned by instrumented (library) code.
func SelfLib() bool {
	if S == nil {
		return false
	}
	return S.cur.lib
}

// SelfName returns the name of the running thread.
func SelfName() string {
	if S == nil {
		return ""
	}
	return S.cur.name
}
