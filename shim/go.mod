module verif/shim

go 1.15
