// Package vatomic replaces sync/atomic in the instrumented build: each operation is an optional
// scheduling point (Config.AtomicPoints) followed by the real atomic operation.
package vatomic

import (
	"sync/atomic"
	"unsafe"

	vs "verif/shim/vsync"
)

// Value is atomic.Value.
type Value = atomic.Value

func LoadInt32(p *int32) int32 {
	vs.AtomicPoint(unsafe.Pointer(p), "atomic.Load")
	return atomic.LoadInt32(p)
}
func StoreInt32(p *int32, v int32) {
	vs.AtomicPoint(unsafe.Pointer(p), "atomic.Store")
	atomic.StoreInt32(p, v)
}
func AddInt32(p *int32, d int32) int32 {
	vs.AtomicPoint(unsafe.Pointer(p), "atomic.Add")
	return atomic.AddInt32(p, d)
}
func SwapInt32(p *int32, v int32) int32 {
	vs.AtomicPoint(unsafe.Pointer(p), "atomic.Swap")
	return atomic.SwapInt32(p, v)
}
func CompareAndSwapInt32(p *int32, o, n int32) bool {
	vs.AtomicPoint(unsafe.Pointer(p), "atomic.CAS")
	return atomic.CompareAndSwapInt32(p, o, n)
}
func LoadInt64(p *int64) int64 {
	vs.AtomicPoint(unsafe.Pointer(p), "atomic.Load")
	return atomic.LoadInt64(p)
}
func StoreInt64(p *int64, v int64) {
	vs.AtomicPoint(unsafe.Pointer(p), "atomic.Store")
	atomic.StoreInt64(p, v)
}
func AddInt64(p *int64, d int64) int64 {
	vs.AtomicPoint(unsafe.Pointer(p), "atomic.Add")
	return atomic.AddInt64(p, d)
}
func SwapInt64(p *int64, v int64) int64 {
	vs.AtomicPoint(unsafe.Pointer(p), "atomic.Swap")
	return atomic.SwapInt64(p, v)
}
func CompareAndSwapInt64(p *int64, o, n int64) bool {
	vs.AtomicPoint(unsafe.Pointer(p), "atomic.CAS")
	return atomic.CompareAndSwapInt64(p, o, n)
}
func LoadUint32(p *uint32) uint32 {
	vs.AtomicPoint(unsafe.Pointer(p), "atomic.Load")
	return atomic.LoadUint32(p)
}
func StoreUint32(p *uint32, v uint32) {
	vs.AtomicPoint(unsafe.Pointer(p), "atomic.Store")
	atomic.StoreUint32(p, v)
}
func AddUint32(p *uint32, d uint32) uint32 {
	vs.AtomicPoint(unsafe.Pointer(p), "atomic.Add")
	return atomic.AddUint32(p, d)
}
func SwapUint32(p *uint32, v uint32) uint32 {
	vs.AtomicPoint(unsafe.Pointer(p), "atomic.Swap")
	return atomic.SwapUint32(p, v)
}
func CompareAndSwapUint32(p *uint32, o, n uint32) bool {
	vs.AtomicPoint(unsafe.Pointer(p), "atomic.CAS")
	return atomic.CompareAndSwapUint32(p, o, n)
}
func LoadUint64(p *uint64) uint64 {
	vs.AtomicPoint(unsafe.Pointer(p), "atomic.Load")
	return atomic.LoadUint64(p)
}
func StoreUint64(p *uint64, v uint64) {
	vs.AtomicPoint(unsafe.Pointer(p), "atomic.Store")
	atomic.StoreUint64(p, v)
}
func AddUint64(p *uint64, d uint64) uint64 {
	vs.AtomicPoint(unsafe.Pointer(p), "atomic.Add")
	return atomic.AddUint64(p, d)
}
func SwapUint64(p *uint64, v uint64) uint64 {
	vs.AtomicPoint(unsafe.Pointer(p), "atomic.Swap")
	return atomic.SwapUint64(p, v)
}
func CompareAndSwapUint64(p *uint64, o, n uint64) bool {
	vs.AtomicPoint(unsafe.Pointer(p), "atomic.CAS")
	return atomic.CompareAndSwapUint64(p, o, n)
}
func LoadUintptr(p *uintptr) uintptr {
	vs.AtomicPoint(unsafe.Pointer(p), "atomic.Load")
	return atomic.LoadUintptr(p)
}
func StoreUintptr(p *uintptr, v uintptr) {
	vs.AtomicPoint(unsafe.Pointer(p), "atomic.Store")
	atomic.StoreUintptr(p, v)
}
func AddUintptr(p *uintptr, d uintptr) uintptr {
	vs.AtomicPoint(unsafe.Pointer(p), "atomic.Add")
	return atomic.AddUintptr(p, d)
}
func SwapUintptr(p *uintptr, v uintptr) uintptr {
	vs.AtomicPoint(unsafe.Pointer(p), "atomic.Swap")
	return atomic.SwapUintptr(p, v)
}
func CompareAndSwapUintptr(p *uintptr, o, n uintptr) bool {
	vs.AtomicPoint(unsafe.Pointer(p), "atomic.CAS")
	return atomic.CompareAndSwapUintptr(p, o, n)
}

func LoadPointer(p *unsafe.Pointer) unsafe.Pointer {
	vs.AtomicPoint(unsafe.Pointer(p), "atomic.Load")
	return atomic.LoadPointer(p)
}
func StorePointer(p *unsafe.Pointer, v unsafe.Pointer) {
	vs.AtomicPoint(unsafe.Pointer(p), "atomic.Store")
	atomic.StorePointer(p, v)
}
func CompareAndSwapPointer(p *unsafe.Pointer, o, n unsafe.Pointer) bool {
	vs.AtomicPoint(unsafe.Pointer(p), "atomic.CAS")
	return atomic.CompareAndSwapPointer(p, o, n)
}
