module verif/real

go 1.21

require (
	github.com/hslam/rpc v0.0.0
	github.com/hslam/socket v0.0.4-0.20230517140040-6048f4a0c39b
)

require (
	github.com/hslam/atomic v1.0.0 // indirect
	github.com/hslam/buffer v0.0.0-20230217202846-e7b1b6ebf283 // indirect
	github.com/hslam/code v1.0.2-0.20210610150014-db5f483caa02 // indirect
	github.com/hslam/funcs v1.0.2-0.20220105101002-455c99d05c0a // indirect
	github.com/hslam/inproc v0.0.0-20210912032833-46957e53529f // indirect
	github.com/hslam/log v1.0.6 // indirect
	github.com/hslam/mmap v1.0.0 // indirect
	github.com/hslam/netpoll v0.0.4-0.20230514092318-c286d2b379aa // indirect
	github.com/hslam/reuse v0.0.0-20230219162114-9a3f8d1f9550 // indirect
	github.com/hslam/scheduler v0.0.0-20211028175315-641598104976 // indirect
	github.com/hslam/sendfile v1.0.1 // indirect
	github.com/hslam/splice v1.0.3 // indirect
	github.com/hslam/websocket v0.1.1-0.20230517135840-2d09ff61bbdb // indirect
	github.com/hslam/writer v1.0.1-0.20230517134517-171bf4321917 // indirect
)

replace github.com/hslam/rpc => /repo
