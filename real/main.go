// mcreal: free-running runs of hslam/rpc over the REAL networks (tcp, unix, http, ws, inproc,
// with and without TLS) for the network dimension of C12.  Built against the plain, uninstrumented
// /repo.  Sequential, deterministic workload; the transcript of every configuration must equal the
// expected one.  Usage:
//
//	mcreal run  -out result.json [-quick] [-seed N]      coordinator: one subprocess per configuration group
//	mcreal one  -cfg "<network>|<tls>|<enc>|<codec>|<poll>|<buf>" -port N -dir D     a single configuration
package main

import (
	"bytes"
	"context"
	"encoding/hex"
	"encoding/json"
	"errors"
	"flag"
	"fmt"
	"github.com/hslam/socket"
	"net"
	"os"
	"os/exec"
	"path/filepath"
	"strconv"
	"strings"
	"sync"
	"sync/atomic"
	"time"

	"github.com/hslam/rpc"
)

// ---- message families (as in the controlled matrix)

type mJ struct {
	T int    `json:"t" xml:"t"`
	D string `json:"d" xml:"d"`
}
type mCode struct {
	T uint64
	D []byte
}
type mPB struct {
	T uint64
	D []byte
}

func uvarint(b []byte, v uint64) []byte {
	for v >= 0x80 {
		b = append(b, byte(v)|0x80)
		v >>= 7
	}
	return append(b, byte(v))
}
func readUvarint(b []byte) (uint64, int) {
	var v uint64
	for i := 0; i < len(b) && i < 10; i++ {
		v |= uint64(b[i]&0x7f) << (7 * uint(i))
		if b[i] < 0x80 {
			return v, i + 1
		}
	}
	return 0, -1
}
func decodeTD(b []byte) (uint64, []byte, int, error) {
	t, k := readUvarint(b)
	if k < 0 {
		return 0, nil, 0, errors.New("bad tag")
	}
	l, k2 := readUvarint(b[k:])
	if k2 < 0 || uint64(len(b)-k-k2) < l {
		return 0, nil, 0, errors.New("bad length")
	}
	return t, append([]byte(nil), b[k+k2:k+k2+int(l)]...), k + k2 + int(l), nil
}
func (m *mCode) Marshal(buf []byte) ([]byte, error) {
	return append(uvarint(uvarint(buf[:0], m.T), uint64(len(m.D))), m.D...), nil
}
func (m *mCode) Unmarshal(b []byte) (uint64, error) {
	t, d, n, err := decodeTD(b)
	m.T, m.D = t, d
	return uint64(n), err
}
func (m *mPB) Size() int { return 22 + len(m.D) }
func (m *mPB) Marshal() ([]byte, error) {
	return append(uvarint(uvarint(make([]byte, 0, m.Size()), m.T), uint64(len(m.D))), m.D...), nil
}
func (m *mPB) MarshalTo(buf []byte) (int, error) {
	b := append(uvarint(uvarint(buf[:0], m.T), uint64(len(m.D))), m.D...)
	return len(b), nil
}
func (m *mPB) Unmarshal(b []byte) error {
	t, d, _, err := decodeTD(b)
	m.T, m.D = t, d
	return err
}

type family struct {
	method string
	newMsg func(t uint64, d []byte) interface{}
	get    func(m interface{}) (uint64, []byte)
}

var fams = map[string]family{
	"json": {"J", func(t uint64, d []byte) interface{} { return &mJ{T: int(t), D: hex.EncodeToString(d)} }, func(m interface{}) (uint64, []byte) {
		x := m.(*mJ)
		d, _ := hex.DecodeString(x.D)
		return uint64(x.T), d
	}},
	"code": {"Code", func(t uint64, d []byte) interface{} { return &mCode{t, d} }, func(m interface{}) (uint64, []byte) { x := m.(*mCode); return x.T, x.D }},
	"pb":   {"PB", func(t uint64, d []byte) interface{} { return &mPB{t, d} }, func(m interface{}) (uint64, []byte) { x := m.(*mPB); return x.T, x.D }},
}

type Svc struct {
	mu      sync.Mutex
	execs   map[uint64]int
	entered chan struct{} // the handler of request 88 has started
	gate    chan struct{} // ... and waits for this
}

func (s *Svc) do(t uint64, d []byte) (uint64, []byte, error) {
	s.mu.Lock()
	s.execs[t]++
	s.mu.Unlock()
	if t == 13 {
		return 0, nil, errors.New("unlucky thirteen")
	}
	if t == 88 {
		close(s.entered)
		<-s.gate
	}
	out := make([]byte, len(d))
	for i := range d {
		out[i] = d[len(d)-1-i] ^ 0x5A
	}
	return t + 100, out, nil
}
func (s *Svc) J(req *mJ, res *mJ) error {
	d, _ := hex.DecodeString(req.D)
	t, o, err := s.do(uint64(req.T), d)
	res.T, res.D = int(t), hex.EncodeToString(o)
	return err
}
func (s *Svc) Code(req *mCode, res *mCode) (err error) {
	res.T, res.D, err = s.do(req.T, req.D)
	return
}
func (s *Svc) PB(req *mPB, res *mPB) (err error) { res.T, res.D, err = s.do(req.T, req.D); return }

func payload(tag byte, n int) []byte {
	b := make([]byte, n)
	for i := range b {
		b[i] = byte(i*7+3) ^ tag
	}
	return b
}

// ---- one configuration

type cfg struct {
	network, enc, codec string
	tls, poll           bool
	buf                 int
}

func parseCfg(s string) cfg {
	f := strings.Split(s, "|")
	buf, _ := strconv.Atoi(f[5])
	return cfg{network: f[0], tls: f[1] == "1", enc: f[2], codec: f[3], poll: f[4] == "1", buf: buf}
}
func (c cfg) String() string {
	b := func(x bool) string {
		if x {
			return "1"
		}
		return "0"
	}
	return strings.Join([]string{c.network, b(c.tls), c.enc, c.codec, b(c.poll), strconv.Itoa(c.buf)}, "|")
}

var want = []string{"ok", "E:unlucky thirteen", "E:can't find service Svc.Nope", "pong", "ok", "ok", "ok", "ok", "ok", "ok", "ok", "ok"}

// header fields (arguments, reply) of 125..131 bytes: the one-byte / two-byte length boundary of the pb and code
// header formats (JSON body: 16+2*56 = 128 bytes with a three-digit tag)
var boundarySizes = []int{56, 124, 125, 126, 127, 128}

func runOne(c cfg, port int, dir string) (transcript []string, note string) {
	addr := fmt.Sprintf("127.0.0.1:%d", port)
	switch c.network {
	case "unix":
		addr = filepath.Join(dir, fmt.Sprintf("s%d.sock", port))
		os.Remove(addr)
	case "inproc":
		addr = fmt.Sprintf("inproc-%d", port)
	}
	svc := &Svc{execs: map[uint64]int{}, entered: make(chan struct{}), gate: make(chan struct{})}
	srv := rpc.NewServer()
	srv.SetLogLevel(rpc.OffLogLevel)
	srv.SetPoll(c.poll)
	srv.SetBufferSize(c.buf)
	srv.Register(svc)
	so := &rpc.Options{Network: c.network, Codec: c.codec, HeaderEncoder: c.enc}
	co := &rpc.Options{Network: c.network, Codec: c.codec, HeaderEncoder: c.enc, ClientBufferSize: c.buf}
	if c.tls {
		so.TLSConfig = rpc.DefalutServerTLSConfig()
		co.TLSConfig = rpc.SkipVerifyTLSConfig()
	}
	lisDone := make(chan error, 1)
	go func() { lisDone <- srv.ListenWithOptions(addr, so) }()
	var conn *rpc.Conn
	var err error
	for i := 0; i < 400; i++ {
		conn, err = rpc.DialWithOptions(addr, co)
		if err == nil {
			break
		}
		select {
		case e := <-lisDone:
			return nil, fmt.Sprintf("listen returned early: %v", e)
		default:
		}
		time.Sleep(5 * time.Millisecond)
	}
	if err != nil {
		return nil, "dial: " + err.Error()
	}
	conn.SetBufferSize(c.buf)
	f := fams[c.codec]
	call := func(method string, t uint64, size int) string {
		d := payload(byte(t), size)
		rep := f.newMsg(0, nil)
		ch := make(chan error, 1)
		go func() { ch <- conn.Call("Svc."+method, f.newMsg(t, d), rep) }()
		select {
		case err := <-ch:
			if err != nil {
				return "E:" + err.Error()
			}
		case <-time.After(10 * time.Second):
			return "TIMEOUT"
		}
		rt, rd := f.get(rep)
		if rt != t+100 || len(rd) != len(d) {
			return fmt.Sprintf("WRONG(%d,%d)", rt, len(rd))
		}
		for i := range d {
			if rd[i] != d[len(d)-1-i]^0x5A {
				return "WRONG(bytes)"
			}
		}
		return "ok"
	}
	big := 3*c.buf + 17
	if big > 200000 {
		big = 200000
	}
	transcript = append(transcript, call(f.method, 1, 10), call(f.method, 13, 10), call("Nope", 2, 10))
	pch := make(chan error, 1)
	go func() { pch <- conn.Ping() }()
	select {
	case e := <-pch:
		if e != nil {
			transcript = append(transcript, "ping:"+e.Error())
		} else {
			transcript = append(transcript, "pong")
		}
	case <-time.After(10 * time.Second):
		transcript = append(transcript, "ping:TIMEOUT")
	}
	transcript = append(transcript, call(f.method, 4, big), call(f.method, 5, 30))
	// the buffer size option again, now on a connection whose reader is parked, then sizes around the
	// length-prefix boundary of the header formats
	sb := make(chan struct{})
	go func() { conn.SetBufferSize(c.buf); close(sb) }()
	select {
	case <-sb:
	case <-time.After(10 * time.Second):
		note += "SetBufferSize on an idle connection did not return; "
	}
	execWant := map[uint64]int{1: 1, 13: 1, 4: 1, 5: 1}
	for i, d := range boundarySizes {
		transcript = append(transcript, call(f.method, uint64(110+i), d))
		execWant[uint64(110+i)] = 1
	}
	for t, n := range execWant {
		if svc.execs[t] != n {
			note += fmt.Sprintf("request %d executed %d times; ", t, svc.execs[t])
		}
	}
	if b := burst(c, addr, f); b != "" {
		note += b
	}
	// the server goes away with a call outstanding (its handler is held): the call returns, Listen returns,
	// and a Transport asked for that address afterwards reports ErrDial
	if !c.poll { // (a poll-mode Server.Close does not end its netpoll workers promptly: recorded in DESIGN, not judged)
		heldErr := make(chan string, 1)
		go func() { heldErr <- call(f.method, 88, 10) }()
		select {
		case <-svc.entered:
			srv.Close()
			select {
			case r := <-heldErr:
				if r == "ok" || r == "TIMEOUT" {
					note += "the call outstanding at Server.Close returned " + r + "; "
				}
			case <-time.After(12 * time.Second):
				note += "the call outstanding at Server.Close did not return; "
			}
		case <-time.After(10 * time.Second):
			note += "the held request never reached its handler; "
		}
		close(svc.gate)
		tr := &rpc.Transport{Options: co}
		if c.network == "inproc" || c.network == "unix" || c.network == "tcp" {
			terr := make(chan error, 1)
			go func() {
				rep := f.newMsg(0, nil)
				terr <- tr.Call(addr, "Svc."+f.method, f.newMsg(5, payload(5, 8)), rep)
			}()
			select {
			case e := <-terr:
				if e != rpc.ErrDial {
					note += fmt.Sprintf("a Transport call to the closed server returned %v, want ErrDial; ", e)
				}
			case <-time.After(10 * time.Second):
				note += "a Transport call to the closed server did not return; "
			}
		}
		tr.Close()
	}
	conn.Close()
	srv.Close()
	if !c.poll { // a poll-mode listener of the netpoll dependency does not return promptly: recorded in DESIGN, not judged
		select {
		case <-lisDone:
		case <-time.After(10 * time.Second):
			note += "Listen did not return after Server.Close; "
		}
	}
	return transcript, note
}

// ---- coordinator

type result struct {
	Cfg        string   `json:"cfg"`
	Transcript []string `json:"transcript"`
	Note       string   `json:"note,omitempty"`
	OK         bool     `json:"ok"`
	Attempts   int      `json:"attempts"`
	Earlier    []string `json:"earlier_attempts,omitempty"`
}

func main() {
	if len(os.Args) < 2 {
		fmt.Println("usage: mcreal run|one ...")
		os.Exit(2)
	}
	switch os.Args[1] {
	case "one":
		fs := flag.NewFlagSet("one", flag.ExitOnError)
		cs := fs.String("cfg", "", "")
		port := fs.Int("port", 23000, "")
		dir := fs.String("dir", os.TempDir(), "")
		fs.Parse(os.Args[2:])
		c := parseCfg(*cs)
		tr, note := runOne(c, *port, *dir)
		r := result{Cfg: *cs, Transcript: tr, Note: note, OK: note == "" && fmt.Sprint(tr) == fmt.Sprint(want)}
		json.NewEncoder(os.Stdout).Encode(r)
	case "run":
		fs := flag.NewFlagSet("run", flag.ExitOnError)
		out := fs.String("out", "", "")
		quick := fs.Bool("quick", false, "")
		seed := fs.Int("seed", 0, "")
		dir := fs.String("dir", os.TempDir(), "")
		jobs := fs.Int("jobs", 8, "subprocesses at a time")
		fs.Parse(os.Args[2:])
		var cfgs []cfg
		nets := []string{"tcp", "unix", "http", "ws", "inproc"}
		for _, n := range nets {
			for _, tls := range []bool{false, true} {
				for _, enc := range []string{"", "pb", "code", "json"} {
					for _, codec := range []string{"json", "code", "pb"} {
						for _, poll := range []bool{false, true} {
							for _, buf := range []int{256, 65536} {
								if *quick && (tls && n != "tcp" || poll && enc != "" || buf == 256 && codec != "json") {
									continue
								}
								if poll && (n == "inproc" || n == "ws" || n == "http") && tls {
									continue // poll + TLS is only exercised over tcp/unix
								}
								cfgs = append(cfgs, cfg{network: n, tls: tls, enc: enc, codec: codec, poll: poll, buf: buf})
							}
						}
					}
				}
			}
		}
		base := 23000 + (*seed%50)*200
		results := make([]result, len(cfgs))
		bad := 0
		skipped := 0
		var nbad int32
		// one subprocess per configuration (and per attempt), several at a time: every subprocess has
		// its own port, UNIX socket file and inproc name
		par := *jobs
		if par < 1 {
			par = 1
		}
		sem := make(chan struct{}, par)
		var wg sync.WaitGroup
		for i, c := range cfgs {
			i, c := i, c
			if atomic.LoadInt32(&nbad) >= 5 {
				// enough configurations have failed three attempts: the rest would only repeat the
				// finding (a tree on which calls hang costs up to 100 s per attempt)
				results[i] = result{Cfg: c.String(), OK: true, Note: "not run: five configurations had already failed"}
				skipped++
				continue
			}
			wg.Add(1)
			sem <- struct{}{}
			go func() {
				defer func() { <-sem; wg.Done() }()
				defer func() {
					if !results[i].OK {
						atomic.AddInt32(&nbad, 1)
					}
				}()
				var r result
				var earlier []string
				for attempt := 1; attempt <= 3; attempt++ {
					port := base + (i*3+attempt*7)%6000
					ctx, cancel := context.WithTimeout(context.Background(), 60*time.Second)
					cmd := exec.CommandContext(ctx, os.Args[0], "one", "-cfg", c.String(), "-port", strconv.Itoa(port), "-dir", *dir)
					var stderr bytes.Buffer
					cmd.Stderr = &stderr
					b, err := cmd.Output()
					cancel()
					r = result{Cfg: c.String()}
					if err == nil {
						json.Unmarshal(b, &r)
					} else {
						r.Note = "subprocess: " + err.Error()
						if e := stderr.String(); e != "" {
							if len(e) > 600 {
								e = e[:600]
							}
							r.Note += ": " + e
						}
					}
					r.Attempts = attempt
					r.Earlier = earlier
					if r.OK {
						break
					}
					earlier = append(earlier, fmt.Sprintf("attempt %d (port %d): transcript %v note %q", attempt, port, r.Transcript, r.Note))
				}
				results[i] = r
			}()
		}
		wg.Wait()
		for _, r := range results {
			if !r.OK {
				bad++
				fmt.Printf("real-network configuration %s: transcript %v note %q (3 attempts)\n", r.Cfg, r.Transcript, r.Note)
			}
		}
		summary := map[string]interface{}{"configurations": len(cfgs), "failed": bad, "not_run_after_five_failures": skipped, "expected_transcript": want, "results": results}
		b, _ := json.MarshalIndent(summary, "", " ")
		if *out != "" {
			os.WriteFile(*out, b, 0644)
		}
		fmt.Printf("real networks: %d configurations, %d failed\n", len(cfgs), bad)
		if bad > 0 {
			os.Exit(1)
		}
	}
}

// burst: a second, raw connection (plain tcp / unix only) writes 100 requests in ONE write, so that
// the server finds many complete frames in a single read, and then waits for the 100 responses.
func burst(c cfg, addr string, f family) string {
	if c.tls || (c.network != "tcp" && c.network != "unix") {
		return ""
	}
	var enc rpc.Encoder
	switch c.enc {
	case "", "pb":
		enc = rpc.NewPBEncoder()
	case "code":
		enc = rpc.NewCODEEncoder()
	case "json":
		enc = rpc.NewJSONEncoder()
	}
	var body rpc.Codec
	switch c.codec {
	case "json":
		body = rpc.NewJSONCodec()
	case "code":
		body = rpc.NewCODECodec()
	case "pb":
		body = rpc.NewPBCodec()
	}
	if enc == nil || body == nil {
		return ""
	}
	const n = 100
	var stream []byte
	for i := 0; i < n; i++ {
		args, err := body.Marshal(nil, f.newMsg(uint64(200+i%50), payload(byte(i), 5+i%20)))
		if err != nil {
			return "burst: cannot encode arguments: " + err.Error() + "; "
		}
		r := enc.NewRequest()
		r.SetSeq(uint64(1000 + i))
		r.SetServiceMethod("Svc." + f.method)
		r.SetArgs(append([]byte(nil), args...))
		frame, err := enc.NewCodec().Marshal(nil, r)
		if err != nil {
			return "burst: cannot encode a request header: " + err.Error() + "; "
		}
		// socket.Messages framing: uvarint length prefix
		l := uint64(len(frame))
		for l >= 0x80 {
			stream = append(stream, byte(l)|0x80)
			l >>= 7
		}
		stream = append(stream, byte(l))
		stream = append(stream, frame...)
	}
	raw, err := net.Dial(c.network, addr)
	if err != nil {
		return "burst: dial: " + err.Error() + "; "
	}
	defer raw.Close()
	if _, err := raw.Write(stream); err != nil {
		return "burst: write: " + err.Error() + "; "
	}
	raw.SetReadDeadline(time.Now().Add(10 * time.Second))
	msgs := socket.NewMessages(raw, false)
	seen := map[uint64]bool{}
	for i := 0; i < n; i++ {
		m, err := msgs.ReadMessage(nil)
		if err != nil {
			return fmt.Sprintf("burst of %d requests in one write: only %d responses arrived (%v); ", n, i, err)
		}
		res := enc.NewResponse()
		if err := enc.NewCodec().Unmarshal(m, res); err != nil {
			return "burst: undecodable response: " + err.Error() + "; "
		}
		if e := res.GetError(); len(e) > 0 {
			return "burst: request " + strconv.FormatUint(res.GetSeq(), 10) + " failed: " + string(e) + "; "
		}
		seen[res.GetSeq()] = true
	}
	if len(seen) != n {
		return fmt.Sprintf("burst: %d distinct responses for %d requests; ", len(seen), n)
	}
	return ""
}
